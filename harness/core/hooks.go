package core

import (
	"fmt"
	"runtime"
	"strings"
	"sync"
	"sync/atomic"
	"time"

	jsonrpc "github.com/filecoin-project/go-jsonrpc"
)

// Event is one entry of the process-wide event log. Hook firings, proxy frames
// and harness actions all go here, ordered by one atomic sequence number.
type Event struct {
	Seq    int64
	T      int64 // monotonic ns since log reset
	Point  string
	Client bool
	Conn   uintptr
	Arg    string
}

type evLog struct {
	mu    sync.Mutex
	evs   []Event
	start time.Time
	on    bool
}

var Log = &evLog{start: time.Now()}

func (l *evLog) Reset() {
	l.mu.Lock()
	l.evs = l.evs[:0]
	l.start = time.Now()
	l.on = true
	l.mu.Unlock()
}
func (l *evLog) Add(point string, client bool, conn uintptr, arg string) int64 {
	l.mu.Lock()
	defer l.mu.Unlock()
	if !l.on {
		return 0
	}
	e := Event{Seq: int64(len(l.evs)) + 1, T: int64(time.Since(l.start)), Point: point, Client: client, Conn: conn, Arg: arg}
	l.evs = append(l.evs, e)
	return e.Seq
}
func (l *evLog) Note(point, arg string) int64 { return l.Add(point, false, 0, arg) }
func (l *evLog) Snapshot() []Event {
	l.mu.Lock()
	defer l.mu.Unlock()
	return append([]Event(nil), l.evs...)
}
func (l *evLog) Count(point string) int {
	l.mu.Lock()
	defer l.mu.Unlock()
	n := 0
	for _, e := range l.evs {
		if e.Point == point {
			n++
		}
	}
	return n
}
func (l *evLog) Len() int {
	l.mu.Lock()
	defer l.mu.Unlock()
	return len(l.evs)
}

// Signature hashes the sequence of (point, side) of library hook events: two
// runs with the same signature went through the hook points in the same order.
func (l *evLog) Signature() string {
	l.mu.Lock()
	defer l.mu.Unlock()
	var sb strings.Builder
	for _, e := range l.evs {
		if strings.HasPrefix(e.Point, "ws.") || strings.HasPrefix(e.Point, "cl.") || strings.HasPrefix(e.Point, "h.") {
			sb.WriteString(e.Point)
			if e.Client {
				sb.WriteByte('c')
			}
			sb.WriteByte(';')
		}
	}
	return Hash(sb.String())
}

// Tail renders the last n events, for witnesses.
func (l *evLog) Tail(n int) string {
	all := l.Snapshot()
	evs := all[:0:0]
	for _, e := range all {
		if (e.Point == "ws.writer.locked" && e.Arg == "ping") || (e.Point == "px.frame" && (strings.Contains(e.Arg, "op=9") || strings.Contains(e.Arg, "op=10"))) {
			continue
		}
		evs = append(evs, e)
	}
	if len(evs) > n {
		evs = evs[len(evs)-n:]
	}
	var sb strings.Builder
	for _, e := range evs {
		side := "s"
		if e.Client {
			side = "c"
		}
		fmt.Fprintf(&sb, "%d@%dus %s[%s] %s | ", e.Seq, e.T/1000, e.Point, side, e.Arg)
	}
	return sb.String()
}

// TailFiltered is Tail without the events whose point equals skip and whose argument mentions a
// continuation frame (long fragmented messages would push everything else out of the tail).
func (l *evLog) TailFiltered(n int, skip string) string {
	all := l.Snapshot()
	evs := all[:0:0]
	for _, e := range all {
		if e.Point == skip && strings.Contains(e.Arg, "op=0 fin=false") {
			continue
		}
		if (e.Point == "ws.writer.locked" && e.Arg == "ping") || (e.Point == "px.frame" && (strings.Contains(e.Arg, "op=9") || strings.Contains(e.Arg, "op=10"))) {
			continue
		}
		evs = append(evs, e)
	}
	if len(evs) > n {
		evs = evs[len(evs)-n:]
	}
	var sb strings.Builder
	for _, e := range evs {
		side := "s"
		if e.Client {
			side = "c"
		}
		fmt.Fprintf(&sb, "%d@%dus %s[%s] %s | ", e.Seq, e.T/1000, e.Point, side, e.Arg)
	}
	return sb.String()
}

// ---------------------------------------------------------------------------
// Hook policies

// Rule fires Do when its point/side/arg/occurrence matches.
type Rule struct {
	Point string
	Side  int    // 0 any, 1 client only, 2 server only
	Arg   string // "" any, else must equal fmt.Sprint(arg)
	Occ   int    // 0 every occurrence, k>0 only the k-th matching occurrence
	Do    func(ev jsonrpc.VerifEvent)
	count int64
	fired int64
}

func (r *Rule) Fired() int { return int(atomic.LoadInt64(&r.fired)) }

type Policy struct {
	Seed     int64
	NoiseP   float64                  // probability of a noise action at each firing
	MaxDelay time.Duration            // upper bound of noise sleeps
	Skew     map[string]time.Duration // per point-prefix fixed delay (role skew)
	Rules    []*Rule
	NoLog    bool

	ctr uint64

	pmu    sync.Mutex
	pcond  *sync.Cond
	pcount map[string]int64 // firings per "point|side"
}

func splitmix(x uint64) uint64 {
	x += 0x9e3779b97f4a7c15
	x = (x ^ (x >> 30)) * 0xbf58476d1ce4e5b9
	x = (x ^ (x >> 27)) * 0x94d049bb133111eb
	return x ^ (x >> 31)
}

func sideOf(client bool) int {
	if client {
		return 1
	}
	return 2
}

// Install activates the policy process-wide. The returned func removes it.
func (p *Policy) Install() func() {
	p.pcond = sync.NewCond(&p.pmu)
	p.pcount = map[string]int64{}
	jsonrpc.VerifSetHook(p.fire)
	return func() {
		jsonrpc.VerifSetHook(nil)
		// release everybody who might be parked in WaitPoint
		p.pmu.Lock()
		p.pcount["\x00dead"] = 1
		p.pcond.Broadcast()
		p.pmu.Unlock()
	}
}

func (p *Policy) fire(ev jsonrpc.VerifEvent) {
	arg := ""
	if ev.Arg != nil {
		arg = fmt.Sprint(ev.Arg)
	}
	if !p.NoLog {
		Log.Add(ev.Point, ev.Client, ev.Conn, arg)
	}
	p.pmu.Lock()
	p.pcount[ev.Point]++
	p.pcount[fmt.Sprintf("%s|%d", ev.Point, sideOf(ev.Client))]++
	p.pcond.Broadcast()
	p.pmu.Unlock()

	for _, r := range p.Rules {
		if r.Point != ev.Point {
			continue
		}
		if r.Side != 0 && r.Side != sideOf(ev.Client) {
			continue
		}
		if r.Arg != "" && r.Arg != arg {
			continue
		}
		n := atomic.AddInt64(&r.count, 1)
		if r.Occ != 0 && int64(r.Occ) != n {
			continue
		}
		atomic.AddInt64(&r.fired, 1)
		if r.Do != nil {
			r.Do(ev)
		}
	}
	for pre, d := range p.Skew {
		if strings.HasPrefix(ev.Point, pre) {
			time.Sleep(d)
		}
	}
	if p.NoiseP > 0 {
		x := splitmix(uint64(p.Seed) ^ atomic.AddUint64(&p.ctr, 1)*0x9e3779b97f4a7c15)
		if float64(x%10000)/10000.0 < p.NoiseP {
			switch (x >> 20) % 3 {
			case 0:
				runtime.Gosched()
			default:
				if p.MaxDelay > 0 {
					time.Sleep(time.Duration((x >> 24) % uint64(p.MaxDelay)))
				}
			}
		}
	}
}

// Count returns how often point fired (side 0 = any).
func (p *Policy) Count(point string, side int) int64 {
	p.pmu.Lock()
	defer p.pmu.Unlock()
	if side == 0 {
		return p.pcount[point]
	}
	return p.pcount[fmt.Sprintf("%s|%d", point, side)]
}

// WaitPoint blocks until point (side 0 = any) has fired more than `after`
// times, or escape elapses. Returns true when the point fired.
func (p *Policy) WaitPoint(point string, side int, after int64, escape time.Duration) bool {
	key := point
	if side != 0 {
		key = fmt.Sprintf("%s|%d", point, side)
	}
	done := make(chan struct{})
	timer := time.AfterFunc(escape, func() {
		p.pmu.Lock()
		close(done)
		p.pcond.Broadcast()
		p.pmu.Unlock()
	})
	defer timer.Stop()
	p.pmu.Lock()
	defer p.pmu.Unlock()
	for {
		if p.pcount[key] > after {
			return true
		}
		if p.pcount["\x00dead"] > 0 {
			return false
		}
		select {
		case <-done:
			return false
		default:
		}
		p.pcond.Wait()
	}
}

// StallUntil returns a rule action: park the firing goroutine until `point`
// fires again (escape bounds the stall so a stall under a lock cannot deadlock
// the harness).
func (p *Policy) StallUntil(point string, side int, escape time.Duration) func(jsonrpc.VerifEvent) {
	return func(jsonrpc.VerifEvent) {
		cur := p.Count(point, side)
		p.WaitPoint(point, side, cur, escape)
	}
}

// Gate is a releasable barrier usable as a rule action.
type Gate struct {
	ch      chan struct{}
	once    sync.Once
	Reached chan struct{}
	ronce   sync.Once
	Escape  time.Duration
}

func NewGate(escape time.Duration) *Gate {
	return &Gate{ch: make(chan struct{}), Reached: make(chan struct{}), Escape: escape}
}
func (g *Gate) Release() { g.once.Do(func() { close(g.ch) }) }
func (g *Gate) Do(jsonrpc.VerifEvent) {
	g.ronce.Do(func() { close(g.Reached) })
	select {
	case <-g.ch:
	case <-time.After(g.Escape):
	}
}
