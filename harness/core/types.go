// Package core holds the pieces shared by every property runner: scenario and
// result types, the process-wide event log, hook policies and small helpers.
package core

import (
	"encoding/json"
	"fmt"
	"hash/fnv"
	"math/rand"
	"regexp"
	"sort"
	"strings"
	"sync"
	"sync/atomic"
	"time"
)

// Scenario is one planned execution. It is JSON-serialisable so that a
// violating scenario can be written out as a replay file.
type Scenario struct {
	Prop string            `json:"prop"`
	Idx  int               `json:"idx"`
	Kind string            `json:"kind"`
	Seed int64             `json:"seed"`
	N    map[string]int    `json:"n,omitempty"`
	S    map[string]string `json:"s,omitempty"`
	L    []int             `json:"l,omitempty"`
}

func (s Scenario) I(k string) int      { return s.N[k] }
func (s Scenario) Str(k string) string { return s.S[k] }
func (s Scenario) Has(k string) bool {
	_, a := s.N[k]
	_, b := s.S[k]
	return a || b
}
func (s Scenario) Rand() *rand.Rand { return rand.New(rand.NewSource(s.Seed)) }
func (s Scenario) String() string {
	b, _ := json.Marshal(s)
	return string(b)
}

func Sc(kind string) Scenario {
	return Scenario{Kind: kind, N: map[string]int{}, S: map[string]string{}}
}
func (s Scenario) WithN(k string, v int) Scenario {
	n := map[string]int{}
	for a, b := range s.N {
		n[a] = b
	}
	n[k] = v
	s.N = n
	return s
}
func (s Scenario) WithS(k string, v string) Scenario {
	n := map[string]string{}
	for a, b := range s.S {
		n[a] = b
	}
	n[k] = v
	s.S = n
	return s
}
func (s Scenario) WithL(l []int) Scenario {
	s.L = append([]int(nil), l...)
	return s
}

const (
	Held         = "held"
	Violated     = "violated"
	Inconclusive = "inconclusive"
)

// Violation is one refuting observation. Finger is a stable class string used
// to match known findings; Msg is the witness.
type Violation struct {
	Finger string `json:"finger"`
	Msg    string `json:"msg"`
}

// Result is what a scenario run reports.
type Result struct {
	Idx        int              `json:"idx"`
	Kind       string           `json:"kind"`
	Verdict    string           `json:"verdict"`
	Key        string           `json:"key"`
	NonTrivial bool             `json:"nontrivial"`
	Viol       []Violation      `json:"viol,omitempty"`
	Why        string           `json:"why,omitempty"` // reason for inconclusive
	Obs        map[string]int64 `json:"obs,omitempty"`
	Sig        string           `json:"sig,omitempty"`
	Sample     interface{}      `json:"sample,omitempty"`
	Keys       []string         `json:"keys,omitempty"` // extra distinct-case keys (each non-trivial)
	WallMs     int64            `json:"wall_ms"`
}

// R is a mutable result builder used by scenario code.
type R struct {
	mu  sync.Mutex
	res Result
}

func NewR(sc Scenario) *R {
	r := &R{res: Result{Idx: sc.Idx, Kind: sc.Kind, Verdict: Held, Obs: map[string]int64{}}}
	curMu.Lock()
	curR = r
	curMu.Unlock()
	return r
}

var hangRe = regexp.MustCompile(`hang|dropped|lost-call|blocked|not-closed|blocks|never|wedged|undetected`)
var hangCount int64

// ResetHangs is called at the start of every scenario.
func ResetHangs() { atomic.StoreInt64(&hangCount, 0) }

// eff shortens grace-sized waits once two hang-type violations have been recorded in the
// running scenario: the verdict is established, further full grace periods only cost time.
// Eff is eff for callers outside this package (e.g. socket read deadlines).
func Eff(d time.Duration) time.Duration { return eff(d) }

var curMu sync.Mutex
var curR *R

// CurrentResult returns what the running scenario has recorded so far (used by the watchdog so that
// violations already established are not lost when a scenario overruns).
func CurrentResult() (Result, bool) {
	curMu.Lock()
	r := curR
	curMu.Unlock()
	if r == nil {
		return Result{}, false
	}
	return r.Result(), true
}

func eff(d time.Duration) time.Duration {
	if d >= Grace && atomic.LoadInt64(&hangCount) >= 2 {
		return 300 * time.Millisecond
	}
	return d
}

func (r *R) Violate(finger, format string, a ...interface{}) {
	if hangRe.MatchString(finger) {
		atomic.AddInt64(&hangCount, 1)
	}
	r.mu.Lock()
	defer r.mu.Unlock()
	if len(r.res.Viol) < 20 {
		r.res.Viol = append(r.res.Viol, Violation{Finger: finger, Msg: fmt.Sprintf(format, a...)})
	}
	r.res.Verdict = Violated
}
func (r *R) Inconclusive(format string, a ...interface{}) {
	r.mu.Lock()
	defer r.mu.Unlock()
	if r.res.Verdict == Held {
		r.res.Verdict = Inconclusive
		r.res.Why = fmt.Sprintf(format, a...)
	}
}
func (r *R) Obs(k string, d int64) {
	r.mu.Lock()
	defer r.mu.Unlock()
	r.res.Obs[k] += d
}
func (r *R) Key(k string, nontrivial bool) {
	r.mu.Lock()
	defer r.mu.Unlock()
	r.res.Key = k
	r.res.NonTrivial = nontrivial
}
func (r *R) AddKey(k string) {
	r.mu.Lock()
	defer r.mu.Unlock()
	r.res.Keys = append(r.res.Keys, k)
}
func (r *R) Sample(v interface{}) {
	r.mu.Lock()
	defer r.mu.Unlock()
	r.res.Sample = v
}
func (r *R) Sig(s string) {
	r.mu.Lock()
	defer r.mu.Unlock()
	r.res.Sig = s
}
func (r *R) Violated() bool {
	r.mu.Lock()
	defer r.mu.Unlock()
	return r.res.Verdict == Violated
}
func (r *R) Result() Result {
	r.mu.Lock()
	defer r.mu.Unlock()
	return r.res
}

// Prop is one property's machinery.
type Prop interface {
	ID() string
	Level() string
	Race() bool // needs the -race binary
	// Plan returns the seed-determined scenario list for a tier.
	Plan(tier string, seed int64) []Scenario
	// Run executes one scenario in the child process.
	Run(sc Scenario) Result
	// Rule describes how cases are generated and what is distinct/non-trivial.
	Rule() string
	Assumptions() []string
}

// Optional interfaces.
type Parallel interface{ MaxChildren(tier string) int }
type Exhaustive interface{ Exhaustive(tier string) bool }

var registry = map[string]Prop{}

func Register(p Prop)    { registry[p.ID()] = p }
func Get(id string) Prop { return registry[id] }
func All() []string {
	var ids []string
	for k := range registry {
		ids = append(ids, k)
	}
	sort.Strings(ids)
	return ids
}

// Grace is the scheduling grace period used by logical hang verdicts.
var Grace = 8 * time.Second

// WaitCh waits for ch to be closed/receive or for the grace period.
func WaitCh(ch <-chan struct{}, d time.Duration) bool {
	d = eff(d)
	select {
	case <-ch:
		return true
	case <-time.After(d):
		return false
	}
}

// WaitProgress waits for ch while progress() keeps growing: it gives up only when a whole
// interval d passes without any growth (a stall), not when a fixed total has elapsed, so a
// long transfer on a loaded machine is not mistaken for a hang.
func WaitProgress(ch <-chan struct{}, d time.Duration, progress func() int64) bool {
	last := progress()
	for {
		if WaitCh(ch, d) {
			return true
		}
		cur := progress()
		if cur <= last {
			return false
		}
		last = cur
	}
}

// EventuallyProgress is Eventually with the same stall rule.
func EventuallyProgress(d time.Duration, progress func() int64, cond func() bool) bool {
	last := progress()
	for {
		if Eventually(d, cond) {
			return true
		}
		cur := progress()
		if cur <= last {
			return false
		}
		last = cur
	}
}

// Eventually polls cond until it is true or d expires.
func Eventually(d time.Duration, cond func() bool) bool {
	deadline := time.Now().Add(eff(d))
	for {
		if cond() {
			return true
		}
		if time.Now().After(deadline) {
			return false
		}
		time.Sleep(2 * time.Millisecond)
	}
}

func Hash(parts ...string) string {
	h := fnv.New64a()
	h.Write([]byte(strings.Join(parts, "\x00")))
	return fmt.Sprintf("%016x", h.Sum64())
}

// Perms returns all permutations of 0..n-1.
func Perms(n int) [][]int {
	var out [][]int
	a := make([]int, n)
	for i := range a {
		a[i] = i
	}
	var rec func(k int)
	rec = func(k int) {
		if k == n {
			out = append(out, append([]int(nil), a...))
			return
		}
		for i := k; i < n; i++ {
			a[k], a[i] = a[i], a[k]
			rec(k + 1)
			a[k], a[i] = a[i], a[k]
		}
	}
	rec(0)
	return out
}

func Trunc(s string, n int) string {
	if len(s) <= n {
		return s
	}
	return s[:n] + fmt.Sprintf("…(%d bytes)", len(s))
}

// SelfExe is the path of the running child binary (used to spawn host processes).
var SelfExe string

var hosts = map[string]func(args []string) int{}

// RegisterHost registers a host-process entry point (vh host <name> ...).
func RegisterHost(name string, f func(args []string) int) { hosts[name] = f }

func RunHost(args []string) int {
	if len(args) == 0 {
		return 2
	}
	f, ok := hosts[args[0]]
	if !ok {
		fmt.Println("unknown host", args[0])
		return 2
	}
	return f(args[1:])
}
