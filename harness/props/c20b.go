package props

import (
	"bytes"
	"context"
	"crypto/sha256"
	"encoding/hex"
	"fmt"
	"io"
	"net/http"
	"net/http/httptest"
	"sync"
	"time"

	jsonrpc "github.com/filecoin-project/go-jsonrpc"
	"github.com/filecoin-project/go-jsonrpc/httpio"
	"github.com/gorilla/mux"

	"vharness/core"
	"vharness/wsproxy"
)

type readerClientR struct {
	ConsumeAsync func(ctx context.Context, r io.Reader, tag string) (<-chan int64, error)
	Consume      func(ctx context.Context, r io.Reader, pattern int, tag string) (Digest, error)
	ConsumeR     func(ctx context.Context, r io.Reader, pattern int, tag string) (Digest, error) `retry:"true" rpc_method:"R.Consume"`
	Missing      func(ctx context.Context, r io.Reader, tag string) error                        `rpc_method:"R.NotThere"` // version skew: the server has no such method
}

// c20Special: reader parameters combined with other features of the client.
//   - retry-outage: a retry-tagged reader-carrying call is issued while the websocket link is down (the
//     upload endpoint stays reachable); once the link is back the handler must see exactly the caller's bytes.
//   - close-live: the handler reads a prefix and closes the reader while the caller's reader is still being
//     fed; the call must return and the upload must complete.
func c20Special(sc core.Scenario, r *core.R) {
	readerHandler, readerOpt := httpio.ReaderParamDecoder()
	rpc := jsonrpc.NewServer(readerOpt)
	rpc.Register("R", ReaderSvc{})
	m := mux.NewRouter()
	m.Handle("/rpc/v0", rpc)
	m.Handle("/rpc/streams/v0/push/{uuid}", http.HandlerFunc(readerHandler))
	ts := httptest.NewServer(m)
	defer func() {
		done := make(chan struct{})
		go func() { ts.CloseClientConnections(); ts.Close(); close(done) }()
		select {
		case <-done:
		case <-time.After(2 * time.Second):
		}
	}()
	base := ts.Listener.Addr().String()
	px := wsproxy.New(base)
	defer px.Close()
	var cl readerClientR
	closer, err := jsonrpc.NewMergeClient(context.Background(), "ws://"+px.Addr()+"/rpc/v0", "R", []interface{}{&cl}, nil,
		httpio.ReaderParamEncoder("http://"+base+"/rpc/streams/v0/push"), jsonrpc.WithReconnectBackoff(5*time.Millisecond, 20*time.Millisecond))
	if err != nil {
		r.Inconclusive("client: %v", err)
		return
	}
	defer func() {
		done := make(chan struct{})
		go func() { closer(); close(done) }()
		select {
		case <-done:
		case <-time.After(2 * time.Second):
		}
	}()
	bg := context.Background()
	rng := sc.Rand()
	check := func(what string, data []byte, d Digest, err error) {
		sum := sha256.Sum256(data)
		if err != nil {
			r.Violate("reader-call-failed", "%s: the call failed: %v", what, err)
		} else if d.N != len(data) || d.Sum != hex.EncodeToString(sum[:]) {
			r.Violate("reader-bytes-differ", "%s: handler observed %d bytes sha256 %.12s, caller sent %d bytes sha256 %.12s", what, d.N, d.Sum, len(data), hex.EncodeToString(sum[:]))
		}
	}
	warm := payload(1000, 0, rng, 1)
	d, err := cl.Consume(bg, bytes.NewReader(warm), pReadAll, "warm")
	check("warm-up", warm, d, err)
	switch sc.Kind {
	case "after-failed-calls":
		// reader-carrying calls that never reach a handler (unknown method, context already done) must not use
		// up anything later calls need
		n := sc.I("n")
		for i := 0; i < n; i++ {
			fo := Go("m", func() (string, error) {
				return "", cl.Missing(bg, bytes.NewReader(payload(3000, 0, rng, byte(i))), "m")
			})
			if !fo.Wait(core.Grace) {
				r.Violate("reader-call-hang", "reader-carrying call #%d to a method the server does not have never returned", i)
				break
			} else if fo.Err == nil {
				r.Violate("reader-call-failed", "reader-carrying call to a method the server does not have returned nil")
			}
			cctx, ccancel := context.WithCancel(bg)
			ccancel()
			co := Go("c", func() (string, error) {
				_, err := cl.Consume(cctx, bytes.NewReader(payload(3000, 1, rng, byte(i))), pReadAll, "c")
				return "", err
			})
			if !co.Wait(core.Grace) {
				r.Violate("reader-call-hang", "reader-carrying call #%d with an already cancelled context never returned", i)
				break
			}
		}
		r.Obs("reader_calls", int64(2*n))
		var wg sync.WaitGroup
		type res struct {
			data []byte
			d    Digest
			err  error
		}
		rs := make([]res, 6)
		for i := range rs {
			rs[i].data = payload(20000+i, 0, rng, byte(40+i))
		}
		for i := range rs {
			wg.Add(1)
			go func(i int) {
				defer wg.Done()
				rs[i].d, rs[i].err = cl.Consume(bg, bytes.NewReader(rs[i].data), pReadAll, fmt.Sprintf("n%d", i))
			}(i)
		}
		done := make(chan struct{})
		go func() { wg.Wait(); close(done) }()
		if !core.WaitCh(done, 2*core.Grace) {
			r.Violate("reader-call-hang", "after %d reader-carrying calls that were rejected or cancelled, ordinary reader-carrying calls on the same client never returned", 2*n)
		} else {
			for i := range rs {
				check(fmt.Sprintf("call %d after %d rejected/cancelled reader calls", i, 2*n), rs[i].data, rs[i].d, rs[i].err)
			}
		}
	case "retry-outage":
		for i := 0; i < 3; i++ {
			data := payload([]int{11, 4097, 70000}[i], 0, rng, byte(i+2))
			px.SetRefuse(true)
			px.KillAll(wsproxy.RST)
			type res struct {
				d   Digest
				err error
			}
			done := make(chan res, 1)
			go func() {
				d, err := cl.ConsumeR(bg, callerReader(sc.I("rk"), data, sc.Seed+int64(i)), pReadAll, fmt.Sprintf("r%d", i))
				done <- res{d, err}
			}()
			time.Sleep(time.Duration(100+100*i) * time.Millisecond)
			px.SetRefuse(false)
			select {
			case x := <-done:
				check(fmt.Sprintf("retry-tagged reader-carrying call issued during a websocket outage of %d ms (len %d, caller reader %s)", 100+100*i, len(data), c20ReaderKinds[sc.I("rk")]), data, x.d, x.err)
			case <-time.After(2 * core.Grace):
				r.Violate("reader-call-hang", "a retry-tagged reader-carrying call issued during a websocket outage never returned after the link was back")
				return
			}
			r.Obs("reader_calls", 1)
		}
	case "async-consumer":
		// the method returns a channel immediately and consumes the reader afterwards (ws only)
		for i, ln := range []int{0, 11, 70000, 1 << 20} {
			data := payload(ln, i%4, rng, byte(i+3))
			ch, err := cl.ConsumeAsync(bg, bytes.NewReader(data), fmt.Sprintf("a%d", i))
			if err != nil || ch == nil {
				r.Violate("reader-call-failed", "channel-returning method with a reader parameter (len %d): %v", ln, err)
				continue
			}
			var vals []int64
			fin := make(chan struct{})
			go func() {
				for v := range ch {
					vals = append(vals, v)
				}
				close(fin)
			}()
			if !core.WaitCh(fin, 2*core.Grace) {
				r.Violate("reader-call-hang", "channel-returning method consuming its reader parameter in the background (len %d) never finished", ln)
				break
			}
			sum := sha256.Sum256(data)
			var want int64
			for _, b := range sum[:7] {
				want = want<<8 | int64(b)
			}
			if len(vals) != 2 || vals[0] != int64(ln) || vals[1] != want {
				r.Violate("reader-bytes-differ", "channel-returning method consuming its reader parameter after it returned (len %d): handler reported %v (bytes, digest[, -1 = read error]), expected [%d %d]", ln, vals, ln, want)
			}
			r.Obs("reader_calls", 1)
		}
	case "two-clients":
		// a second server with its own upload endpoint and a client for it, created after the first client
		readerHandler2, readerOpt2 := httpio.ReaderParamDecoder()
		rpc2 := jsonrpc.NewServer(readerOpt2)
		rpc2.Register("R", ReaderSvc{})
		m2 := mux.NewRouter()
		m2.Handle("/rpc/v0", rpc2)
		m2.Handle("/rpc/streams/v0/push/{uuid}", http.HandlerFunc(readerHandler2))
		ts2 := httptest.NewServer(m2)
		defer func() {
			fin := make(chan struct{})
			go func() { ts2.CloseClientConnections(); ts2.Close(); close(fin) }()
			select {
			case <-fin:
			case <-time.After(2 * time.Second):
			}
		}()
		base2 := ts2.Listener.Addr().String()
		var cl2 readerClientR
		closer2, err := jsonrpc.NewMergeClient(context.Background(), "http://"+base2+"/rpc/v0", "R", []interface{}{&cl2}, nil, httpio.ReaderParamEncoder("http://"+base2+"/rpc/streams/v0/push"))
		if err != nil {
			r.Inconclusive("client 2: %v", err)
			return
		}
		defer closer2()
		for i := 0; i < 3; i++ {
			for ci, c := range []*readerClientR{&cl, &cl2} {
				data := payload(3000+i, 0, rng, byte(10*i+ci))
				type res struct {
					d   Digest
					err error
				}
				fin := make(chan res, 1)
				go func() {
					d, err := c.Consume(bg, bytes.NewReader(data), pReadAll, fmt.Sprintf("t%d-%d", i, ci))
					fin <- res{d, err}
				}()
				select {
				case x := <-fin:
					check(fmt.Sprintf("two clients with their own upload endpoints in one process, call %d on client %d", i, ci+1), data, x.d, x.err)
				case <-time.After(core.Grace):
					r.Violate("reader-call-hang", "two clients with their own upload endpoints in one process: a reader-carrying call on client %d never returned", ci+1)
					return
				}
				r.Obs("reader_calls", 1)
			}
		}
	case "close-live":
		pr, pw := io.Pipe()
		stop := make(chan struct{})
		go func() {
			blk := bytes.Repeat([]byte{0x5a}, 4096)
			for {
				select {
				case <-stop:
					pw.Close()
					return
				default:
				}
				if _, err := pw.Write(blk); err != nil {
					return
				}
				time.Sleep(200 * time.Microsecond)
			}
		}()
		type res struct {
			d   Digest
			err error
		}
		done := make(chan res, 1)
		go func() {
			d, err := cl.Consume(bg, pr, pCloseHalf, "live")
			done <- res{d, err}
		}()
		select {
		case x := <-done:
			if x.err != nil {
				r.Violate("reader-call-failed", "handler read a prefix and closed a reader that is still being fed: the call failed: %v", x.err)
			}
		case <-time.After(2 * core.Grace):
			r.Violate("reader-call-hang", "handler read a prefix and closed the reader while the caller's reader is still being fed: the call never returned")
		}
		close(stop)
		pr.Close()
		r.Obs("reader_calls", 1)
		// the connection is usable afterwards
		after := payload(5000, 3, rng, 9)
		d, err := cl.Consume(bg, bytes.NewReader(after), p4k, "after")
		check("call after an early close of a live stream", after, d, err)
	}
	r.Key(fmt.Sprintf("%s rk=%d", sc.Kind, sc.I("rk")), true)
	r.Sample(map[string]interface{}{"scenario": sc.Kind, "caller_reader": c20ReaderKinds[sc.I("rk")]})
}
