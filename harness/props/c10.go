package props

import (
	"bytes"
	"context"
	"encoding/json"
	"fmt"
	"io"
	"math/rand"
	"net/http"
	"net/http/httptest"
	"strings"
	"sync"
	"sync/atomic"
	"time"

	"github.com/gorilla/websocket"

	jsonrpc "github.com/filecoin-project/go-jsonrpc"

	"vharness/core"
	"vharness/svc"
)

// C10 – hostile peers cannot crash or wedge the process; size limit exact.

type c10 struct{}

func init() { core.Register(c10{}) }

func (c10) ID() string             { return "C10" }
func (c10) Level() string          { return "exploration" }
func (c10) Race() bool             { return false }
func (c10) MaxChildren(string) int { return 8 }
func (c10) Rule() string {
	return "attacker process -> host process. Single-frame grid (exhaustive): method in {xrpc.cancel, xrpc.ch.val, xrpc.ch.close, response, valid call, notification, unknown method} x params in {absent, null, [], [x], [x,y], {}} with x,y over 13 JSON values (numbers incl. negative/fraction/huge/2^64, string, bool, null, arrays, objects) x id over 8 JSON types; then seeded sequences of 2-6 frames (so that in-flight ids and live channels exist), binary / empty / fragmented frames and byte mutations; mirror image: a fake server sends the same alphabet to a real client in a host process (crash only); HTTP: WithMaxRequestSize(L) for L in {1,16,100,1000,4096,65536,1 MiB} with requests padded to exactly L-1, L, L+1 bytes, and mutated bodies. Distinct = canonical form of the frame / sequence / body; non-trivial = the frame reaches a built-in or handler path (parses as a JSON object). Oracle: exit status + stderr of the host, token-echo probe on the same connection after every hostile input (all inputs here are valid WebSocket messages, so the connection must stay usable) and on a fresh connection per chunk, handler counter around the size limit."
}
func (c10) Assumptions() []string {
	return []string{"unbounded frame sizes are not sent (no read limit exists)", "WebSocket-level protocol violations (which legitimately close the connection) are only followed by the other-connection probe"}
}

var c10Vals = []string{`0`, `1`, `-1`, `1.5`, `1e99`, `18446744073709551616`, `"s"`, `true`, `null`, `[]`, `[1]`, `{}`, `{"a":1}`}
var c10IDs = []string{``, `null`, `1`, `"s"`, `1.5`, `true`, `[]`, `{"a":1}`}
var c10Methods = []string{"xrpc.cancel", "xrpc.ch.val", "xrpc.ch.close", "", "S.Echo", "S.Note", "S.Nope", "S.UseHandle"}

func c10Params() []string {
	ps := []string{"", "null", "[]", "{}"}
	for _, x := range c10Vals {
		ps = append(ps, "["+x+"]")
	}
	for _, x := range c10Vals {
		for _, y := range c10Vals {
			ps = append(ps, "["+x+","+y+"]")
		}
	}
	return ps
}

func c10Frame(method, params, id string) string {
	var sb strings.Builder
	sb.WriteString(`{"jsonrpc":"2.0"`)
	if id != "" {
		sb.WriteString(`,"id":` + id)
	}
	if method != "" {
		mb, _ := json.Marshal(method)
		sb.WriteString(`,"method":` + string(mb))
		if params != "" {
			sb.WriteString(`,"params":` + params)
		}
	} else {
		// response shaped: params value doubles as result / error payload
		if params == "" {
			sb.WriteString(`,"result":null`)
		} else if len(params)%2 == 0 {
			sb.WriteString(`,"result":` + params)
		} else {
			sb.WriteString(`,"error":{"code":1,"message":"x","data":` + params + `}`)
		}
	}
	sb.WriteString("}")
	return sb.String()
}

func c10Grid() []string {
	var out []string
	for _, m := range c10Methods {
		for _, p := range c10Params() {
			for _, id := range c10IDs {
				out = append(out, c10Frame(m, p, id))
			}
		}
	}
	return out
}

const c10Chunk = 260

func (c10) Plan(tier string, seed int64) []core.Scenario {
	var out []core.Scenario
	grid := len(c10Grid())
	for off := 0; off < grid; off += c10Chunk {
		out = append(out, core.Sc("grid-server").WithN("off", off))
	}
	nseq, ncl, nhttp := 12, 10, 4
	if tier == "thorough" {
		nseq, ncl, nhttp = 300, 0, 40
		for off := 0; off < grid; off += c10Chunk {
			out = append(out, core.Sc("grid-client").WithN("off", off))
		}
	}
	for i := 0; i < nseq; i++ {
		out = append(out, core.Sc("seq-server").WithN("n", 100))
	}
	for i := 0; i < ncl; i++ {
		out = append(out, core.Sc("grid-client").WithN("off", (i*4111)%(grid-c10Chunk)))
	}
	// every built-in method x every params shape against a client that has a live channel and an in-flight call
	out = append(out, core.Sc("builtins-client").WithN("part", 0), core.Sc("builtins-client").WithN("part", 1), core.Sc("builtins-client").WithN("part", 2))
	out = append(out, core.Sc("calls-plain-client").WithN("plain", 1))
	// hostile answers to the server's own reverse calls (incl. a channel-returning one), repeated
	out = append(out, core.Sc("rev-answers"))
	out = append(out, core.Sc("limits"))
	for i := 0; i < nhttp; i++ {
		out = append(out, core.Sc("http-mut").WithN("n", 400))
	}
	for i := range out {
		out[i].Seed = seed*236887691 + int64(i)
	}
	return out
}

func (p c10) Run(sc core.Scenario) core.Result {
	r := core.NewR(sc)
	switch sc.Kind {
	case "grid-server":
		g := c10Grid()
		end := sc.I("off") + c10Chunk
		if end > len(g) {
			end = len(g)
		}
		var seqs [][]wsMsg
		for _, f := range g[sc.I("off"):end] {
			seqs = append(seqs, []wsMsg{{websocket.TextMessage, []byte(f)}})
		}
		p.attackServer(sc, r, seqs, fmt.Sprintf("grid[%d:%d]", sc.I("off"), end))
	case "seq-server":
		p.attackServer(sc, r, c10Sequences(sc.Rand(), sc.I("n")), "sequences")
	case "rev-answers":
		p.revAnswers(sc, r)
	case "grid-client":
		g := c10Grid()
		end := sc.I("off") + c10Chunk
		if end > len(g) {
			end = len(g)
		}
		p.attackClient(sc, r, g[sc.I("off"):end], fmt.Sprintf("grid[%d:%d]", sc.I("off"), end))
	case "calls-plain-client":
		// call / notification / built-in frames sent to a client that registered no reverse handler at all
		var frames []string
		for _, m := range []string{"S.Echo", "R.Ident", "X", "S.Note", "xrpc.cancel", "xrpc.ch.val", "xrpc.ch.close", ""} {
			for _, ps := range []string{"", "null", "[]", `["a"]`, `["a",""]`, "{}", "[1]", "[1,2]"} {
				for _, id := range []string{"", "1", `"s"`, "null"} {
					frames = append(frames, c10Frame(m, ps, id))
				}
			}
		}
		p.attackClient(sc, r, frames, "calls to a handler-less client")
	case "builtins-client":
		var frames []string
		m := c10Methods[sc.I("part")]
		for _, ps := range c10Params() {
			for _, id := range []string{"", "1"} {
				frames = append(frames, c10Frame(m, ps, id))
			}
		}
		p.attackClient(sc, r, frames, "builtins "+m)
	case "limits":
		p.limits(sc, r)
	case "http-mut":
		p.httpMut(sc, r)
	}
	return r.Result()
}

type wsMsg struct {
	typ  int
	data []byte
}

// c10Sequences: 2-6 frames, starting with frames that create in-flight ids / channels.
func c10Sequences(rng *rand.Rand, n int) [][]wsMsg {
	grid := c10Grid()
	var out [][]wsMsg
	for i := 0; i < n; i++ {
		var seq []wsMsg
		k := 2 + rng.Intn(5)
		if i%12 == 5 {
			// control frames are peer input too: bursts of pings (and unsolicited pongs) while the server is
			// busy writing large responses to this peer
			for j := 0; j < 6; j++ {
				seq = append(seq, wsMsg{websocket.TextMessage, []byte(fmt.Sprintf(`{"jsonrpc":"2.0","id":"big%d","method":"S.Big","params":["Tqx%d",%d]}`, j, rng.Intn(1e6), 1<<20))})
				for p := 0; p < 40; p++ {
					typ := websocket.PingMessage
					if p%8 == 7 {
						typ = websocket.PongMessage
					}
					if p%5 == 4 {
						// ... and frames the server cannot process at all
						junk := []string{`{garbage`, `{"jsonrpc":"2.0","id":{"a":1},"method":"S.Echo","params":["Tqx1",""]}`, `{"jsonrpc":"2.0","id":[1],"method":"S.Echo","params":["Tqx1",""]}`, `[1,2`, `{"jsonrpc":"2.0","id":true,"method":"S.Nope"}`}[(p/5+j)%5]
						seq = append(seq, wsMsg{websocket.TextMessage, []byte(junk)})
						continue
					}
					seq = append(seq, wsMsg{typ, []byte(fmt.Sprintf("p%d", p))})
				}
			}
			out = append(out, seq)
			continue
		}
		for j := 0; j < k; j++ {
			var f string
			switch rng.Intn(10) {
			case 0: // a held call whose id the following frames may refer to
				f = fmt.Sprintf(`{"jsonrpc":"2.0","id":%d,"method":"S.React","params":["Tqx%d",0,5]}`, 1+rng.Intn(3), rng.Intn(1e6))
			case 1: // a subscription: live channel on the server side
				f = fmt.Sprintf(`{"jsonrpc":"2.0","id":%d,"method":"S.Sub","params":["Tqx%d",3,1]}`, 1+rng.Intn(3), rng.Intn(1e6))
			case 2:
				f = fmt.Sprintf(`{"jsonrpc":"2.0","method":"xrpc.cancel","params":[%s]}`, []string{"1", "2", "3", `"1"`, "1.0", "[1]", `{"1":1}`, "null"}[rng.Intn(8)])
			case 3: // byte mutation of a grid frame
				b := []byte(grid[rng.Intn(len(grid))])
				switch rng.Intn(3) {
				case 0:
					b = b[:rng.Intn(len(b)+1)]
				case 1:
					b[rng.Intn(len(b))] ^= byte(1 << uint(rng.Intn(7)))
				case 2:
					b = append(b, b...)
				}
				f = string(b)
			case 4:
				seq = append(seq, wsMsg{websocket.BinaryMessage, []byte(grid[rng.Intn(len(grid))])})
				continue
			case 5:
				seq = append(seq, wsMsg{[]int{websocket.TextMessage, websocket.BinaryMessage}[rng.Intn(2)], []byte{}})
				continue
			case 6:
				seq = append(seq, wsMsg{websocket.BinaryMessage, []byte{0xff, 0xfe, 0x00, 0x80, '{'}})
				continue
			case 8:
				// tracing metadata of various lengths and shapes on an otherwise valid call
				sc := []string{"", "A", "AAAA", strings.Repeat("A", 40), strings.Repeat("A", 44), strings.Repeat("QUJD", 16), strings.Repeat("A", 1024), "!!!!", strings.Repeat("A", 43) + "="}[rng.Intn(9)]
				f = fmt.Sprintf(`{"jsonrpc":"2.0","id":%d,"method":%q,"params":["Tqx%d",""],"meta":{"SpanContext":%q}}`, 1+rng.Intn(3), []string{"S.Echo", "S.Nope"}[rng.Intn(2)], rng.Intn(1e6), sc)
			case 7:
				f = []string{`[]`, `[{"jsonrpc":"2.0","id":1,"method":"S.Echo","params":["Tqx1",""]}]`, `null`, `"str"`, `123`, `{"id":1}`, `{"method":5}`, `{"jsonrpc":"2.0","id":1,"method":"S.Echo","params":"notarray"}`, `{"jsonrpc":"2.0","id":1,"method":"xrpc.ch.val","params":[1,2],"meta":{"SpanContext":"%%%"}}`, `{"jsonrpc":"2.0","id":1,"method":"S.Echo","params":["a",""],"meta":{"SpanContext":"AAAA"}}`}[rng.Intn(10)]
			default:
				f = grid[rng.Intn(len(grid))]
			}
			seq = append(seq, wsMsg{websocket.TextMessage, []byte(f)})
		}
		out = append(out, seq)
	}
	return out
}

func seqString(seq []wsMsg) string {
	var parts []string
	for _, m := range seq {
		t := "T"
		if m.typ == websocket.BinaryMessage {
			t = "B"
		}
		if m.typ == websocket.PingMessage {
			t = "PING"
		}
		if m.typ == websocket.PongMessage {
			t = "PONG"
		}
		parts = append(parts, t+":"+core.Trunc(string(m.data), 160))
	}
	return strings.Join(parts, " ; ")
}

// probeSame sends a valid call on conn and waits for its answer (other frames are skipped).
func probeSame(conn *websocket.Conn, n int) error {
	id := fmt.Sprintf("probe-%d", n)
	tok := fmt.Sprintf("Tprobex%d", n)
	req := fmt.Sprintf(`{"jsonrpc":"2.0","id":%q,"method":"S.Echo","params":[%q,""]}`, id, tok)
	if err := conn.WriteMessage(websocket.TextMessage, []byte(req)); err != nil {
		return fmt.Errorf("write: %w", err)
	}
	conn.SetReadDeadline(time.Now().Add(core.Eff(core.Grace)))
	for {
		_, msg, err := conn.ReadMessage()
		if err != nil {
			return fmt.Errorf("read: %w", err)
		}
		var resp struct {
			ID     interface{} `json:"id"`
			Result string      `json:"result"`
		}
		if json.Unmarshal(msg, &resp) == nil && resp.ID == id {
			if resp.Result != svc.Reply(tok) {
				return fmt.Errorf("probe answered with %s", core.Trunc(string(msg), 120))
			}
			return nil
		}
	}
}

func probeOther(addr string, n int) error {
	var cl svc.Client
	closer, err := jsonrpc.NewMergeClient(context.Background(), "ws://"+addr, "S", []interface{}{&cl}, nil, jsonrpc.WithNoReconnect())
	if err != nil {
		return err
	}
	defer closer()
	tok := fmt.Sprintf("Tox%d", n)
	o := Go(tok, func() (string, error) { return cl.Echo(context.Background(), tok, "") })
	if !o.Wait(core.Grace) {
		return fmt.Errorf("no answer within %v", core.Grace)
	}
	if o.Err != nil || o.Val != svc.Reply(tok) {
		return fmt.Errorf("answered (%q, %v)", o.Val, o.Err)
	}
	return nil
}

func (c10) attackServer(sc core.Scenario, r *core.R, seqs [][]wsMsg, label string) {
	var host *Host
	var conn *websocket.Conn
	start := func() bool {
		var err error
		host, err = StartHost("server")
		if err != nil {
			r.Inconclusive("host: %v", err)
			return false
		}
		conn, _, err = websocket.DefaultDialer.Dial("ws://"+host.Addr, http.Header{})
		if err != nil {
			r.Inconclusive("dial: %v", err)
			return false
		}
		return true
	}
	if !start() {
		return
	}
	defer func() {
		if conn != nil {
			conn.Close()
		}
		if host != nil {
			host.Kill()
		}
	}()
	crashes, reached := 0, 0
	for i, seq := range seqs {
		for _, m := range seq {
			if err := conn.WriteMessage(m.typ, m.data); err != nil {
				break
			}
			var obj map[string]json.RawMessage
			if json.Unmarshal(m.data, &obj) == nil {
				reached++
				r.AddKey(core.Hash("srv", string(m.data)))
			}
		}
		r.Obs("hostile_inputs", 1)
		err := probeSame(conn, i)
		if err == nil {
			continue
		}
		// the same-connection probe failed: crashed host, or a wedged / wrongly closed connection
		time.Sleep(20 * time.Millisecond)
		if !host.Alive() {
			crashes++
			se := host.Stderr()
			r.Violate("host-crash:"+CrashSite(se), "server process died after hostile input [%s]; stderr: %s", seqString(seq), core.Trunc(se, 1500))
			conn.Close()
			if crashes > 25 || !start() {
				return
			}
			continue
		}
		if oerr := probeOther(host.Addr, i); oerr != nil {
			r.Violate("server-wedged", "after hostile input [%s] a valid request on a fresh connection is not answered correctly: %v", seqString(seq), oerr)
		} else {
			r.Violate("connection-wedged", "after hostile input [%s] (a valid WebSocket message) the same connection no longer answers a valid request: %v", seqString(seq), err)
		}
		conn.Close()
		var derr error
		conn, _, derr = websocket.DefaultDialer.Dial("ws://"+host.Addr, http.Header{})
		if derr != nil {
			r.Violate("server-wedged", "cannot reconnect to the host: %v", derr)
			return
		}
	}
	if host.Alive() {
		if err := probeOther(host.Addr, 999999); err != nil {
			r.Violate("server-wedged", "after %s a valid request on a fresh connection is not answered correctly: %v", label, err)
		}
		conn.Close()
		conn = nil
		clean, detail := host.Stop()
		if !clean {
			r.Violate("host-crash:"+CrashSite(host.Stderr()), "server process did not exit cleanly after %s: %s; stderr: %s", label, detail, core.Trunc(host.Stderr(), 1500))
		}
		host = nil
	}
	r.Key("server "+label+fmt.Sprint(sc.Seed%1000), reached > 0)
	r.Obs("frames_reaching_json_paths", int64(reached))
	r.Obs("host_crashes", int64(crashes))
	if len(seqs) > 0 {
		r.Sample(map[string]interface{}{"target": "server", "inputs": len(seqs), "example": seqString(seqs[len(seqs)/2]), "host_crashes": crashes})
	}
}

// revAnswers: the server makes reverse calls (plain and channel-returning) to a hostile client which
// answers them with malformed, duplicated and repeated responses. The connection must keep serving
// valid requests (these are valid WebSocket messages) and the server must survive.
func (c10) revAnswers(sc core.Scenario, r *core.R) {
	host, err := StartHost("server")
	if err != nil {
		r.Inconclusive("host: %v", err)
		return
	}
	defer host.Kill()
	results := []string{`"notanumber"`, `{}`, `[]`, `null`, `-1`, `1.5`, `true`, `18446744073709551616`, `7`}
	inputs := 0
	for _, method := range []string{"S.RevSub", "S.Rev"} {
		for _, res := range results {
			for _, copies := range []int{1, 2, 3, 5} {
				conn, _, err := websocket.DefaultDialer.Dial("ws://"+host.Addr, http.Header{})
				if err != nil {
					r.Violate("server-wedged", "cannot connect to the host: %v", err)
					return
				}
				params := `["Tqx1"]`
				if method == "S.Rev" {
					params = `["Tqx1",1,0]`
				}
				conn.WriteMessage(websocket.TextMessage, []byte(fmt.Sprintf(`{"jsonrpc":"2.0","id":"fwd","method":%q,"params":%s}`, method, params)))
				// wait for the server's reverse request and learn its id
				conn.SetReadDeadline(time.Now().Add(core.Eff(core.Grace)))
				revID := ""
				for revID == "" {
					_, msg, err := conn.ReadMessage()
					if err != nil {
						break
					}
					var f struct {
						ID     json.RawMessage `json:"id"`
						Method string          `json:"method"`
					}
					if json.Unmarshal(msg, &f) == nil && strings.HasPrefix(f.Method, "R.") {
						revID = string(f.ID)
					}
				}
				if revID == "" {
					r.Inconclusive("the server never sent its reverse request")
					conn.Close()
					return
				}
				hostile := fmt.Sprintf(`{"jsonrpc":"2.0","id":%s,"result":%s}`, revID, res)
				for c := 0; c < copies; c++ {
					conn.WriteMessage(websocket.TextMessage, []byte(hostile))
				}
				inputs++
				r.Obs("hostile_inputs", 1)
				r.AddKey(core.Hash("revans", method, res, fmt.Sprint(copies)))
				if err := probeSame(conn, inputs); err != nil {
					time.Sleep(20 * time.Millisecond)
					if !host.Alive() {
						r.Violate("host-crash:"+CrashSite(host.Stderr()), "server process died after %d copies of the answer %s to its reverse call %s; stderr: %s", copies, hostile, method, core.Trunc(host.Stderr(), 1200))
						return
					}
					r.Violate("connection-wedged", "after %d copies of the answer %s to the server's reverse call (%s) the same connection no longer answers a valid request: %v", copies, hostile, method, err)
				}
				conn.Close()
			}
		}
	}
	if err := probeOther(host.Addr, 424242); err != nil {
		r.Violate("server-wedged", "after hostile answers to reverse calls a valid request on a fresh connection is not answered: %v", err)
	}
	if clean, detail := host.Stop(); !clean {
		r.Violate("host-crash:"+CrashSite(host.Stderr()), "server process did not exit cleanly: %s; stderr: %s", detail, core.Trunc(host.Stderr(), 1200))
	}
	r.Key("rev-answers", true)
	r.Sample(map[string]interface{}{"target": "server making reverse calls", "hostile_answers": inputs})
}

// attackClient: a fake server feeds hostile frames to a real client living in a host process.
func (c10) attackClient(sc core.Scenario, r *core.R, frames []string, label string) {
	rng := sc.Rand()
	plain := sc.I("plain") == 1 // a client without any reverse handler
	up := websocket.Upgrader{CheckOrigin: func(*http.Request) bool { return true }}
	var mu sync.Mutex
	var conns []*websocket.Conn
	connected := make(chan *websocket.Conn, 8)
	ts := httptest.NewServer(http.HandlerFunc(func(w http.ResponseWriter, rq *http.Request) {
		c, err := up.Upgrade(w, rq, nil)
		if err != nil {
			return
		}
		mu.Lock()
		conns = append(conns, c)
		mu.Unlock()
		connected <- c
		select {}
	}))
	defer func() {
		mu.Lock()
		for _, c := range conns {
			c.Close()
		}
		mu.Unlock()
		go ts.Close()
	}()
	addr := ts.Listener.Addr().String()
	crashes, reached, sent := 0, 0, 0
	var host *Host
	var conn *websocket.Conn
	var wmu sync.Mutex
	var alivePongs int64
	start := func() bool {
		var err error
		if plain {
			host, err = StartHost("client", addr, "plain")
		} else {
			host, err = StartHost("client", addr)
		}
		if err != nil {
			r.Inconclusive("client host: %v", err)
			return false
		}
		select {
		case conn = <-connected:
		case <-time.After(10 * time.Second):
			r.Inconclusive("client host never connected")
			return false
		}
		// reader: answer the client's Sub with a channel id; count answers to our reverse probe
		c := conn
		go func() {
			for {
				_, msg, err := c.ReadMessage()
				if err != nil {
					return
				}
				var f struct {
					ID     interface{} `json:"id"`
					Method string      `json:"method"`
					Result string      `json:"result"`
				}
				if json.Unmarshal(msg, &f) != nil {
					continue
				}
				if f.Method == "S.Sub" {
					b, _ := json.Marshal(map[string]interface{}{"jsonrpc": "2.0", "id": f.ID, "result": 1})
					wmu.Lock()
					c.WriteMessage(websocket.TextMessage, b)
					wmu.Unlock()
				}
				if f.Method == "" && strings.HasPrefix(f.Result, "H/") {
					atomic.AddInt64(&alivePongs, 1)
				}
			}
		}()
		time.Sleep(30 * time.Millisecond)
		return true
	}
	if !start() {
		return
	}
	defer func() {
		if host != nil {
			host.Kill()
		}
	}()
	probe := func(n int) bool {
		if plain {
			time.Sleep(15 * time.Millisecond)
			return host.Alive()
		}
		before := atomic.LoadInt64(&alivePongs)
		req := fmt.Sprintf(`{"jsonrpc":"2.0","id":"rp%d","method":"R.Ident","params":["Trpx%d"]}`, n, n)
		wmu.Lock()
		conn.WriteMessage(websocket.TextMessage, []byte(req))
		wmu.Unlock()
		return core.Eventually(core.Grace, func() bool { return atomic.LoadInt64(&alivePongs) > before || !host.Alive() }) && host.Alive()
	}
	for i, f := range frames {
		data := []byte(f)
		typ := websocket.TextMessage
		switch rng.Intn(12) {
		case 0:
			typ = websocket.BinaryMessage
		case 1:
			data = data[:rng.Intn(len(data)+1)]
		}
		wmu.Lock()
		err := conn.WriteMessage(typ, data)
		wmu.Unlock()
		sent++
		var obj map[string]json.RawMessage
		if json.Unmarshal(data, &obj) == nil {
			reached++
			r.AddKey(core.Hash("cli", string(data)))
		}
		if err != nil || i%8 == 7 || i == len(frames)-1 {
			if !probe(i) {
				time.Sleep(20 * time.Millisecond)
				if !host.Alive() {
					crashes++
					se := host.Stderr()
					lo := i - 7
					if lo < 0 {
						lo = 0
					}
					r.Violate("client-crash:"+CrashSite(se), "client process died after hostile server frames (one of: %s); stderr: %s", core.Trunc(strings.Join(frames[lo:i+1], " ; "), 1200), core.Trunc(se, 1500))
					if crashes > 25 || !start() {
						return
					}
				}
				// a client is not promised to stay usable; only crashes count
			}
		}
	}
	r.Key("client "+label, reached > 0)
	r.Obs("hostile_inputs", int64(sent))
	r.Obs("frames_reaching_json_paths", int64(reached))
	r.Obs("client_host_crashes", int64(crashes))
	r.Sample(map[string]interface{}{"target": "client", "frames": sent, "example": core.Trunc(frames[len(frames)/2], 200), "host_crashes": crashes})
}

type c10Counter struct{ n int64 }

func (c *c10Counter) Hit(s string) (int, error) { atomic.AddInt64(&c.n, 1); return len(s), nil }

func (c10) limits(sc core.Scenario, r *core.R) {
	for _, L := range []int{1, 16, 100, 1000, 4096, 65536, 1 << 20} {
		cnt := &c10Counter{}
		rpc := jsonrpc.NewServer(jsonrpc.WithMaxRequestSize(int64(L)))
		rpc.Register("L", cnt)
		base := `{"jsonrpc":"2.0","id":1,"method":"L.Hit","params":[""]}`
		for _, size := range []int{L - 1, L, L + 1} {
			for variant := 0; variant < 2; variant++ {
				var body string
				if size >= len(base) {
					padN := size - len(base)
					if variant == 0 {
						body = strings.Replace(base, `[""]`, `["`+strings.Repeat("a", padN)+`"]`, 1)
					} else {
						body = base + strings.Repeat(" ", padN)
					}
				} else {
					if size < 0 {
						continue
					}
					body = strings.Repeat(" ", size)
					if size >= 2 {
						body = "{" + strings.Repeat(" ", size-2) + "}"
					}
				}
				for framing := 0; framing < 2; framing++ {
					before := atomic.LoadInt64(&cnt.n)
					rec := httptest.NewRecorder()
					req := httptest.NewRequest("POST", "/", strings.NewReader(body))
					if framing == 1 {
						// no declared length (Transfer-Encoding: chunked): the limit is about the bytes of the body
						req = httptest.NewRequest("POST", "/", struct{ io.Reader }{strings.NewReader(body)})
						req.ContentLength = -1
						req.TransferEncoding = []string{"chunked"}
					}
					rpc.ServeHTTP(rec, req)
					ran := atomic.LoadInt64(&cnt.n) - before
					reply := rec.Body.String()
					r.Obs("limit_cases", 1)
					r.AddKey(fmt.Sprintf("limit L=%d size=%d v=%d framing=%d", L, size, variant, framing))
					var resp struct {
						Result *int `json:"result"`
						Error  *struct {
							Code int `json:"code"`
						} `json:"error"`
					}
					json.Unmarshal([]byte(reply), &resp)
					if size > L {
						if ran != 0 {
							r.Violate("oversize-ran-handler", "limit %d: a body of %d bytes ran the handler", L, size)
						}
						if resp.Error == nil {
							r.Violate("oversize-not-rejected", "limit %d: a body of %d bytes was not rejected with an error: %s", L, size, core.Trunc(reply, 120))
						}
					} else if size >= len(base) {
						if ran != 1 || resp.Result == nil {
							r.Violate("within-limit-refused", "limit %d: a valid request of exactly %d bytes (<= limit) was refused or not executed (ran=%d): %s", L, size, ran, core.Trunc(reply, 160))
						}
					}
				}
			}
		}
	}
	r.Key("limits", true)
	r.Sample(map[string]interface{}{"limits": []int{1, 16, 100, 1000, 4096, 65536, 1 << 20}, "sizes": "L-1, L, L+1"})
}

// httpMut: mutated HTTP bodies against an in-process server: only panics escaping ServeHTTP count here
// (a panic in ServeHTTP would be recovered by net/http in a real server but shows a missing check).
func (c10) httpMut(sc core.Scenario, r *core.R) {
	rng := sc.Rand()
	s := svc.New()
	rpc := jsonrpc.NewServer()
	rpc.Register("S", s)
	grid := c10Grid()
	for i := 0; i < sc.I("n"); i++ {
		b := []byte(grid[rng.Intn(len(grid))])
		switch rng.Intn(6) {
		case 0:
			b = b[:rng.Intn(len(b)+1)]
		case 1:
			b[rng.Intn(len(b))] ^= byte(1 << uint(rng.Intn(7)))
		case 2:
			b = []byte("[" + string(b) + "," + grid[rng.Intn(len(grid))] + "]")
		case 3:
			b = bytes.Repeat(b, 2)
		case 4:
			b = append([]byte{0xff, 0xfe}, b...)
		}
		func() {
			defer func() {
				if p := recover(); p != nil {
					r.Violate("http-panic", "body %q made ServeHTTP panic: %v", core.Trunc(string(b), 300), p)
				}
			}()
			rec := httptest.NewRecorder()
			rpc.ServeHTTP(rec, httptest.NewRequest("POST", "/", bytes.NewReader(b)))
		}()
		r.Obs("http_bodies", 1)
		r.AddKey(core.Hash("hb", string(b)))
	}
	// the server still works
	rec := httptest.NewRecorder()
	rpc.ServeHTTP(rec, httptest.NewRequest("POST", "/", strings.NewReader(`{"jsonrpc":"2.0","id":1,"method":"S.Echo","params":["Tzx1",""]}`)))
	if !strings.Contains(rec.Body.String(), svc.Reply("Tzx1")) {
		r.Violate("server-wedged", "valid request after mutated bodies answered with %s", core.Trunc(rec.Body.String(), 160))
	}
	r.Key(fmt.Sprintf("http-mut %d", sc.Seed), true)
	r.Sample(map[string]interface{}{"target": "http", "bodies": sc.I("n")})
}
