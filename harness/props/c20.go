package props

import (
	"bytes"
	"context"
	"crypto/sha256"
	"encoding/hex"
	"fmt"
	"io"
	"math/rand"
	"net/http"
	"net/http/httptest"
	"os"
	"regexp"
	"runtime"
	"strings"
	"sync"
	"sync/atomic"
	"testing/iotest"
	"time"

	"github.com/gorilla/mux"

	jsonrpc "github.com/filecoin-project/go-jsonrpc"
	"github.com/filecoin-project/go-jsonrpc/httpio"

	"vharness/core"
)

// C20 – reader parameters stream byte-exact and honour the io.Reader contract.

type c20 struct{}

func init() { core.Register(c20{}) }

func (c20) ID() string    { return "C20" }
func (c20) Level() string { return "exploration" }
func (c20) Race() bool    { return true }
func (c20) Rule() string {
	return "payload lengths {0,1,2,511-513,4095-4097,32767-32769,65535-65537,1 MiB,4 MiB+3} x content {seeded random, zeros, 0xFF, 0..255 cycle} x handler read pattern {ReadAll, byte-at-a-time, 7-byte chunks, 4 KiB chunks, three reads past EOF, Close after EOF, Close half-way} x arrival order forced both ways (the RPC request is held until the upload handler was entered / the upload handler is held until the RPC request has arrived) x 1 / 4 / 16 concurrent calls with distinct payloads, over http and ws RPC transports. Distinct = (length class, content, pattern, order, concurrency, transport); non-trivial = length > 0 or one of the EOF-behaviour patterns. Oracle: handler-side SHA-256 and length equal the caller's; after the last byte every further read returns (0, EOF); no error (in particular no recovered panic) reaches the caller; the wrapped upload handler completes with status 200 after the RPC handler consumed the stream; no payload is seen by another call."
}
func (c20) Assumptions() []string {
	return []string{"arrival orders are forced by wrappers around the two HTTP handlers with a 2 s escape", "Close half-way: only completion of the upload request and absence of errors/panics are checked"}
}

var c20Lens = []int{0, 1, 2, 511, 512, 513, 4095, 4096, 4097, 32767, 32768, 32769, 65535, 65536, 65537, 1 << 20, 4<<20 + 3}

const (
	pReadAll = iota
	pByte
	p7
	p4k
	pPastEOF
	pCloseAfterEOF
	pCloseHalf
	pPastEOFLater
	pCount
	// outside the randomly drawn range (each costs its pause in wall-clock time)
	pSlowMid = pCount
)

var c20PatName = []string{"ReadAll", "byte-at-a-time", "7-byte chunks", "4 KiB chunks", "three reads past EOF", "Close after EOF", "Close half-way", "reads past EOF after a pause", "half, a 6 s pause, the rest"}

type Digest struct {
	Sum     string
	N       int
	PostEOF []string // results of reads after the first EOF
	Err     string
}

type ReaderSvc struct{}

func (ReaderSvc) Consume(ctx context.Context, r io.Reader, pattern int, tag string) (Digest, error) {
	h := sha256.New()
	d := Digest{}
	read := func(buf []byte) (int, error) {
		n, err := r.Read(buf)
		h.Write(buf[:n])
		d.N += n
		atomic.AddInt64(&c20Progress, int64(n))
		return n, err
	}
	var err error
	switch pattern {
	case pReadAll, pPastEOF, pCloseAfterEOF, pPastEOFLater:
		var b []byte
		b, err = io.ReadAll(r)
		h.Write(b)
		d.N = len(b)
		if err == nil {
			err = io.EOF
		}
	case pByte:
		buf := make([]byte, 1)
		for err == nil {
			_, err = read(buf)
			if d.N > 70000 { // byte-at-a-time only for a prefix of large payloads, then bulk
				var b []byte
				b, err = io.ReadAll(r)
				h.Write(b)
				d.N += len(b)
				if err == nil {
					err = io.EOF
				}
			}
		}
	case p7:
		buf := make([]byte, 7)
		for err == nil {
			_, err = read(buf)
		}
	case p4k:
		buf := make([]byte, 4096)
		for err == nil {
			_, err = read(buf)
		}
	case pSlowMid: // a slow consumer: the upload request has to stay parked for as long as the handler takes
		buf := make([]byte, 4096)
		half := -1
		for err == nil {
			_, err = read(buf)
			if half < 0 && d.N >= 4096 {
				half = d.N
				time.Sleep(6 * time.Second)
			}
		}
	case pCloseHalf:
		buf := make([]byte, 100)
		read(buf)
		if c, ok := r.(io.Closer); ok {
			c.Close()
		}
		d.Sum = "closed-half"
		return d, nil
	}
	if err != io.EOF {
		d.Err = fmt.Sprint(err)
	}
	switch pattern {
	case pPastEOF, pPastEOFLater:
		if pattern == pPastEOFLater {
			time.Sleep(30 * time.Millisecond) // the upload request has long completed by now
		}
		for i := 0; i < 3; i++ {
			n, e := r.Read(make([]byte, 16))
			d.PostEOF = append(d.PostEOF, fmt.Sprintf("%d,%v", n, e))
		}
	case pCloseAfterEOF:
		if c, ok := r.(io.Closer); ok {
			if e := c.Close(); e != nil {
				d.PostEOF = append(d.PostEOF, "close:"+e.Error())
			}
		}
		n, e := r.Read(make([]byte, 16))
		_ = n
		_ = e
	}
	d.Sum = hex.EncodeToString(h.Sum(nil))
	return d, nil
}

// ConsumeAsync returns a channel at once and reads the stream in the background; it then sends the number of
// bytes read, the first 8 bytes of their SHA-256 as an integer, -1 if the read ended with an error, and closes.
func (ReaderSvc) ConsumeAsync(ctx context.Context, r io.Reader, tag string) (<-chan int64, error) {
	out := make(chan int64, 3)
	go func() {
		defer close(out)
		time.Sleep(20 * time.Millisecond) // the method has long returned when the first byte is read
		h := sha256.New()
		n, err := io.Copy(h, r)
		out <- n
		sum := h.Sum(nil)
		var v int64
		for _, b := range sum[:7] {
			v = v<<8 | int64(b)
		}
		out <- v
		if err != nil {
			out <- -1
		}
	}()
	return out, nil
}

type readerClient struct {
	Consume func(ctx context.Context, r io.Reader, pattern int, tag string) (Digest, error)
}

func (c20) Plan(tier string, seed int64) []core.Scenario {
	rng := core.Scenario{Seed: seed}.Rand()
	var out []core.Scenario
	n := 80
	if tier == "thorough" {
		n = 2500
	}
	// every pattern x order at least once with a mid-size payload
	for pat := 0; pat < pCount; pat++ {
		for order := 0; order < 3; order++ {
			out = append(out, core.Sc("reader").WithN("len", 6+pat).WithN("content", pat%4).WithN("pat", pat).WithN("order", order).WithN("conc", 1).WithN("rk", (pat+order)%8).WithN("addr", (pat+order)%3).WithS("transport", []string{"http", "ws"}[order%2]))
		}
	}
	for i := 0; i < n; i++ {
		li := rng.Intn(len(c20Lens))
		if tier != "thorough" && li >= len(c20Lens)-2 && i%8 != 0 {
			li = rng.Intn(len(c20Lens) - 2)
		}
		out = append(out, core.Sc("reader").WithN("len", li).WithN("content", rng.Intn(4)).WithN("pat", rng.Intn(pCount)).WithN("order", rng.Intn(3)).WithN("conc", []int{1, 1, 4, 16}[rng.Intn(4)]).WithN("rk", rng.Intn(8)).WithN("addr", rng.Intn(3)).WithS("transport", []string{"http", "ws"}[rng.Intn(2)]))
	}
	ns := 2
	if tier == "thorough" {
		ns = 6
	}
	for i := 0; i < ns; i++ {
		out = append(out, core.Sc("reader").WithN("len", 13+i%3).WithN("content", i%4).WithN("pat", pSlowMid).WithN("order", i%3).WithN("conc", 1+i%2).WithN("rk", []int{0, 4, 2}[i%3]).WithS("transport", []string{"http", "ws"}[i%2]))
	}
	for i := 0; i < 2; i++ {
		out = append(out, core.Scenario{Kind: "retry-outage", N: map[string]int{"rk": []int{0, 4}[i]}, S: map[string]string{}})
	}
	out = append(out, core.Scenario{Kind: "close-live", N: map[string]int{"rk": 4}, S: map[string]string{}})
	out = append(out, core.Scenario{Kind: "after-failed-calls", N: map[string]int{"rk": 0, "n": 12}, S: map[string]string{}})
	out = append(out, core.Scenario{Kind: "async-consumer", N: map[string]int{"rk": 0}, S: map[string]string{}})
	out = append(out, core.Scenario{Kind: "two-clients", N: map[string]int{"rk": 0}, S: map[string]string{}})
	// many small calls in quick succession from several goroutines: the upload and the RPC request of a call
	// reach the server within microseconds of each other, and calls overlap
	nb := 3
	if tier == "thorough" {
		nb = 40
	}
	for i := 0; i < nb; i++ {
		out = append(out, core.Scenario{Kind: "burst", N: map[string]int{"workers": []int{8, 16, 2}[i%3], "calls": 250, "len": 3 + i%4, "content": 0, "pat": 0, "order": 0, "conc": 1}, S: map[string]string{"transport": []string{"http", "ws"}[i%2]}})
	}
	for i := range out {
		out[i].Seed = seed*314606869 + int64(i)
	}
	return out
}

func c20Burst(sc core.Scenario, r *core.R, cl *readerClient, mu *sync.Mutex, uploadDone map[string]int) {
	workers, calls := sc.I("workers"), sc.I("calls")
	var wg sync.WaitGroup
	var failed int32
	total := int32(0)
	for w := 0; w < workers; w++ {
		w := w
		wg.Add(1)
		go func() {
			defer wg.Done()
			rng := core.Scenario{Seed: sc.Seed + int64(w)}.Rand()
			for i := 0; i < calls && atomic.LoadInt32(&failed) == 0; i++ {
				data := payload(1+rng.Intn(600), 0, rng, byte(w+1))
				data = append(data, byte(w), byte(i), byte(i>>8))
				sum := sha256.Sum256(data)
				ctx, cancel := context.WithTimeout(context.Background(), core.Grace)
				d, err := cl.Consume(ctx, bytes.NewReader(data), pReadAll, "b")
				cancel()
				atomic.AddInt32(&total, 1)
				if err != nil {
					atomic.StoreInt32(&failed, 1)
					r.Violate("reader-call-hang", "burst (%d workers): call %d of worker %d failed / did not complete within %v: %v", workers, i, w, core.Grace, core.Trunc(err.Error(), 200))
					return
				}
				if d.N != len(data) || d.Sum != hex.EncodeToString(sum[:]) {
					atomic.StoreInt32(&failed, 1)
					r.Violate("reader-bytes-differ", "burst (%d workers): call %d of worker %d: handler observed %d bytes sha256 %s, caller sent %d bytes sha256 %s (bytes of a concurrent call?)", workers, i, w, d.N, d.Sum[:12], len(data), hex.EncodeToString(sum[:])[:12])
					return
				}
			}
		}()
	}
	done := make(chan struct{})
	go func() { wg.Wait(); close(done) }()
	if !core.WaitCh(done, 6*core.Grace) {
		r.Violate("reader-call-hang", "burst: workers did not finish")
	}
	r.Key(fmt.Sprintf("burst %s workers=%d", sc.Str("transport"), workers), true)
	r.Obs("reader_calls", int64(atomic.LoadInt32(&total)))
	r.Sample(map[string]interface{}{"burst": true, "workers": workers, "calls_each": calls, "transport": sc.Str("transport"), "completed": atomic.LoadInt32(&total)})
}

var c20ReaderKinds = []string{"bytes.Reader", "one byte per read (first 64 KiB)", "short random reads", "MultiReader of pieces", "io.Pipe", "strings.Reader", "*os.File positioned past a header", "io.SectionReader already read in part"}

type dribble struct {
	data []byte
	rng  *rand.Rand
}

func (d *dribble) Read(p []byte) (int, error) {
	if len(d.data) == 0 {
		return 0, io.EOF
	}
	n := 1 + d.rng.Intn(700)
	if n > len(d.data) {
		n = len(d.data)
	}
	if n > len(p) {
		n = len(p)
	}
	copy(p, d.data[:n])
	d.data = d.data[n:]
	return n, nil
}

// callerReader wraps the payload in the kind of io.Reader an application might pass.
// c20Progress counts bytes pulled from caller readers and bytes consumed by handlers; the hang
// verdict waits as long as it grows (a stall rule instead of a fixed total).
var c20Progress int64

type progressReader struct{ r io.Reader }

func (p progressReader) Read(b []byte) (int, error) {
	n, err := p.r.Read(b)
	atomic.AddInt64(&c20Progress, int64(n))
	return n, err
}

func callerReader(kind int, data []byte, seed int64) io.Reader {
	r := callerReader0(kind, data, seed)
	switch r.(type) {
	case *bytes.Reader, *strings.Reader: // net/http takes the upload's Content-Length from these: keep them as they are
		return r
	case *os.File, *io.SectionReader: // seekable readers keep their own type: what travels starts at their current position
		return r
	}
	return progressReader{r}
}

func callerReader0(kind int, data []byte, seed int64) io.Reader {
	switch kind {
	case 1:
		// one byte per read for the first 64 KiB, the rest in one piece: every byte as its
		// own chunk costs a write(2) each, megabytes of that outlast the hang verdict's wait
		k := len(data)
		if k > 1<<16 {
			k = 1 << 16
		}
		return io.MultiReader(iotest.OneByteReader(bytes.NewReader(data[:k])), bytes.NewReader(data[k:]))
	case 2:
		return &dribble{data: data, rng: rand.New(rand.NewSource(seed))}
	case 3:
		var rs []io.Reader
		for off := 0; off < len(data); {
			n := 1 + int(seed+int64(off))%997
			if off+n > len(data) {
				n = len(data) - off
			}
			rs = append(rs, bytes.NewReader(data[off:off+n]))
			off += n
		}
		return io.MultiReader(rs...)
	case 4:
		pr, pw := io.Pipe()
		go func() {
			for off := 0; off < len(data); {
				n := 300
				if off+n > len(data) {
					n = len(data) - off
				}
				pw.Write(data[off : off+n])
				off += n
			}
			pw.Close()
		}()
		return pr
	case 5:
		return strings.NewReader(string(data))
	case 6:
		// a file whose first bytes (a header the caller has consumed already) are not part of the payload
		f, err := os.CreateTemp("", "vh-c20-*")
		if err != nil {
			return bytes.NewReader(data)
		}
		os.Remove(f.Name())
		hdr := []byte("HEADER-THE-CALLER-ALREADY-READ\n")
		f.Write(hdr)
		f.Write(data)
		f.Seek(int64(len(hdr)), io.SeekStart)
		runtime.SetFinalizer(f, func(f *os.File) { f.Close() })
		return f
	case 7:
		hdr := []byte("MAGIC123")
		sr := io.NewSectionReader(bytes.NewReader(append(append([]byte{}, hdr...), data...)), 0, int64(len(hdr)+len(data)))
		io.ReadFull(sr, make([]byte, len(hdr)))
		return sr
	}
	return bytes.NewReader(data)
}

func payload(n, content int, rng *rand.Rand, salt byte) []byte {
	b := make([]byte, n)
	switch content {
	case 0:
		rng.Read(b)
	case 1: // zeros
	case 2:
		for i := range b {
			b[i] = 0xff
		}
	case 3:
		for i := range b {
			b[i] = byte(i) + salt
		}
	}
	if n > 0 && content != 1 && content != 2 {
		b[0] ^= salt
	}
	return b
}

type statusW struct {
	http.ResponseWriter
	code int
}

func (s *statusW) WriteHeader(c int) { s.code = c; s.ResponseWriter.WriteHeader(c) }

var uuidRe = regexp.MustCompile(`[0-9a-f]{8}-[0-9a-f]{4}-[0-9a-f]{4}-[0-9a-f]{4}-[0-9a-f]{12}`)

// race reports with a library frame are judged here too: "concurrent calls never see each other's bytes"
func (c20) JudgeRaces() bool { return true }

func (c20) Run(sc core.Scenario) core.Result {
	r := core.NewR(sc)
	if sc.Kind == "retry-outage" || sc.Kind == "close-live" || sc.Kind == "async-consumer" || sc.Kind == "two-clients" || sc.Kind == "after-failed-calls" {
		c20Special(sc, r)
		return r.Result()
	}
	ln := c20Lens[sc.I("len")]
	content, pat, order, conc, tr := sc.I("content"), sc.I("pat"), sc.I("order"), sc.I("conc"), sc.Str("transport")
	readerHandler, readerOpt := httpio.ReaderParamDecoder()
	rpc := jsonrpc.NewServer(readerOpt)
	rpc.Register("R", ReaderSvc{})

	var mu sync.Mutex
	uploadEntered := map[string]chan struct{}{}
	rpcSeen := map[string]chan struct{}{}
	uploadDone := map[string]int{}
	sig := func(m map[string]chan struct{}, id string) chan struct{} {
		mu.Lock()
		defer mu.Unlock()
		ch, ok := m[id]
		if !ok {
			ch = make(chan struct{})
			m[id] = ch
		}
		return ch
	}
	closeSig := func(m map[string]chan struct{}, id string) {
		ch := sig(m, id)
		mu.Lock()
		select {
		case <-ch:
		default:
			close(ch)
		}
		mu.Unlock()
	}
	m := mux.NewRouter()
	m.Handle("/rpc/v0", http.HandlerFunc(func(w http.ResponseWriter, rq *http.Request) {
		if strings.Contains(strings.ToLower(rq.Header.Get("Connection")), "upgrade") {
			rpc.ServeHTTP(w, rq) // ws: ordering is applied in the upload wrapper only
			return
		}
		body, _ := io.ReadAll(rq.Body)
		id := uuidRe.FindString(string(body))
		if id != "" {
			closeSig(rpcSeen, id)
			if order == 1 { // upload first: hold the RPC request until the upload handler was entered
				select {
				case <-sig(uploadEntered, id):
				case <-time.After(2 * time.Second):
				}
			}
		}
		rq.Body = io.NopCloser(bytes.NewReader(body))
		rpc.ServeHTTP(w, rq)
	}))
	m.Handle("/rpc/streams/v0/push/{uuid}", http.HandlerFunc(func(w http.ResponseWriter, rq *http.Request) {
		id := uuidRe.FindString(rq.URL.Path)
		if order == 2 { // RPC first: hold the upload until the RPC request has arrived (+ a moment to reach the decoder)
			select {
			case <-sig(rpcSeen, id):
				time.Sleep(3 * time.Millisecond)
			case <-time.After(300 * time.Millisecond):
			}
		}
		closeSig(uploadEntered, id)
		sw := &statusW{ResponseWriter: w, code: 200}
		readerHandler(sw, rq)
		mu.Lock()
		uploadDone[id] = sw.code
		mu.Unlock()
	}))
	ts := httptest.NewServer(m)
	defer func() {
		// stuck upload handlers would make Close block for ever: bound it
		done := make(chan struct{})
		go func() { ts.CloseClientConnections(); ts.Close(); close(done) }()
		select {
		case <-done:
		case <-time.After(2 * time.Second):
		}
	}()
	base := ts.Listener.Addr().String()
	var cl readerClient
	closer, err := jsonrpc.NewMergeClient(context.Background(), tr+"://"+base+"/rpc/v0", "R", []interface{}{&cl}, nil, httpio.ReaderParamEncoder("http://"+base+"/rpc/streams/v0/push"+[]string{"", "/", "?token=t0k"}[sc.I("addr")]))
	if err != nil {
		r.Inconclusive("client: %v", err)
		return r.Result()
	}
	defer func() {
		done := make(chan struct{})
		go func() { closer(); close(done) }()
		select {
		case <-done:
		case <-time.After(2 * time.Second):
		}
	}()
	rng := sc.Rand()
	if sc.Kind == "burst" {
		c20Burst(sc, r, &cl, &mu, uploadDone)
		return r.Result()
	}
	type res struct {
		d    Digest
		err  error
		want string
		n    int
	}
	results := make([]res, conc)
	var wg sync.WaitGroup
	for i := 0; i < conc; i++ {
		i := i
		data := payload(ln, content, rng, byte(i+1))
		sum := sha256.Sum256(data)
		results[i].want = hex.EncodeToString(sum[:])
		results[i].n = len(data)
		wg.Add(1)
		go func() {
			defer wg.Done()
			results[i].d, results[i].err = cl.Consume(context.Background(), callerReader(sc.I("rk"), data, sc.Seed+int64(i)), pat, fmt.Sprintf("c%d", i))
		}()
	}
	done := make(chan struct{})
	go func() { wg.Wait(); close(done) }()
	label := fmt.Sprintf("%s len=%d content=%d pattern=%s order=%d conc=%d caller-reader=%s push-address=%s", tr, ln, content, c20PatName[pat], order, conc, c20ReaderKinds[sc.I("rk")], []string{"plain", "trailing slash", "with query"}[sc.I("addr")])
	if !core.WaitProgress(done, 4*core.Grace, func() int64 { return atomic.LoadInt64(&c20Progress) }) {
		r.Violate("reader-call-hang", "%s: reader-carrying call(s) never returned", label)
		return r.Result()
	}
	for i, x := range results {
		if x.err != nil {
			kind := "reader-call-error"
			if strings.Contains(x.err.Error(), "panic") {
				kind = "reader-panic"
			}
			r.Violate(kind, "%s call %d: the caller got an error: %s", label, i, core.Trunc(x.err.Error(), 300))
			continue
		}
		if pat == pCloseHalf {
			continue
		}
		if x.d.Err != "" {
			r.Violate("reader-error", "%s call %d: handler's read ended with %s instead of EOF", label, i, x.d.Err)
		}
		if x.d.N != x.n || x.d.Sum != x.want {
			other := ""
			for j, y := range results {
				if j != i && y.want == x.d.Sum {
					other = fmt.Sprintf(" (these are the bytes of concurrent call %d)", j)
				}
			}
			r.Violate("reader-bytes-differ", "%s call %d: handler observed %d bytes sha256 %s, caller sent %d bytes sha256 %s%s", label, i, x.d.N, x.d.Sum[:12], x.n, x.want[:12], other)
		}
		for k, pe := range x.d.PostEOF {
			if pe != "0,EOF" {
				r.Violate("reader-eof-inconsistent", "%s call %d: read #%d after end-of-file returned (%s), expected (0, EOF)", label, i, k+1, pe)
			}
		}
	}
	// every upload request completes with 200 once the handler consumed the stream
	okUploads := core.Eventually(core.Grace, func() bool {
		mu.Lock()
		defer mu.Unlock()
		return len(uploadDone) >= conc
	})
	mu.Lock()
	if !okUploads {
		r.Violate("upload-not-completed", "%s: %d of %d upload requests completed after the handlers consumed their streams", label, len(uploadDone), conc)
	}
	for id, code := range uploadDone {
		if code != 200 {
			r.Violate("upload-status", "%s: upload %s completed with status %d", label, id[:8], code)
		}
	}
	mu.Unlock()
	lc := "0"
	switch {
	case ln > 1<<19:
		lc = "MiB"
	case ln > 4097:
		lc = "32-64K"
	case ln > 2:
		lc = "0.5-4K"
	case ln > 0:
		lc = "1-2"
	}
	if ln > 1<<19 && sc.I("rk") == 1 {
		lc += "(1B reads)"
	}
	r.Key(fmt.Sprintf("%s len=%s content=%d pat=%d order=%d conc=%d reader=%d addr=%d", tr, lc, content, pat, order, conc, sc.I("rk"), sc.I("addr")), ln > 0 || pat >= pPastEOF)
	r.Obs("reader_calls", int64(conc))
	r.Obs("bytes_streamed", int64(conc*ln))
	r.Sample(map[string]interface{}{"transport": tr, "length": ln, "content": []string{"random", "zeros", "0xFF", "cycle"}[content], "pattern": c20PatName[pat], "order": []string{"free", "upload first", "rpc first"}[order], "concurrent_calls": conc, "caller_reader": c20ReaderKinds[sc.I("rk")]})
	return r.Result()
}
