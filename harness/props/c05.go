package props

import (
	"context"
	"errors"
	"fmt"
	"strings"
	"sync"
	"sync/atomic"
	"time"

	jsonrpc "github.com/filecoin-project/go-jsonrpc"

	"vharness/core"
	"vharness/svc"
	"vharness/wsproxy"
)

// C05 – self-healing, retry-tagged calls, backoff spacing, no-reconnect.

type c05 struct{}

func init() { core.Register(c05{}) }

func (c05) ID() string             { return "C05" }
func (c05) Level() string          { return "fault_enumeration" }
func (c05) Race() bool             { return false }
func (c05) MaxChildren(string) int { return 8 }
func (c05) Rule() string {
	return "outage scripts: fault kind{FIN,RST,BLACKHOLE} x number of refused redials k in {0,1,3,10,40,150} x backoff in {(5ms,10ms),(10ms,40ms),(50ms,200ms)} x {reconnect, no-reconnect} x error mapping {on,off} x optional second fault right after the successful redial x idle-after-reconnect; retry-tagged and untagged calls are in flight and issued during the outage (client parked at the redial hook). Distinct = (kind, k, backoff, options, second fault); non-trivial = at least one redial observed (or, for no-reconnect, the loss observed). Oracles: bounded-progress recovery (probe succeeds after the proxy heals), retry-tagged calls return their own token, untagged in-flight calls surface an error (typed when mapping is on), lower bound on the spacing of consecutive redial hook events (a sleep cannot return early, so load cannot falsify it), accept-count bound, zero accepts for no-reconnect."
}
func (c05) Assumptions() []string {
	return []string{"'eventually' is checked as bounded progress: recovery within 3*(k+2)*maxBackoff + scheduling grace", "only the configured minimum spacing is asserted, not the growth curve", "method-level retry max delay (10 min) is not reachable"}
}

var c05Backoffs = [][2]time.Duration{{5 * time.Millisecond, 10 * time.Millisecond}, {10 * time.Millisecond, 40 * time.Millisecond}, {50 * time.Millisecond, 200 * time.Millisecond}}

func (c05) Plan(tier string, seed int64) []core.Scenario {
	var out []core.Scenario
	ks := []int{0, 1, 3, 10, 40, 150}
	_ = seed
	add := func(s core.Scenario) {
		s.Seed = seed*104729 + int64(len(out))
		out = append(out, s)
	}
	for ki, k := range ks {
		for fk := 0; fk < len(faultKinds); fk++ {
			for b := 0; b < 3; b++ {
				if k >= 40 && b > 0 {
					continue // long outages only with the fastest backoff
				}
				for mapping := 0; mapping < 2; mapping++ {
					for second := 0; second < 2; second++ {
						s := core.Sc("outage").WithN("k", k).WithN("fk", fk).WithN("b", b).WithN("map", mapping).WithN("second", second).WithN("t0", (ki+fk+second)%2)
						if tier == "thorough" || (ki+fk+b+mapping+second+int(seed))%4 == 0 || (k == 150 && fk == 1 && mapping == 0 && second == 0) {
							add(s)
						}
					}
				}
			}
		}
	}
	nr := 10
	if tier == "thorough" {
		nr = 60
	}
	for i := 0; i < nr; i++ {
		add(core.Sc("noreconnect").WithN("fk", i%len(faultKinds)).WithN("map", (i/3)%2).WithN("b", i%3))
	}
	nbr := 4
	if tier == "thorough" {
		nbr = 40
	}
	for i := 0; i < nbr; i++ {
		add(core.Sc("busy-reconnect").WithN("workers", 4+i%5).WithN("rounds", 4).WithN("stallus", []int{0, 500, 3000}[i%3]).WithN("b", 0))
	}
	ni := 3
	if tier == "thorough" {
		ni = 12
	}
	for i := 0; i < ni; i++ {
		add(core.Sc("idle-after-reconnect").WithN("fk", i%2).WithN("b", 0))
	}
	// the connection is reset at the instant the connection loop has accepted a request and is about to write
	// it: the write fails before the reader has reported the loss (a half-dead link)
	for i := 0; i < 2*ni; i++ {
		add(core.Sc("write-fails").WithN("occ", 2+i%4).WithN("map", i%2).WithN("b", 0))
	}
	if tier == "thorough" {
		// a redial that is accepted but whose handshake is never answered: the dialer's own handshake timeout
		// (45 s) has to end it; costs about a minute, thorough tier only
		add(core.Sc("handshake-blackhole").WithN("b", 0))
	}
	return out
}

func (p c05) Run(sc core.Scenario) core.Result {
	r := core.NewR(sc)
	switch sc.Kind {
	case "outage", "idle-after-reconnect":
		p.outage(sc, r)
	case "noreconnect":
		p.noReconnect(sc, r)
	case "busy-reconnect":
		p.busyReconnect(sc, r)
	case "write-fails":
		p.writeFails(sc, r)
	case "handshake-blackhole":
		p.handshakeBlackhole(sc, r)
	}
	return r.Result()
}

func (c05) outage(sc core.Scenario, r *core.R) {
	kind := faultKinds[sc.I("fk")]
	k := sc.I("k")
	bo := c05Backoffs[sc.I("b")]
	mapping := sc.I("map") == 1
	idle := sc.Kind == "idle-after-reconnect"
	env := NewEnv(EnvOpt{ServerOpts: []jsonrpc.ServerOption{jsonrpc.WithServerPingInterval(40 * time.Millisecond)}})
	defer env.Shutdown()
	pol := &core.Policy{Seed: sc.Seed}
	gate := core.NewGate(3 * time.Second)
	pol.Rules = append(pol.Rules, &core.Rule{Point: "ws.reconn.dial", Side: 1, Occ: 1, Do: gate.Do})
	defer pol.Install()()
	defer gate.Release()

	opts := []jsonrpc.Option{jsonrpc.WithReconnectBackoff(bo[0], bo[1])}
	if kind == wsproxy.BLACKHOLE || idle {
		opts = append(opts, jsonrpc.WithPingInterval(40*time.Millisecond), jsonrpc.WithTimeout(400*time.Millisecond))
	} else if sc.I("t0") == 1 {
		opts = append(opts, jsonrpc.WithTimeout(0)) // idle timeout disabled: losses are still noticed through FIN/RST
	}
	if mapping {
		opts = append(opts, jsonrpc.WithErrors(jsonrpc.NewErrors()))
	}
	cl, err := env.NewClient(ClientOpt{Opts: opts})
	if err != nil {
		r.Inconclusive("client: %v", err)
		return
	}
	ctx := context.Background()
	w := Tok("w")
	if v, err := cl.Echo(ctx, w, ""); err != nil || v != svc.Reply(w) {
		r.Inconclusive("warm-up: %v", err)
		return
	}
	// in-flight calls
	hu, hrT := Tok("u"), Tok("r")
	env.Svc.Hold(hu)
	env.Svc.Hold(hrT)
	cu := Go(hu, func() (string, error) { return cl.Echo(ctx, hu, "") })
	cr := Go(hrT, func() (string, error) { return cl.EchoR(ctx, hrT, "") })
	hn := Tok("r")
	env.Svc.Hold(hn)
	cn := Go(hn, func() (string, error) { return cl.NoCtxR(hn) }) // retry-tagged, no context parameter
	env.Svc.WaitEntered(hn, core.Grace)
	if !env.Svc.WaitEntered(hu, core.Grace) || !env.Svc.WaitEntered(hrT, core.Grace) {
		r.Inconclusive("held calls did not reach their handlers")
		return
	}
	acceptsBefore := env.Px.Accepts()
	env.Px.FailNext(k)
	if sc.I("second") == 1 {
		// second fault: the first data frame the server sends on the new connection is cut mid-frame
		env.Px.Arm(&wsproxy.Fault{Kind: wsproxy.RST, Dir: wsproxy.S2C, Pos: 2, Match: func(fi wsproxy.FrameInfo) bool { return fi.ConnN > acceptsBefore && fi.Opcode == 1 }})
	}
	tLoss := time.Now()
	env.Px.KillAll(kind)
	core.Log.Note("h.loss", kind)

	// calls issued inside the outage (client parked at the first redial)
	var uIn, rIn, nIn *Outcome
	if core.WaitCh(gate.Reached, core.Grace) {
		t1, t2 := Tok("u"), Tok("r")
		uIn = Go(t1, func() (string, error) { return cl.Echo(ctx, t1, "") })
		rIn = Go(t2, func() (string, error) { return cl.EchoR(ctx, t2, "") })
		t3 := Tok("n")
		nIn = Go(t3, func() (string, error) { return "", cl.NoteR(ctx, t3) }) // a notification through a retry-tagged field
		uIn.Wait(500 * time.Millisecond)
		// the untagged call that was in flight at the loss has been failed by now: the client is parked before
		// its first redial, so this does not depend on the outage ending
		if !cu.Wait(2 * time.Second) {
			r.Violate("untagged-hang", "untagged call %s, in flight when the connection was lost (%s), has not been failed although the client has already begun to redial; it should not have to wait for the outage to end", hu, kind)
		}
	} else {
		r.Inconclusive("client never started to redial within the grace period (kind %s)", kind)
		// still continue to the recovery oracle below: this is itself the violation when it persists
	}
	gate.Release()
	env.Svc.ReleaseAll()

	// ---- recovery as bounded progress
	bound := 3*time.Duration(k+2)*bo[1] + core.Grace
	deadline := time.Now().Add(bound)
	healthy := false
	probes := 0
	for time.Now().Before(deadline) {
		t := Tok("p")
		p := Go(t, func() (string, error) { return cl.Echo(ctx, t, "") })
		probes++
		if !p.Wait(bound) {
			r.Violate("probe-hang", "probe call blocked for %v during/after the outage (k=%d backoff=%v)", bound, k, bo)
			return
		}
		if p.Err == nil && p.Val == svc.Reply(t) {
			healthy = true
			break
		}
		time.Sleep(5 * time.Millisecond)
	}
	tHealthy := time.Now()
	dials := 0
	var dialT []int64
	for _, e := range core.Log.Snapshot() {
		if e.Point == "ws.reconn.dial" && e.Client {
			dials++
			dialT = append(dialT, e.T)
		}
	}
	r.Key(fmt.Sprintf("%s %s k=%d bo=%v map=%v second=%d", sc.Kind, kind, k, bo, mapping, sc.I("second")), dials > 0)
	r.Obs("redial_attempts_observed", int64(dials))
	r.Obs("proxy_accepts", int64(env.Px.Accepts()-acceptsBefore))
	r.Obs("probes", int64(probes))
	if !healthy {
		r.Violate("no-recovery", "client did not heal: after %v (bound for k=%d, backoff %v) no probe succeeded; redial attempts observed=%d, proxy accepts since loss=%d, refusals left=%d; events: %s",
			bound, k, bo, dials, env.Px.Accepts()-acceptsBefore, env.Px.FailNextLeft(), core.Log.Tail(30))
		return
	}
	// (2) retry-tagged calls ride out the outage
	for _, c := range []*Outcome{cr, rIn, cn} {
		if c == nil {
			continue
		}
		if !c.Wait(bound + 2*time.Second) {
			r.Violate("retry-hang", "retry-tagged call %s did not return after recovery", c.Tok)
		} else if c.Err != nil || c.Val != svc.Reply(c.Tok) {
			r.Violate("retry-surfaced-error", "retry-tagged call %s returned (%q, %v) instead of its genuine result", c.Tok, c.Val, c.Err)
		}
	}
	if nIn != nil {
		if !nIn.Wait(bound + 2*time.Second) {
			r.Violate("retry-hang", "a notification sent through a retry-tagged field during the outage never returned")
		}
		for _, f := range env.Px.Frames() {
			if f.Dir == wsproxy.C2S && f.Msg != nil && f.Msg.Method == "S.Note" && f.Msg.ID != "" && f.Msg.ID != "null" {
				r.Violate("notification-with-id", "a notification (notify-tagged field that is also retry-tagged) went out as a call with id %s after a failed first attempt", f.Msg.ID)
				break
			}
		}
	}
	// (3) untagged in-flight call surfaces the connection error
	if !cu.Wait(core.Grace) {
		r.Violate("untagged-hang", "untagged in-flight call %s did not return after the loss", hu)
	} else if cu.Err == nil {
		r.Violate("untagged-no-error", "untagged call %s in flight across the loss returned %q without an error", hu, cu.Val)
	} else if mapping {
		var ce *jsonrpc.RPCConnectionError
		if !errors.As(cu.Err, &ce) {
			r.Violate("untagged-not-typed", "with error mapping enabled the in-flight call's error is %T (%v), not *RPCConnectionError", cu.Err, cu.Err)
		}
	}
	if uIn != nil {
		if !uIn.Wait(core.Grace) {
			r.Violate("untagged-hang", "untagged call %s issued during the outage did not return", uIn.Tok)
		} else if uIn.Err == nil && uIn.Val != svc.Reply(uIn.Tok) {
			r.Violate("foreign-result", "untagged call %s returned %q", uIn.Tok, uIn.Val)
		} else if uIn.Err != nil && mapping {
			var ce *jsonrpc.RPCConnectionError
			if !errors.As(uIn.Err, &ce) {
				r.Violate("untagged-not-typed", "with error mapping enabled the outage call's error is %T (%v), not *RPCConnectionError", uIn.Err, uIn.Err)
			}
		}
	}
	// (4) spacing lower bound between consecutive redial attempts
	minGap := int64(1 << 62)
	for i := 1; i < len(dialT); i++ {
		if g := dialT[i] - dialT[i-1]; g < minGap {
			minGap = g
		}
	}
	tooClose := 0
	for i := 2; i < len(dialT); i++ { // the first gap contains the gate; start from the second
		if g := dialT[i] - dialT[i-1]; float64(g) < 0.9*float64(bo[0]) {
			tooClose++
		}
	}
	if tooClose > 0 {
		r.Violate("backoff-busy-loop", "%d of %d consecutive redial attempts were closer together than 0.9*minDelay=%v (smallest gap %v) with k=%d: the backoff is not throttling", tooClose, len(dialT)-1, bo[0], time.Duration(minGap), k)
	}
	outage := tHealthy.Sub(tLoss)
	maxAccepts := int(2*outage/bo[0]) + 4
	if got := env.Px.Accepts() - acceptsBefore; got > maxAccepts {
		r.Violate("backoff-busy-loop", "%d connection attempts reached the proxy in an outage of %v with minDelay %v (bound %d)", got, outage, bo[0], maxAccepts)
	}
	if len(dialT) > 1 {
		r.Obs("min_redial_gap_us", 0)
	}
	// idle after reconnect: keepalive must have been restarted, link must stay up
	if idle {
		acc := env.Px.Accepts()
		time.Sleep(1300 * time.Millisecond) // > 3x timeout
		t := Tok("i")
		v, err := cl.Echo(ctx, t, "")
		if err != nil || v != svc.Reply(t) {
			r.Violate("idle-after-reconnect", "call after idling 3x timeout on the re-established link failed: %v", err)
		}
		if env.Px.Accepts() != acc {
			r.Violate("idle-after-reconnect", "the re-established, healthy, idle link was dropped and redialled %d time(s) within 3x timeout", env.Px.Accepts()-acc)
		}
	}
	r.Sig(core.Log.Signature())
	r.Sample(map[string]interface{}{"fault": kind, "refused_redials": k, "backoff": fmt.Sprint(bo), "mapping": mapping, "second_fault": sc.I("second"), "redial_attempts": dials, "min_gap": time.Duration(minGap).String(), "outage": outage.String()})
}

// busyReconnect: several goroutines keep calling while the link is lost and re-established a few times;
// the moment just before the new connection is installed is stretched by a hook delay. After the last
// heal every call must have returned, and new calls must succeed without recreating anything.
func (c05) busyReconnect(sc core.Scenario, r *core.R) {
	env := NewEnv(EnvOpt{})
	defer env.Shutdown()
	pol := &core.Policy{Seed: sc.Seed}
	if us := sc.I("stallus"); us > 0 {
		pol.Rules = append(pol.Rules, &core.Rule{Point: "ws.reconn.swap.before", Side: 1, Do: func(jsonrpc.VerifEvent) { time.Sleep(time.Duration(us) * time.Microsecond) }})
	}
	defer pol.Install()()
	cl, err := env.NewClient(ClientOpt{Opts: []jsonrpc.Option{jsonrpc.WithReconnectBackoff(5*time.Millisecond, 10*time.Millisecond)}})
	if err != nil {
		r.Inconclusive("client: %v", err)
		return
	}
	ctx := context.Background()
	var mu sync.Mutex
	var outs []*Outcome
	stop := make(chan struct{})
	var wg sync.WaitGroup
	for w := 0; w < sc.I("workers"); w++ {
		wg.Add(1)
		go func() {
			defer wg.Done()
			for {
				select {
				case <-stop:
					return
				default:
				}
				t := Tok("x")
				o := Go(t, func() (string, error) { return cl.Echo(ctx, t, "") })
				mu.Lock()
				outs = append(outs, o)
				mu.Unlock()
				o.Wait(200 * time.Millisecond)
			}
		}()
	}
	for i := 0; i < sc.I("rounds"); i++ {
		time.Sleep(25 * time.Millisecond)
		env.Px.KillAll([]string{wsproxy.RST, wsproxy.FIN}[i%2])
	}
	time.Sleep(60 * time.Millisecond)
	close(stop)
	wg.Wait()
	if !probeUntilHealthy(cl, r, 2*core.Grace) {
		r.Violate("no-recovery", "client did not heal after %d losses with callers active", sc.I("rounds"))
		return
	}
	mu.Lock()
	all := append([]*Outcome(nil), outs...)
	mu.Unlock()
	failed := 0
	for _, o := range all {
		if !o.Wait(core.Grace) {
			r.Violate("untagged-hang", "call %s issued while the client was reconnecting is still blocked although the link has been healthy again for %v and newer calls succeed; events: %s", o.Tok, core.Grace, core.Log.Tail(30))
			break
		}
		if o.Err != nil {
			failed++
		} else if o.Val != svc.Reply(o.Tok) {
			r.Violate("foreign-result", "call %s returned %q", o.Tok, o.Val)
		}
	}
	dials := core.Log.Count("ws.reconn.dial")
	r.Key(fmt.Sprintf("busy-reconnect w=%d stall=%dus", sc.I("workers"), sc.I("stallus")), dials > 0)
	r.Obs("redial_attempts_observed", int64(dials))
	r.Obs("probes", int64(len(all)))
	r.Sig(core.Log.Signature())
	r.Sample(map[string]interface{}{"scenario": "callers active across several reconnects", "workers": sc.I("workers"), "losses": sc.I("rounds"), "swap_delay_us": sc.I("stallus"), "calls": len(all), "failed_by_losses": failed})
}

func (c05) noReconnect(sc core.Scenario, r *core.R) {
	kind := faultKinds[sc.I("fk")]
	mapping := sc.I("map") == 1
	env := NewEnv(EnvOpt{ServerOpts: []jsonrpc.ServerOption{jsonrpc.WithServerPingInterval(40 * time.Millisecond)}})
	defer env.Shutdown()
	pol := &core.Policy{Seed: sc.Seed}
	defer pol.Install()()
	opts := []jsonrpc.Option{jsonrpc.WithNoReconnect(), jsonrpc.WithPingInterval(40 * time.Millisecond), jsonrpc.WithTimeout(400 * time.Millisecond)}
	switch sc.I("b") { // the no-reconnect option combined with a back-off option, in either order
	case 1:
		opts = append(opts, jsonrpc.WithReconnectBackoff(5*time.Millisecond, 20*time.Millisecond))
	case 2:
		opts = append([]jsonrpc.Option{jsonrpc.WithReconnectBackoff(5*time.Millisecond, 20*time.Millisecond)}, opts...)
	}
	if mapping {
		opts = append(opts, jsonrpc.WithErrors(jsonrpc.NewErrors()))
	}
	cl, err := env.NewClient(ClientOpt{Opts: opts})
	if err != nil {
		r.Inconclusive("client: %v", err)
		return
	}
	ctx := context.Background()
	h := Tok("u")
	env.Svc.Hold(h)
	ch := Go(h, func() (string, error) { return cl.Echo(ctx, h, "") })
	env.Svc.WaitEntered(h, core.Grace)
	acc := env.Px.Accepts()
	env.Px.KillAll(kind)
	lossSeen := ch.Wait(core.Grace)
	if !lossSeen {
		r.Violate("noreconnect-hang", "in-flight call on a no-reconnect client did not return after %s", kind)
	} else if ch.Err == nil {
		r.Violate("untagged-no-error", "in-flight call returned %q without error after the loss", ch.Val)
	}
	env.Svc.ReleaseAll()
	for i := 0; i < 5; i++ {
		t := Tok("l")
		o := Go(t, func() (string, error) { return cl.Echo(ctx, t, "") })
		if !o.Wait(core.Grace) {
			r.Violate("noreconnect-hang", "call %d after the loss blocked on a no-reconnect client", i)
			break
		}
		if o.Err == nil {
			r.Violate("noreconnect-served", "call after the loss succeeded on a no-reconnect client (%q)", o.Val)
		}
	}
	time.Sleep(150 * time.Millisecond)
	if d := core.Log.Count("ws.reconn.dial"); d > 0 || env.Px.Accepts() != acc {
		r.Violate("noreconnect-redial", "no-reconnect client redialled: dial hook fired %d times, proxy accepts +%d", d, env.Px.Accepts()-acc)
	}
	r.Key(fmt.Sprintf("noreconnect %s map=%v backoffopt=%d", kind, mapping, sc.I("b")), lossSeen)
	r.Obs("noreconnect_losses", 1)
	r.Sample(map[string]interface{}{"no_reconnect": true, "fault": kind, "accepts_after_loss": env.Px.Accepts() - acc})
}

// writeFails: RST placed at ws.req.registered (client side: the request has passed the "connection known to
// be dead?" check and is about to be written): the request about to be written meets a socket
// that has just been reset, while the reader has not yet told the connection loop. A retry-tagged call hit
// this way must still ride out the (short) outage; an untagged one must fail with the connection error.
func (c05) writeFails(sc core.Scenario, r *core.R) {
	mapping := sc.I("map") == 1
	env := NewEnv(EnvOpt{})
	defer env.Shutdown()
	pol := &core.Policy{Seed: sc.Seed}
	var once sync.Once
	firedCh := make(chan struct{})
	armed := int32(0)
	var once2 sync.Once
	pol.Rules = append(pol.Rules, &core.Rule{Point: "ws.req.registered", Side: 1, Do: func(jsonrpc.VerifEvent) {
		switch atomic.LoadInt32(&armed) {
		case 1:
			once.Do(func() {
				env.Px.KillAll(wsproxy.RST)
				time.Sleep(3 * time.Millisecond) // the reset reaches the client's socket; the loop then writes
				close(firedCh)
			})
		case 2:
			once2.Do(func() {
				env.Px.KillAll(wsproxy.RST)
				time.Sleep(3 * time.Millisecond)
			})
		}
	}})
	defer pol.Install()()
	opts := []jsonrpc.Option{jsonrpc.WithReconnectBackoff(5*time.Millisecond, 20*time.Millisecond)}
	if mapping {
		opts = append(opts, jsonrpc.WithErrors(jsonrpc.NewErrors()))
	}
	cl, err := env.NewClient(ClientOpt{Opts: opts})
	if err != nil {
		r.Inconclusive("client: %v", err)
		return
	}
	bg := context.Background()
	for i := 0; i < sc.I("occ"); i++ {
		t := Tok("w")
		if v, err := cl.Echo(bg, t, ""); err != nil || v != svc.Reply(t) {
			r.Inconclusive("warm-up: %v", err)
			return
		}
	}
	// (a) a retry-tagged call is the one whose write fails
	atomic.StoreInt32(&armed, 1)
	tr := Tok("r")
	o := Go(tr, func() (string, error) { return cl.EchoR(bg, tr, "") })
	if !o.Wait(2 * core.Grace) {
		r.Violate("retry-hang", "a retry-tagged call whose request write met a freshly reset socket never returned")
		return
	}
	formed := false
	select {
	case <-firedCh:
		formed = true
	default:
	}
	if o.Err != nil || o.Val != svc.Reply(tr) {
		r.Violate("retry-surfaced-error", "a retry-tagged call whose request write met a freshly reset socket (reader had not reported the loss yet) returned (%q, %v) instead of riding out the outage", o.Val, o.Err)
	}
	if !probeUntilHealthy(cl, r, 2*core.Grace) {
		r.Violate("no-recovery", "client did not heal after a failed request write")
		return
	}
	// (b) the same for an untagged call: it must fail, with the connection error
	atomic.StoreInt32(&armed, 2)
	tu := Tok("u")
	ou := Go(tu, func() (string, error) { return cl.Echo(bg, tu, "") })
	if !ou.Wait(2 * core.Grace) {
		r.Violate("untagged-hang", "an untagged call whose request write met a freshly reset socket never returned")
	} else if ou.Err == nil {
		if ou.Val != svc.Reply(tu) {
			r.Violate("foreign-result", "untagged call returned %q", ou.Val)
		}
	} else {
		msg := ou.Err.Error()
		var ce *jsonrpc.RPCConnectionError
		if mapping && !errors.As(ou.Err, &ce) {
			r.Violate("untagged-not-typed", "with error mapping enabled, the error of a call whose request write failed is %T (%v), not *RPCConnectionError", ou.Err, ou.Err)
		} else if !mapping && strings.Contains(msg, "id didn't match") {
			r.Violate("untagged-wrong-error", "a call whose request write failed reports %q instead of the connection error", msg)
		}
	}
	r.Key(fmt.Sprintf("write-fails occ=%d map=%v formed=%v", sc.I("occ"), mapping, formed), formed)
	r.Obs("write_fail_windows", b2i(formed))
	r.Sig(core.Log.Signature())
	r.Sample(map[string]interface{}{"scenario": "request write meets a freshly reset socket", "error_mapping": mapping, "formed": formed, "untagged_error": errStr(ou.Err)})
}

// handshakeBlackhole: the link is lost; the first redial is accepted but its upgrade request is never
// answered. The client must get out of that dial by itself and heal once a later dial is answered; a
// retry-tagged call issued meanwhile must return with its result.
func (c05) handshakeBlackhole(sc core.Scenario, r *core.R) {
	env := NewEnv(EnvOpt{})
	defer env.Shutdown()
	cl, err := env.NewClient(ClientOpt{Opts: []jsonrpc.Option{jsonrpc.WithReconnectBackoff(5*time.Millisecond, 20*time.Millisecond)}})
	if err != nil {
		r.Inconclusive("client: %v", err)
		return
	}
	bg := context.Background()
	w := Tok("w")
	if v, err := cl.Echo(bg, w, ""); err != nil || v != svc.Reply(w) {
		r.Inconclusive("warm-up: %v", err)
		return
	}
	env.Px.SwallowNext(1)
	env.Px.KillAll(wsproxy.RST)
	time.Sleep(200 * time.Millisecond)
	tr := Tok("r")
	o := Go(tr, func() (string, error) { return cl.EchoR(bg, tr, "") })
	start := time.Now()
	bound := 75 * time.Second // the stock dialer gives a handshake 45 s
	healthy := false
	for time.Since(start) < bound && !healthy {
		t := Tok("p")
		p := Go(t, func() (string, error) { return cl.Echo(bg, t, "") })
		if p.Wait(5*time.Second) && p.Err == nil && p.Val == svc.Reply(t) {
			healthy = true
		} else {
			time.Sleep(500 * time.Millisecond)
		}
	}
	took := time.Since(start)
	if !healthy {
		r.Violate("no-recovery", "the first redial was accepted but its handshake never answered; %v later the client still has not healed although new dials would be answered", took.Round(time.Second))
	}
	// the method retry loop backs off geometrically (x1.5 from 100 ms): after an outage of T its next attempt is
	// due at most about T/2 later
	if !o.Wait(took/2 + 8*time.Second) {
		r.Violate("retry-hang", "a retry-tagged call issued while the redial hung in an unanswered handshake has not returned %v after the link was healthy again (outage %v)", (took/2 + 8*time.Second).Round(time.Second), took.Round(time.Second))
	} else if o.Err != nil || o.Val != svc.Reply(tr) {
		r.Violate("retry-surfaced-error", "retry-tagged call returned (%q, %v)", o.Val, o.Err)
	}
	r.Key("handshake-blackhole", true)
	r.Obs("healed_after_s", int64(took/time.Second))
	r.Sample(map[string]interface{}{"scenario": "redial accepted, upgrade never answered", "healed": healthy, "after": took.Round(time.Second).String()})
}
