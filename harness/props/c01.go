package props

import (
	"bytes"
	"context"
	"encoding/json"
	"fmt"
	"io"
	"math"
	"math/rand"
	"net/http"
	"net/http/httptest"
	"reflect"
	"sort"
	"strconv"
	"strings"
	"sync"
	"time"

	jsonrpc "github.com/filecoin-project/go-jsonrpc"

	"vharness/core"
)

// C01 – transparent calls: args in, results out, on every transport.

type c01 struct{}

func init() { core.Register(c01{}) }

func (c01) ID() string    { return "C01" }
func (c01) Level() string { return "exploration" }
func (c01) Race() bool    { return false }
func (c01) Rule() string {
	return "a catalogue of ~45 method signatures (0-6 positional params, with/without leading context, returning nothing / value / error / both, RawParams with and without context, a custom param encoder/decoder pair) over all int/uint widths, floats, bool, string, []byte, pointers, nil-vs-empty slices and maps, map[string]*S, nested/embedded structs, struct tags (omitempty, rename, '-', ',string'), json.RawMessage, interface{}, time.Time, arrays, custom (Un)MarshalJSON, named types; values from a seeded type-directed generator with boundary pools (MinInt64, MaxUint64, -0, 1e308, 5e-324, empty and 64 KiB strings, <>&, U+2028, control characters, astral runes, nil at every nil-able position); every case over http, ws and custom transports under the 4 built-in formatters and a custom one; handler return value and error are generated too. Distinct = (method, argument/result shape = kind tree with nil/empty/boundary flags, transport, formatter); non-trivial = at least one argument or a non-void result. Oracle independent of library code: RT(x)=json.Unmarshal(json.Marshal(x)) into the declared type (harness's own dec(enc(x)) for the custom pair); handler args must equal RT(arg) in canonical JSON bytes and dynamic type, caller's value must equal RT(handler value) or be the zero value with a non-nil error; the handler logs which method ran and how often."
}
func (c01) Assumptions() []string {
	return []string{"the catalogue is finite: signatures outside it (7+ params) are not exercised", "invalid UTF-8 and NaN/Inf are outside the property (not encoding/json-serialisable)"}
}

// ---- catalogue types ---------------------------------------------------------

type S struct {
	A int
	B string
	C []byte
	D *S `json:"d,omitempty"`
}
type N struct {
	S   S
	P   *S
	L   []S
	M   map[string]int
	Any interface{}
}
type Emb struct {
	S
	X float64
	N *N
}
type Tg struct {
	Renamed  int     `json:"r"`
	Omit     string  `json:"o,omitempty"`
	Skip     int     `json:"-"`
	AsString int64   `json:"n,string"`
	OmitPtr  *int    `json:"p,omitempty"`
	F        float32 `json:"f"`
	U        uint64
}
type CJ struct{ X int }

func (c CJ) MarshalJSON() ([]byte, error) { return json.Marshal("cj:" + strconv.Itoa(c.X)) }
func (c *CJ) UnmarshalJSON(b []byte) error {
	var s string
	if err := json.Unmarshal(b, &s); err != nil {
		return err
	}
	x, err := strconv.Atoi(strings.TrimPrefix(s, "cj:"))
	c.X = x
	return err
}

// Tri gives JSON null a meaning of its own (absent / explicit null / value), as optional-field types do.
type Tri struct {
	St int8 // 0 absent, 1 explicit null, 2 value
	V  int
}

func (t Tri) MarshalJSON() ([]byte, error) {
	switch t.St {
	case 1:
		return []byte("null"), nil
	case 2:
		return json.Marshal(t.V)
	}
	return []byte(`"absent"`), nil
}
func (t *Tri) UnmarshalJSON(b []byte) error {
	switch strings.TrimSpace(string(b)) {
	case "null":
		*t = Tri{St: 1}
	case `"absent"`:
		*t = Tri{}
	default:
		var v int
		if err := json.Unmarshal(b, &v); err != nil {
			return err
		}
		*t = Tri{St: 2, V: v}
	}
	return nil
}

type MyInt int
type MyStr string
type Enc struct {
	A int
	B string
}

func encEnc(e Enc) string { return strconv.Itoa(e.A) + "|" + e.B }
func decEnc(s string) (Enc, error) {
	i := strings.IndexByte(s, '|')
	if i < 0 {
		return Enc{}, fmt.Errorf("bad enc %q", s)
	}
	a, err := strconv.Atoi(s[:i])
	return Enc{A: a, B: s[i+1:]}, err
}

// ---- the instrumented handler object ------------------------------------------

type catRec struct {
	method string
	args   []string // canonical JSON of each received arg
	types  []string // dynamic Go type of each received arg
}
type catNext struct {
	val reflect.Value
	err error
}
type Cat struct {
	mu   sync.Mutex
	recs []catRec
	next map[string]catNext
}

func (c *Cat) in(m string, args ...interface{}) {
	r := catRec{method: m}
	for _, a := range args {
		b, err := json.Marshal(a)
		if err != nil {
			b = []byte("MARSHAL-ERROR:" + err.Error())
		}
		if raw, ok := a.(json.RawMessage); ok && raw == nil {
			b = []byte("<nil RawMessage>") // the round trip of any JSON text, null included, is that text
		}
		r.args = append(r.args, string(b))
		r.types = append(r.types, fmt.Sprintf("%T", a))
	}
	c.mu.Lock()
	c.recs = append(c.recs, r)
	c.mu.Unlock()
}
func catOut[T any](c *Cat, m string) (T, error) {
	c.mu.Lock()
	n := c.next[m]
	c.mu.Unlock()
	var out T
	if n.val.IsValid() {
		reflect.ValueOf(&out).Elem().Set(n.val)
	}
	return out, n.err
}
func (c *Cat) take() []catRec {
	c.mu.Lock()
	defer c.mu.Unlock()
	r := c.recs
	c.recs = nil
	return r
}

func (c *Cat) P0()                                   { c.in("P0") }
func (c *Cat) P0E() error                            { c.in("P0E"); _, e := catOut[int](c, "P0E"); return e }
func (c *Cat) P0V() int                              { c.in("P0V"); v, _ := catOut[int](c, "P0V"); return v }
func (c *Cat) P0VE() (string, error)                 { c.in("P0VE"); return catOut[string](c, "P0VE") }
func (c *Cat) C0(ctx context.Context)                { c.in("C0") }
func (c *Cat) C0E(ctx context.Context) error         { c.in("C0E"); _, e := catOut[int](c, "C0E"); return e }
func (c *Cat) C0VE(ctx context.Context) (int, error) { c.in("C0VE"); return catOut[int](c, "C0VE") }
func (c *Cat) Ints(ctx context.Context, a int8, b int16, d int32, e int64, f int) (int64, error) {
	c.in("Ints", a, b, d, e, f)
	return catOut[int64](c, "Ints")
}
func (c *Cat) Uints(a uint8, b uint16, d uint32, e uint64, f uint) (uint64, error) {
	c.in("Uints", a, b, d, e, f)
	return catOut[uint64](c, "Uints")
}
func (c *Cat) Floats(a float32, b float64, d bool) (float64, error) {
	c.in("Floats", a, b, d)
	return catOut[float64](c, "Floats")
}
func (c *Cat) Strs(ctx context.Context, a string, b []byte, d MyStr, e MyInt) (string, error) {
	c.in("Strs", a, b, d, e)
	return catOut[string](c, "Strs")
}
func (c *Cat) Ptrs(a *S, b *int, d *string, e []int, f []string) (*S, error) {
	c.in("Ptrs", a, b, d, e, f)
	return catOut[*S](c, "Ptrs")
}
func (c *Cat) Maps(ctx context.Context, a map[string]int, b map[string]*S, d map[string][]string) (map[string]*S, error) {
	c.in("Maps", a, b, d)
	return catOut[map[string]*S](c, "Maps")
}
func (c *Cat) Structs(a S, b N, d Emb, e Tg) (N, error) {
	c.in("Structs", a, b, d, e)
	return catOut[N](c, "Structs")
}
func (c *Cat) Dyn(ctx context.Context, a json.RawMessage, b interface{}, d []interface{}, e map[string]interface{}) (interface{}, error) {
	c.in("Dyn", a, b, d, e)
	return catOut[interface{}](c, "Dyn")
}
func (c *Cat) Misc(a time.Time, b [3]int, d CJ, e *CJ, f []CJ, g [2]string) (time.Time, error) {
	c.in("Misc", a, b, d, e, f, g)
	return catOut[time.Time](c, "Misc")
}
func (c *Cat) Tris(ctx context.Context, a Tri, b *Tri, d []Tri, e json.RawMessage) (Tri, error) {
	c.in("Tris", a, b, d, e)
	return catOut[Tri](c, "Tris")
}
func (c *Cat) Six(a int, b string, d bool, e float64, f []string, g *int) (string, error) {
	c.in("Six", a, b, d, e, f, g)
	return catOut[string](c, "Six")
}
func (c *Cat) OneAny(a interface{}) (interface{}, error) {
	c.in("OneAny", a)
	return catOut[interface{}](c, "OneAny")
}
func (c *Cat) Raw(ctx context.Context, p jsonrpc.RawParams) (string, error) {
	c.in("Raw", json.RawMessage(p))
	return catOut[string](c, "Raw")
}
func (c *Cat) RawNoCtx(p jsonrpc.RawParams) (int, error) {
	c.in("RawNoCtx", json.RawMessage(p))
	return catOut[int](c, "RawNoCtx")
}
func (c *Cat) WithEnc(ctx context.Context, e Enc, x int) (string, error) {
	c.in("WithEnc", e, x)
	return catOut[string](c, "WithEnc")
}
func (c *Cat) RU64() (uint64, error)         { c.in("RU64"); return catOut[uint64](c, "RU64") }
func (c *Cat) RF64() (float64, error)        { c.in("RF64"); return catOut[float64](c, "RF64") }
func (c *Cat) RF32() (float32, error)        { c.in("RF32"); return catOut[float32](c, "RF32") }
func (c *Cat) RBytes() ([]byte, error)       { c.in("RBytes"); return catOut[[]byte](c, "RBytes") }
func (c *Cat) RSlice() ([]int, error)        { c.in("RSlice"); return catOut[[]int](c, "RSlice") }
func (c *Cat) RMap() (map[string]int, error) { c.in("RMap"); return catOut[map[string]int](c, "RMap") }
func (c *Cat) REmb() (Emb, error)            { c.in("REmb"); return catOut[Emb](c, "REmb") }
func (c *Cat) RTg() (Tg, error)              { c.in("RTg"); return catOut[Tg](c, "RTg") }
func (c *Cat) RTgP() (*Tg, error)            { c.in("RTgP"); return catOut[*Tg](c, "RTgP") }
func (c *Cat) RRaw() (json.RawMessage, error) {
	c.in("RRaw")
	return catOut[json.RawMessage](c, "RRaw")
}
func (c *Cat) RArr() ([3]int, error)         { c.in("RArr"); return catOut[[3]int](c, "RArr") }
func (c *Cat) RCJ() (CJ, error)              { c.in("RCJ"); return catOut[CJ](c, "RCJ") }
func (c *Cat) RCJs() ([]*CJ, error)          { c.in("RCJs"); return catOut[[]*CJ](c, "RCJs") }
func (c *Cat) RBool() (bool, error)          { c.in("RBool"); return catOut[bool](c, "RBool") }
func (c *Cat) RMyInt() (MyInt, error)        { c.in("RMyInt"); return catOut[MyInt](c, "RMyInt") }
func (c *Cat) RAnyS() ([]interface{}, error) { c.in("RAnyS"); return catOut[[]interface{}](c, "RAnyS") }
func (c *Cat) RValOnly() string              { c.in("RValOnly"); v, _ := catOut[string](c, "RValOnly"); return v }
func (c *Cat) RStrP(ctx context.Context) (*string, error) {
	c.in("RStrP")
	return catOut[*string](c, "RStrP")
}
func (c *Cat) RI8(a int8) (int8, error) { c.in("RI8", a); return catOut[int8](c, "RI8") }

// Status is a plain value type that happens to have an Error method (an exit-code or errno style enum);
// RStatus returns it as its only result - a value, not the error output.
type Status int

func (s Status) Error() string { return fmt.Sprintf("status %d", int(s)) }

func (c *Cat) RStatus() Status { c.in("RStatus"); v, _ := catOut[Status](c, "RStatus"); return v }
func (c *Cat) RStatusE(a Status) (Status, error) {
	c.in("RStatusE", a)
	return catOut[Status](c, "RStatusE")
}

// ---- generator ----------------------------------------------------------------

var strPool = []string{"", "a", "<>&", "  ", "\x00\x01\x1f", "\"quoted\\\"", "héllo wörld", "😀\U0001F9D1‍\U0001F680", "line\nbreak\ttab", "'", "null", "123", " lead", strings.Repeat("k", 65536), "�", "/\\/"}
var f64Pool = []float64{0, math.Copysign(0, -1), 1, -1, 0.1, 1e308, -1e308, 5e-324, math.MaxFloat64, math.SmallestNonzeroFloat64, 1e21, 1e-7, 123456789.123456789, float64(1 << 53), float64(1<<53) + 2}
var i64Pool = []int64{0, 1, -1, math.MinInt64, math.MaxInt64, 1 << 53, 1<<53 + 1, -(1 << 53) - 1, 127, 128, -128, -129, 255, 256, 32767, 32768, 65535, 65536, 2147483647, 2147483648, -2147483648, -2147483649, 4294967295, 4294967296}
var rawPool = []string{`null`, `1`, `-0`, `1e3`, `"s"`, `true`, `[]`, `{}`, `{"a":[1,2,{"b":null}],"c":" "}`, `[1, 2 ,3]`, `{"k" : 1.5}`, `18446744073709551615`, `"<>&"`, `0.1`, `[[[]]]`}

type genr struct {
	rng   *rand.Rand
	shape strings.Builder
}

func (g *genr) flag(s string) { g.shape.WriteString(s) }

func (g *genr) str() string {
	if g.rng.Intn(3) == 0 {
		s := strPool[g.rng.Intn(len(strPool))]
		switch {
		case s == "":
			g.flag("s0")
		case len(s) > 1000:
			g.flag("sL")
		default:
			g.flag("sB")
		}
		return s
	}
	g.flag("s")
	n := g.rng.Intn(12)
	rs := make([]rune, n)
	for i := range rs {
		switch g.rng.Intn(6) {
		case 0:
			rs[i] = rune(0x20 + g.rng.Intn(0x5f))
		case 1:
			rs[i] = rune(g.rng.Intn(0x20))
		case 2:
			rs[i] = rune(0xa0 + g.rng.Intn(0x2000))
		case 3:
			rs[i] = rune(0x10000 + g.rng.Intn(0xffff))
		case 4:
			rs[i] = []rune("<>&\"'\\/")[g.rng.Intn(7)]
		default:
			rs[i] = rune('a' + g.rng.Intn(26))
		}
		if rs[i] >= 0xd800 && rs[i] <= 0xdfff {
			rs[i] = 'x'
		}
	}
	return string(rs)
}

func (g *genr) anyVal(depth int) interface{} {
	switch g.rng.Intn(9) {
	case 0:
		g.flag("an")
		return nil
	case 1:
		g.flag("ab")
		return g.rng.Intn(2) == 0
	case 2:
		g.flag("af")
		return f64Pool[g.rng.Intn(len(f64Pool))]
	case 3:
		g.flag("as")
		return g.str()
	case 4:
		g.flag("ai")
		return int(i64Pool[g.rng.Intn(len(i64Pool))])
	case 5:
		g.flag("au")
		return uint64(math.MaxUint64 - uint64(g.rng.Intn(2)))
	case 6:
		if depth > 2 {
			return "deep"
		}
		g.flag("al")
		n := g.rng.Intn(3)
		l := make([]interface{}, n)
		for i := range l {
			l[i] = g.anyVal(depth + 1)
		}
		return l
	case 7:
		if depth > 2 {
			return 1.5
		}
		g.flag("am")
		m := map[string]interface{}{}
		for i := g.rng.Intn(3); i > 0; i-- {
			m[g.str()] = g.anyVal(depth + 1)
		}
		return m
	default:
		g.flag("aS")
		return S{A: g.rng.Intn(5), B: g.str()}
	}
}

var (
	tRaw  = reflect.TypeOf(json.RawMessage{})
	tTime = reflect.TypeOf(time.Time{})
	tCJ   = reflect.TypeOf(CJ{})
	tTri  = reflect.TypeOf(Tri{})
	tAny  = reflect.TypeOf((*interface{})(nil)).Elem()
)

func (g *genr) gen(t reflect.Type, depth int) reflect.Value {
	v := reflect.New(t).Elem()
	switch t {
	case tRaw:
		g.flag("R")
		if g.rng.Intn(8) == 0 {
			g.flag("0")
			return v // nil RawMessage -> null
		}
		v.SetBytes([]byte(rawPool[g.rng.Intn(len(rawPool))]))
		return v
	case tTime:
		g.flag("T")
		zones := []*time.Location{time.UTC, time.FixedZone("", 3600*5+1800), time.FixedZone("", -3600*8)}
		tm := time.Unix(g.rng.Int63n(4e9)-1e9, g.rng.Int63n(1e9)).In(zones[g.rng.Intn(3)])
		if g.rng.Intn(6) == 0 {
			tm = time.Time{}
			g.flag("0")
		}
		v.Set(reflect.ValueOf(tm))
		return v
	case tTri:
		st := g.rng.Intn(3)
		g.flag("Tri" + strconv.Itoa(st))
		t := Tri{St: int8(st)}
		if st == 2 {
			t.V = g.rng.Intn(1000) - 500
		}
		v.Set(reflect.ValueOf(t))
		return v
	case tCJ:
		g.flag("C")
		v.Set(reflect.ValueOf(CJ{X: int(i64Pool[g.rng.Intn(12)])}))
		return v
	case tAny:
		g.flag("A")
		a := g.anyVal(depth)
		if a != nil {
			v.Set(reflect.ValueOf(a))
		}
		return v
	}
	switch t.Kind() {
	case reflect.Bool:
		g.flag("b")
		v.SetBool(g.rng.Intn(2) == 0)
	case reflect.Int, reflect.Int8, reflect.Int16, reflect.Int32, reflect.Int64:
		x := i64Pool[g.rng.Intn(len(i64Pool))]
		if g.rng.Intn(3) == 0 {
			x = g.rng.Int63() - g.rng.Int63()
		}
		bits := t.Bits()
		if bits < 64 {
			lim := int64(1) << (bits - 1)
			if x >= lim || x < -lim {
				if g.rng.Intn(2) == 0 {
					x = lim - 1
				} else {
					x = -lim
				}
				g.flag("!")
			}
		} else if x == math.MinInt64 || x == math.MaxInt64 {
			g.flag("!")
		}
		g.flag("i" + strconv.Itoa(bits))
		v.SetInt(x)
	case reflect.Uint, reflect.Uint8, reflect.Uint16, reflect.Uint32, reflect.Uint64:
		x := uint64(i64Pool[g.rng.Intn(len(i64Pool))])
		switch g.rng.Intn(4) {
		case 0:
			x = math.MaxUint64
			g.flag("!")
		case 1:
			x = g.rng.Uint64()
		}
		bits := t.Bits()
		if bits < 64 {
			x &= (1 << bits) - 1
		}
		g.flag("u" + strconv.Itoa(bits))
		v.SetUint(x)
	case reflect.Float32:
		f := []float32{0, float32(math.Copysign(0, -1)), 1.5, -3.25, math.MaxFloat32, math.SmallestNonzeroFloat32, 1e-10, 16777217, 0.1}[g.rng.Intn(9)]
		g.flag("f32")
		v.SetFloat(float64(f))
	case reflect.Float64:
		f := f64Pool[g.rng.Intn(len(f64Pool))]
		if g.rng.Intn(3) == 0 {
			f = (g.rng.Float64() - 0.5) * math.Pow(10, float64(g.rng.Intn(40)-20))
		}
		if f == 0 && math.Signbit(f) {
			g.flag("-0")
		}
		g.flag("f64")
		v.SetFloat(f)
	case reflect.String:
		v.SetString(g.str())
	case reflect.Ptr:
		if g.rng.Intn(3) == 0 || depth > 3 {
			g.flag("p0")
			return v
		}
		g.flag("p(")
		p := reflect.New(t.Elem())
		p.Elem().Set(g.gen(t.Elem(), depth+1))
		g.flag(")")
		v.Set(p)
	case reflect.Slice:
		switch g.rng.Intn(4) {
		case 0:
			g.flag("l0")
			return v // nil
		case 1:
			g.flag("le")
			v.Set(reflect.MakeSlice(t, 0, 0))
			return v
		}
		n := 1 + g.rng.Intn(3)
		if t.Elem().Kind() == reflect.Uint8 && g.rng.Intn(3) == 0 {
			n = []int{1, 2, 3, 255, 4097}[g.rng.Intn(5)]
		}
		if depth > 3 {
			n = 0
		}
		g.flag("l(")
		s := reflect.MakeSlice(t, n, n)
		for i := 0; i < n; i++ {
			if t.Elem().Kind() == reflect.Uint8 {
				s.Index(i).SetUint(uint64(g.rng.Intn(256)))
			} else {
				s.Index(i).Set(g.gen(t.Elem(), depth+1))
			}
		}
		g.flag(")")
		v.Set(s)
	case reflect.Array:
		g.flag("r(")
		for i := 0; i < t.Len(); i++ {
			v.Index(i).Set(g.gen(t.Elem(), depth+1))
		}
		g.flag(")")
	case reflect.Map:
		switch g.rng.Intn(4) {
		case 0:
			g.flag("m0")
			return v
		case 1:
			g.flag("me")
			v.Set(reflect.MakeMap(t))
			return v
		}
		g.flag("m(")
		m := reflect.MakeMap(t)
		n := 1 + g.rng.Intn(3)
		if depth > 3 {
			n = 0
		}
		for i := 0; i < n; i++ {
			m.SetMapIndex(reflect.ValueOf(g.str()).Convert(t.Key()), g.gen(t.Elem(), depth+1))
		}
		g.flag(")")
		v.Set(m)
	case reflect.Struct:
		g.flag("{")
		for i := 0; i < t.NumField(); i++ {
			if t.Field(i).PkgPath != "" {
				continue
			}
			v.Field(i).Set(g.gen(t.Field(i).Type, depth+1))
		}
		g.flag("}")
	}
	return v
}

// rt is the reference round trip: json.Unmarshal(json.Marshal(x)) into a fresh value of type t.
func rt(x reflect.Value, t reflect.Type) (reflect.Value, error) {
	var iface interface{}
	if x.IsValid() {
		iface = x.Interface()
	}
	b, err := json.Marshal(iface)
	if err != nil {
		return reflect.Value{}, err
	}
	out := reflect.New(t)
	if err := json.Unmarshal(b, out.Interface()); err != nil {
		return reflect.Value{}, err
	}
	return out.Elem(), nil
}

func canon(v reflect.Value) string {
	var iface interface{}
	if v.IsValid() {
		iface = v.Interface()
	}
	b, err := json.Marshal(iface)
	if err != nil {
		return "MARSHAL-ERROR:" + err.Error()
	}
	return string(b)
}

// semEq: semantic JSON equality (used where the property allows re-spelling: RawMessage / interface{} content).
func semEq(a, b string) bool {
	if a == b {
		return true
	}
	var x, y interface{}
	da := json.NewDecoder(strings.NewReader(a))
	da.UseNumber()
	db := json.NewDecoder(strings.NewReader(b))
	db.UseNumber()
	if da.Decode(&x) != nil || db.Decode(&y) != nil {
		return false
	}
	bx, _ := json.Marshal(x)
	by, _ := json.Marshal(y)
	return bytes.Equal(bx, by)
}

func lowerFirst(m string) string {
	if m == "" {
		return m
	}
	return strings.ToLower(m[:1]) + m[1:]
}

// f is what is handed to the library; ref is the harness's own statement of what that formatter means
// (the reference tables are built with ref, never by calling the library's formatter).
var c01Formatters = []struct {
	name string
	f    jsonrpc.MethodNameFormatter
	ref  func(ns, m string) string
}{
	{"ns+orig", jsonrpc.NewMethodNameFormatter(true, jsonrpc.OriginalCase), func(ns, m string) string { return ns + "." + m }},
	{"ns+lower", jsonrpc.NewMethodNameFormatter(true, jsonrpc.LowerFirstCharCase), func(ns, m string) string { return ns + "." + lowerFirst(m) }},
	{"orig", jsonrpc.NewMethodNameFormatter(false, jsonrpc.OriginalCase), func(ns, m string) string { return m }},
	{"lower", jsonrpc.NewMethodNameFormatter(false, jsonrpc.LowerFirstCharCase), func(ns, m string) string { return lowerFirst(m) }},
	{"custom_sep", func(ns, m string) string { return ns + "_" + strings.ToUpper(m[:1]) + m[1:] }, func(ns, m string) string { return ns + "_" + strings.ToUpper(m[:1]) + m[1:] }},
}

func (c01) Plan(tier string, seed int64) []core.Scenario {
	n, per := 300, 100
	if tier == "thorough" {
		n, per = 6000, 100
	}
	var out []core.Scenario
	for i := 0; i < n; i++ {
		out = append(out, core.Scenario{Kind: "calls", Seed: seed*179424673 + int64(i), S: map[string]string{"transport": []string{"http", "ws", "custom"}[i%3]}, N: map[string]int{"fmt": (i / 3) % 5, "calls": per, "i": i, "redir": []int{0, 0, 307, 0, 308, 0, 0}[(i/3)%7]}})
	}
	return out
}

// catClient builds the client proxy struct type from Cat's method set at run time.
func catClientType() (reflect.Type, []reflect.Method) {
	ct := reflect.TypeOf(&Cat{})
	var fields []reflect.StructField
	var ms []reflect.Method
	for i := 0; i < ct.NumMethod(); i++ {
		m := ct.Method(i)
		var in, out []reflect.Type
		for j := 1; j < m.Type.NumIn(); j++ {
			in = append(in, m.Type.In(j))
		}
		for j := 0; j < m.Type.NumOut(); j++ {
			out = append(out, m.Type.Out(j))
		}
		fields = append(fields, reflect.StructField{Name: m.Name, Type: reflect.FuncOf(in, out, false)})
		ms = append(ms, m)
	}
	return reflect.StructOf(fields), ms
}

var ctxT = reflect.TypeOf((*context.Context)(nil)).Elem()
var errT = reflect.TypeOf((*error)(nil)).Elem()
var rawParamsT = reflect.TypeOf(jsonrpc.RawParams{})
var encT = reflect.TypeOf(Enc{})

func (c01) Run(sc core.Scenario) core.Result {
	r := core.NewR(sc)
	tr := sc.Str("transport")
	fm := c01Formatters[sc.I("fmt")]
	cat := &Cat{next: map[string]catNext{}}
	env := NewEnv(EnvOpt{NoProxy: true, NoSvc: true, ServerOpts: []jsonrpc.ServerOption{
		jsonrpc.WithServerMethodNameFormatter(fm.f),
		jsonrpc.WithParamDecoder(new(Enc), func(ctx context.Context, b []byte) (reflect.Value, error) {
			var s string
			if err := json.Unmarshal(b, &s); err != nil {
				return reflect.Value{}, err
			}
			e, err := decEnc(s)
			return reflect.ValueOf(e), err
		}),
	}})
	defer env.Shutdown()
	env.RPC.Register("Cat", cat)
	// an alias spelled exactly like a registered method (pointing elsewhere) must never win over it
	env.RPC.AliasMethod(fm.f("Cat", "Ints"), fm.f("Cat", "Uints"))
	env.RPC.AliasMethod(fm.f("Cat", "P0VE"), fm.f("Cat", "Nope"))
	ctype, methods := catClientType()
	cli := reflect.New(ctype)
	copts := []jsonrpc.Option{jsonrpc.WithMethodNameFormatter(fm.f), jsonrpc.WithParamEncoder(new(Enc), func(v reflect.Value) (reflect.Value, error) {
		return reflect.ValueOf(encEnc(v.Interface().(Enc))), nil
	})}
	var closer jsonrpc.ClientCloser
	var err error
	if tr == "custom" {
		closer, err = jsonrpc.NewCustomClient("Cat", []interface{}{cli.Interface()}, func(ctx context.Context, body []byte) (io.ReadCloser, error) {
			var buf bytes.Buffer
			env.RPC.HandleRequest(ctx, bytes.NewReader(body), &buf)
			return io.NopCloser(&buf), nil
		}, copts...)
	} else {
		addr := env.Addr(tr)
		if code := sc.I("redir"); code != 0 && tr == "http" {
			// the endpoint the client is given answers with a method-preserving redirect to the real one
			// (path migration, reverse proxy): a configuration of the HTTP transport like any other
			target := addr
			rd := httptest.NewServer(http.HandlerFunc(func(w http.ResponseWriter, q *http.Request) {
				http.Redirect(w, q, target+q.URL.Path, code)
			}))
			defer rd.Close()
			addr = rd.URL
			tr = fmt.Sprintf("http(%d redirect)", code)
		}
		closer, err = jsonrpc.NewMergeClient(context.Background(), addr, "Cat", []interface{}{cli.Interface()}, nil, copts...)
	}
	if err != nil {
		r.Inconclusive("client: %v", err)
		return r.Result()
	}
	defer closer()
	// a second pair in the same process WITHOUT the custom encoder/decoder: Enc travels as plain JSON there;
	// configuration of one client/server must not leak into another
	cat2 := &Cat{next: map[string]catNext{}}
	env2 := NewEnv(EnvOpt{NoProxy: true, NoSvc: true, ServerOpts: []jsonrpc.ServerOption{jsonrpc.WithServerMethodNameFormatter(fm.f)}})
	defer env2.Shutdown()
	env2.RPC.Register("Cat", cat2)
	cli2 := reflect.New(ctype)
	var closer2 jsonrpc.ClientCloser
	if tr == "custom" {
		closer2, err = jsonrpc.NewCustomClient("Cat", []interface{}{cli2.Interface()}, customDo(env2.RPC), jsonrpc.WithMethodNameFormatter(fm.f))
	} else {
		closer2, err = jsonrpc.NewMergeClient(context.Background(), env2.Addr(sc.Str("transport")), "Cat", []interface{}{cli2.Interface()}, nil, jsonrpc.WithMethodNameFormatter(fm.f))
	}
	if err != nil {
		r.Inconclusive("client: %v", err)
		return r.Result()
	}
	defer closer2()
	rng := sc.Rand()
	var lastSample interface{}
	for i := 0; i < sc.I("calls"); i++ {
		mi := rng.Intn(len(methods))
		m := methods[mi]
		usePlain := i%4 == 3
		cat, cli := cat, cli
		if usePlain {
			cat, cli = cat2, cli2
		}
		g := &genr{rng: rng}
		ft := ctype.Field(mi).Type
		var args []reflect.Value
		var expArgs, expTypes []string
		for j := 0; j < ft.NumIn(); j++ {
			pt := ft.In(j)
			if pt == ctxT {
				args = append(args, reflect.ValueOf(context.Background()))
				continue
			}
			if pt == rawParamsT {
				raw := rawPool[rng.Intn(len(rawPool))]
				if rng.Intn(2) == 0 {
					raw = `[` + raw + `, "x"]`
				}
				g.flag("RP")
				args = append(args, reflect.ValueOf(jsonrpc.RawParams(raw)))
				expArgs = append(expArgs, raw)
				expTypes = append(expTypes, "json.RawMessage")
				continue
			}
			v := g.gen(pt, 0)
			args = append(args, v)
			if pt == encT && !usePlain {
				e, derr := decEnc(encEnc(v.Interface().(Enc)))
				if derr != nil {
					r.Inconclusive("harness codec failed: %v", derr)
					return r.Result()
				}
				expArgs = append(expArgs, canon(reflect.ValueOf(e)))
				expTypes = append(expTypes, "props.Enc")
				continue
			}
			ev, rerr := rt(v, pt)
			if rerr != nil {
				r.Inconclusive("generator produced a non-round-trippable %s: %v", pt, rerr)
				return r.Result()
			}
			expArgs = append(expArgs, canon(ev))
			expTypes = append(expTypes, fmt.Sprintf("%T", ifaceOf(ev)))
		}
		// scripted handler outcome
		var resT reflect.Type
		hasErr := false
		for j := 0; j < ft.NumOut(); j++ {
			if ft.Out(j) == errT {
				hasErr = true
			} else {
				resT = ft.Out(j)
			}
		}
		nx := catNext{}
		g.flag("->")
		if resT != nil {
			nx.val = g.gen(resT, 0)
		}
		failing := hasErr && rng.Intn(5) == 0
		if failing {
			nx.err = fmt.Errorf("scripted failure %d", i)
			g.flag("E")
		}
		cat.mu.Lock()
		cat.next[m.Name] = nx
		cat.mu.Unlock()
		cat.take()

		// now and then a second, different, parameterless method is in flight at the same time
		var side chan []reflect.Value
		if i%5 == 2 && !usePlain && m.Name != "RValOnly" {
			side = make(chan []reflect.Value, 1)
			for sj := range methods {
				if methods[sj].Name == "RValOnly" && m.Name != "RValOnly" {
					fld := cli.Elem().Field(sj)
					cat.mu.Lock()
					cat.next["RValOnly"] = catNext{val: reflect.ValueOf("side-value")}
					cat.mu.Unlock()
					go func() { side <- fld.Call(nil) }()
				}
			}
		}
		mainDone := make(chan []reflect.Value, 1)
		go func() { mainDone <- cli.Elem().Field(mi).Call(args) }()
		var outs []reflect.Value
		select {
		case outs = <-mainDone:
		case <-time.After(core.Grace):
			r.Violate("call-hang:"+m.Name, "%s/%s %s: the call did not return within %v on a healthy link (another method in flight: %v)", tr, fm.name, m.Name, core.Grace, side != nil)
			return r.Result()
		}
		if side != nil && m.Name != "RValOnly" {
			select {
			case so := <-side:
				if so[0].String() != "side-value" {
					r.Violate("result-mismatch:RValOnly", "%s/%s: RValOnly in flight next to %s returned %q, expected \"side-value\"", tr, fm.name, m.Name, so[0].String())
				}
			case <-time.After(core.Grace):
				r.Violate("call-hang:RValOnly", "%s/%s: RValOnly in flight next to %s did not return within %v", tr, fm.name, m.Name, core.Grace)
				return r.Result()
			}
		}

		recs := cat.take()
		if side != nil {
			var kept []catRec
			for _, x := range recs {
				if x.method != "RValOnly" {
					kept = append(kept, x)
				}
			}
			recs = kept
		}
		label := fmt.Sprintf("%s/%s %s(%s)", tr, fm.name, m.Name, core.Trunc(strings.Join(expArgs, ", "), 300))
		if usePlain {
			label = "[plain pair, no custom codec] " + label
		}
		if len(recs) != 1 || recs[0].method != m.Name {
			var ran []string
			for _, x := range recs {
				ran = append(ran, x.method)
			}
			r.Violate("handler-not-run-once:"+m.Name, "%s: expected exactly the handler %s to run once, ran %v; caller got %s", label, m.Name, ran, describe(outs))
			continue
		}
		rec := recs[0]
		for j := range expArgs {
			if j >= len(rec.args) {
				break
			}
			pt := expTypes[j]
			same := rec.args[j] == expArgs[j]
			if !same && (pt == "json.RawMessage" || strings.Contains(label, "Dyn(") || strings.Contains(label, "OneAny(")) {
				same = semEq(rec.args[j], expArgs[j])
			}
			if !same {
				r.Violate("arg-mismatch:"+m.Name, "%s: handler received arg %d = %s, expected the JSON round trip %s", label, j, core.Trunc(rec.args[j], 300), core.Trunc(expArgs[j], 300))
			} else if rec.types[j] != expTypes[j] && expTypes[j] != "json.RawMessage" {
				r.Violate("arg-type-mismatch:"+m.Name, "%s: handler received arg %d with dynamic type %s, expected %s", label, j, rec.types[j], expTypes[j])
			}
		}
		// caller's view
		var gotVal reflect.Value
		var gotErr error
		for j := 0; j < ft.NumOut(); j++ {
			if ft.Out(j) == errT {
				if !outs[j].IsNil() {
					gotErr = outs[j].Interface().(error)
				}
			} else {
				gotVal = outs[j]
			}
		}
		if failing {
			if gotErr == nil {
				r.Violate("error-lost:"+m.Name, "%s: handler failed but the caller's error is nil", label)
			}
			if resT != nil && !gotVal.IsZero() {
				r.Violate("nonzero-with-error:"+m.Name, "%s: handler failed but the caller's value is %s, not the zero value", label, core.Trunc(canon(gotVal), 200))
			}
		} else {
			if gotErr != nil {
				r.Violate("unexpected-error:"+m.Name, "%s: handler succeeded (returning %s) but the caller got error %v", label, core.Trunc(canon(nx.val), 200), gotErr)
			} else if resT != nil {
				ev, rerr := rt(nx.val, resT)
				if rerr != nil {
					r.Inconclusive("result not round-trippable: %v", rerr)
					return r.Result()
				}
				exp, gotS := canon(ev), canon(gotVal)
				same := exp == gotS
				if !same && (resT == tRaw || resT == tAny || resT.Kind() == reflect.Slice && resT.Elem() == tAny) {
					same = semEq(exp, gotS)
				}
				if !same {
					r.Violate("result-mismatch:"+m.Name, "%s: caller received %s, expected the JSON round trip %s of what the handler returned", label, core.Trunc(gotS, 300), core.Trunc(exp, 300))
				}
			}
		}
		nontrivial := len(expArgs) > 0 || resT != nil
		if nontrivial {
			r.AddKey(core.Hash(tr, fm.name, m.Name, g.shape.String()))
		}
		r.Obs("calls", 1)
		if i == 0 || (len(expArgs) > 1 && lastSample == nil) {
			lastSample = map[string]interface{}{"transport": tr, "formatter": fm.name, "method": m.Name, "args_as_json": trimAll(expArgs, 120), "handler_returns": core.Trunc(canon(nx.val), 120), "handler_fails": failing, "shape": core.Trunc(g.shape.String(), 120)}
		}
	}
	r.Key(fmt.Sprintf("%s %s #%d", tr, fm.name, sc.I("i")), true)
	r.Sample(lastSample)
	return r.Result()
}

func ifaceOf(v reflect.Value) interface{} {
	if !v.IsValid() {
		return nil
	}
	return v.Interface()
}
func trimAll(ss []string, n int) []string {
	out := make([]string, len(ss))
	for i, s := range ss {
		out[i] = core.Trunc(s, n)
	}
	return out
}
func describe(outs []reflect.Value) string {
	var p []string
	for _, o := range outs {
		p = append(p, core.Trunc(fmt.Sprintf("%v", ifaceOf(o)), 200))
	}
	sort.Strings(p)
	return strings.Join(p, " | ")
}
