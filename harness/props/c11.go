package props

import (
	"context"
	"encoding/json"
	"errors"
	"fmt"
	"reflect"
	"strings"
	"sync"

	jsonrpc "github.com/filecoin-project/go-jsonrpc"

	"vharness/core"
)

// C11 – handler errors arrive intact; registered error types round-trip by code.

type c11 struct{}

func init() { core.Register(c11{}) }

func (c11) ID() string    { return "C11" }
func (c11) Level() string { return "exploration" }
func (c11) Race() bool    { return false }
func (c11) Rule() string {
	return "error values {nil, errors.New, fmt.Errorf, wrapped (%w), registered plain value type, registered plain pointer type, marshalable in pointer and in value registration form, three codec types (string data, struct data, failing FromJSONRPCError)} x messages from a valid-UTF-8 pool (empty, escaping-heavy, control characters, astral runes, 64 KiB) x registration tables {same on both sides, client only, server only, disjoint codes, same code/different type on the client, client type whose UnmarshalJSON fails} x method shapes {error, (value,error) with a non-zero value alongside the error} x {ws, http, custom}. Distinct = (error kind, table, shape, transport, message class); non-trivial = handler error non-nil. Oracle from the statement: nil<->nil; non-nil -> non-nil and zero value; no common registration -> *JSONRPCError with Message == err.Error() and the server's code; common registration -> exactly the registered type and equal JSON-marshalled content (marshalable) or codec fields; failed conversion -> non-nil generic error; never a panic."
}
func (c11) Assumptions() []string {
	return []string{"content equality is demanded only for types that carry content by contract (custom JSON (un)marshalling in either registration form, codec types); plain struct errors need only the right type and code", "same code but a different client type: any non-nil error is accepted"}
}

// ---- error types ---------------------------------------------------------------

type EVal struct{ Msg string }

func (e EVal) Error() string { return "eval:" + e.Msg }

type EPtr struct{ Msg string }

func (e *EPtr) Error() string { return "eptr:" + e.Msg }

type MPtr struct {
	A int
	B string
}

func (e *MPtr) Error() string { return fmt.Sprintf("mptr:%d:%s", e.A, e.B) }
func (e *MPtr) MarshalJSON() ([]byte, error) {
	return json.Marshal(map[string]interface{}{"a": e.A, "b": e.B})
}
func (e *MPtr) UnmarshalJSON(b []byte) error {
	var m struct {
		A int    `json:"a"`
		B string `json:"b"`
	}
	if err := json.Unmarshal(b, &m); err != nil {
		return err
	}
	e.A, e.B = m.A, m.B
	return nil
}

type MVal struct {
	A int
	B string
}

func (e MVal) Error() string { return fmt.Sprintf("mval:%d:%s", e.A, e.B) }

// zero fields are omitted on the wire and only the fields present are assigned when decoding (what plain
// struct decoding with omitempty does): a decode target that is not fresh keeps stale fields
func (e MVal) MarshalJSON() ([]byte, error) {
	m := map[string]interface{}{}
	if e.A != 0 {
		m["a"] = e.A
	}
	if e.B != "" {
		m["b"] = e.B
	}
	return json.Marshal(m)
}
func (e *MVal) UnmarshalJSON(b []byte) error {
	var m struct {
		A *int    `json:"a"`
		B *string `json:"b"`
	}
	if err := json.Unmarshal(b, &m); err != nil {
		return err
	}
	if m.A != nil {
		e.A = *m.A
	}
	if m.B != nil {
		e.B = *m.B
	}
	return nil
}

// MBad: the client-side stand-in whose UnmarshalJSON always fails.
type MBad struct{ A int }

func (e *MBad) Error() string                { return "mbad" }
func (e *MBad) MarshalJSON() ([]byte, error) { return []byte(`{"a":1}`), nil }
func (e *MBad) UnmarshalJSON([]byte) error   { return errors.New("cannot decode") }

type CodecS struct {
	Msg  string
	Data string
}

func (e *CodecS) Error() string { return "codecs:" + e.Msg + ":" + e.Data }
func (e *CodecS) ToJSONRPCError() (jsonrpc.JSONRPCError, error) {
	return jsonrpc.JSONRPCError{Code: 3001, Message: e.Msg, Data: e.Data}, nil
}
func (e *CodecS) FromJSONRPCError(j jsonrpc.JSONRPCError) error {
	e.Msg = j.Message
	d, ok := j.Data.(string)
	if !ok {
		return fmt.Errorf("data is %T", j.Data)
	}
	e.Data = d
	return nil
}

type CodecD struct {
	Msg string
	N   int
	L   []string
}

func (e *CodecD) Error() string { return fmt.Sprintf("codecd:%s:%d:%v", e.Msg, e.N, e.L) }
func (e *CodecD) ToJSONRPCError() (jsonrpc.JSONRPCError, error) {
	return jsonrpc.JSONRPCError{Code: 3002, Message: e.Msg, Data: map[string]interface{}{"n": e.N, "l": e.L}}, nil
}
func (e *CodecD) FromJSONRPCError(j jsonrpc.JSONRPCError) error {
	e.Msg = j.Message
	b, err := json.Marshal(j.Data)
	if err != nil {
		return err
	}
	var d struct {
		N int      `json:"n"`
		L []string `json:"l"`
	}
	if err := json.Unmarshal(b, &d); err != nil {
		return err
	}
	e.N, e.L = d.N, d.L
	return nil
}

// CodecF: conversion on the client always fails.
type CodecF struct{ Msg string }

func (e *CodecF) Error() string { return "codecf:" + e.Msg }
func (e *CodecF) ToJSONRPCError() (jsonrpc.JSONRPCError, error) {
	return jsonrpc.JSONRPCError{Code: 3003, Message: e.Msg}, nil
}
func (e *CodecF) FromJSONRPCError(jsonrpc.JSONRPCError) error { return errors.New("nope") }

const (
	kNil = iota
	kNew
	kErrorf
	kWrapped
	kEVal
	kEPtr
	kMPtr
	kMVal
	kCodecS
	kCodecD
	kCodecF
	kCodecT
	kNilOK
	kCodec0
	kCodecM
	kCodecR
	kCount
)

// CodecM is a codec-style error that can also render itself as JSON (for logs, say): its codec form
// is what travels, whatever other interfaces the type implements.
type CodecM struct {
	Msg string
	N   int
}

func (e *CodecM) Error() string { return fmt.Sprintf("codecm:%s:%d", e.Msg, e.N) }
func (e *CodecM) ToJSONRPCError() (jsonrpc.JSONRPCError, error) {
	return jsonrpc.JSONRPCError{Code: 3004, Message: e.Msg, Data: e.N}, nil
}
func (e *CodecM) FromJSONRPCError(j jsonrpc.JSONRPCError) error {
	e.Msg = j.Message
	f, ok := j.Data.(float64)
	if !ok {
		return fmt.Errorf("data is %T", j.Data)
	}
	e.N = int(f)
	return nil
}
func (e *CodecM) MarshalJSON() ([]byte, error) {
	return json.Marshal(map[string]interface{}{"log_msg": e.Msg, "log_n": e.N})
}
func (e *CodecM) UnmarshalJSON(b []byte) error {
	var d struct {
		M string `json:"log_msg"`
		N int    `json:"log_n"`
	}
	if err := json.Unmarshal(b, &d); err != nil {
		return err
	}
	e.Msg, e.N = d.M, d.N
	return nil
}

// CodecR supplies a code from the range JSON-RPC reserves for implementation-defined server errors.
type CodecR struct{ Msg string }

func (e *CodecR) Error() string { return "codecr:" + e.Msg }
func (e *CodecR) ToJSONRPCError() (jsonrpc.JSONRPCError, error) {
	return jsonrpc.JSONRPCError{Code: -32000, Message: e.Msg, Data: "r"}, nil
}
func (e *CodecR) FromJSONRPCError(j jsonrpc.JSONRPCError) error {
	e.Msg = j.Message
	return nil
}

// Codec0 is a codec-style error that leaves the code at 0 and the message empty; all it has to say is in Data.
type Codec0 struct{ Data string }

func (e *Codec0) Error() string { return "codec0:" + e.Data }
func (e *Codec0) ToJSONRPCError() (jsonrpc.JSONRPCError, error) {
	return jsonrpc.JSONRPCError{Data: e.Data}, nil
}
func (e *Codec0) FromJSONRPCError(j jsonrpc.JSONRPCError) error {
	e.Data, _ = j.Data.(string)
	return nil
}

// CodecT is a codec-style error whose own conversion to the wire form fails (server side).
type CodecT struct{ Msg string }

func (e *CodecT) Error() string { return "codect:" + e.Msg }
func (e *CodecT) ToJSONRPCError() (jsonrpc.JSONRPCError, error) {
	return jsonrpc.JSONRPCError{}, errors.New("conversion to the wire form failed")
}
func (e *CodecT) FromJSONRPCError(j jsonrpc.JSONRPCError) error {
	e.Msg = strings.TrimPrefix(j.Message, "codect:")
	return nil
}

// NilOK is an error type whose methods tolerate a nil receiver; handlers return a typed nil of it,
// which is a non-nil error.
type NilOK struct{ Msg string }

func (e *NilOK) Error() string {
	if e == nil {
		return "nilok:typed-nil"
	}
	return "nilok:" + e.Msg
}

var c11KindName = []string{"nil", "errors.New", "fmt.Errorf", "wrapped", "EVal(value,plain)", "EPtr(pointer,plain)", "MPtr(pointer,marshalable)", "MVal(value,marshalable)", "CodecS", "CodecD", "CodecF", "CodecT(ToJSONRPCError fails)", "typed-nil", "Codec0(code 0, empty message)", "CodecM(codec with MarshalJSON)", "CodecR(reserved-range code)"}

func mkErr(kind int, msg string, a int) error {
	switch kind {
	case kNew:
		return errors.New(msg)
	case kErrorf:
		return fmt.Errorf("%s/%d", msg, a)
	case kWrapped:
		return fmt.Errorf("outer %d: %w", a, EVal{Msg: msg})
	case kEVal:
		return EVal{Msg: msg}
	case kEPtr:
		return &EPtr{Msg: msg}
	case kMPtr:
		return &MPtr{A: a, B: msg}
	case kMVal:
		if a%3 == 0 {
			return MVal{A: a} // every third one has no text
		}
		return MVal{A: a, B: msg}
	case kCodecS:
		return &CodecS{Msg: msg, Data: fmt.Sprintf("d%d", a)}
	case kCodecD:
		return &CodecD{Msg: msg, N: a, L: []string{msg, "x"}}
	case kCodecF:
		return &CodecF{Msg: msg}
	case kCodecT:
		return &CodecT{Msg: msg}
	case kNilOK:
		return (*NilOK)(nil)
	case kCodec0:
		return &Codec0{Data: msg}
	case kCodecM:
		return &CodecM{Msg: msg, N: a}
	case kCodecR:
		return &CodecR{Msg: msg}
	}
	return nil
}

type ErrSvc struct{}

func (ErrSvc) ErrOnly(kind int, msg string, a int) error { return mkErr(kind, msg, a) }
func (ErrSvc) ValErr(kind int, msg string, a int) (string, error) {
	return "nonzero-value", mkErr(kind, msg, a)
}

// ChanErr fails while (also) returning a live channel.
func (ErrSvc) ChanErr(ctx context.Context, kind int, msg string, a int) (<-chan int, error) {
	ch := make(chan int, 1)
	ch <- a
	close(ch)
	return ch, mkErr(kind, msg, a)
}

type errClient struct {
	ErrOnly func(kind int, msg string, a int) error
	ValErr  func(kind int, msg string, a int) (string, error)
	ChanErr func(ctx context.Context, kind int, msg string, a int) (<-chan int, error)
}

// registration tables
const (
	tSame = iota
	tClientOnly
	tServerOnly
	tDisjoint
	tOtherType
	tBadClient
	tServerPartial
	tServerCodecOtherCode
	tClientTwoCodes
	tCount
)

var c11TableName = []string{"same", "client-only", "server-only", "disjoint-codes", "same-code-other-type", "client-conversion-fails", "server-knows-only-unrelated-types", "server-lists-codec-types-under-other-codes", "client-knows-each-type-under-a-legacy-and-a-new-code"}

func regAll(e *jsonrpc.Errors, base jsonrpc.ErrorCode) {
	e.Register(base+1, new(EVal))
	e.Register(base+2, new(*EPtr))
	e.Register(base+3, new(*MPtr))
	e.Register(base+4, new(MVal))
	e.Register(3001, new(*CodecS))
	e.Register(3002, new(*CodecD))
	e.Register(3003, new(*CodecF))
	e.Register(3004, new(*CodecM))
	e.Register(-32000, new(*CodecR))
}

func tables(t int) (srv, cli *jsonrpc.Errors) {
	s, c := jsonrpc.NewErrors(), jsonrpc.NewErrors()
	switch t {
	case tSame:
		regAll(&s, 100)
		regAll(&c, 100)
		return &s, &c
	case tClientOnly:
		regAll(&c, 100)
		return nil, &c
	case tServerOnly:
		regAll(&s, 100)
		return &s, nil
	case tDisjoint:
		regAll(&s, 100)
		c.Register(201, new(EVal))
		c.Register(202, new(*EPtr))
		c.Register(203, new(*MPtr))
		c.Register(204, new(MVal))
		return &s, &c
	case tOtherType:
		regAll(&s, 100)
		c.Register(101, new(*EPtr))
		c.Register(102, new(EVal))
		c.Register(103, new(MVal))
		c.Register(104, new(*MPtr))
		c.Register(3001, new(*CodecD))
		c.Register(3002, new(*CodecS))
		return &s, &c
	case tServerPartial:
		s.Register(101, new(EVal))
		regAll(&c, 100)
		return &s, &c
	case tServerCodecOtherCode:
		s.Register(101, new(EVal))
		s.Register(555, new(*CodecS))
		s.Register(556, new(*CodecD))
		s.Register(557, new(*CodecF))
		regAll(&c, 100)
		return &s, &c
	case tClientTwoCodes:
		// the server still emits the legacy codes; the client's table lists every type under the legacy code
		// first and under a newer code as well
		regAll(&s, 100)
		regAll(&c, 100)
		c.Register(701, new(EVal))
		c.Register(702, new(*EPtr))
		c.Register(703, new(*MPtr))
		c.Register(704, new(MVal))
		c.Register(7001, new(*CodecS))
		c.Register(7002, new(*CodecD))
		return &s, &c
	case tBadClient:
		regAll(&s, 100)
		c.Register(103, new(*MBad))
		c.Register(104, new(*MBad))
		c.Register(3001, new(*CodecF))
		c.Register(3002, new(*CodecF))
		c.Register(3003, new(*CodecF))
		return &s, &c
	}
	return nil, nil
}

func (c11) Plan(tier string, seed int64) []core.Scenario {
	reps := 1
	if tier == "thorough" {
		reps = 30
	}
	var out []core.Scenario
	for rep := 0; rep < reps; rep++ {
		for t := 0; t < tCount; t++ {
			for _, tr := range []string{"ws", "http", "custom"} {
				out = append(out, core.Scenario{Kind: "errors", Seed: seed*256203221 + int64(len(out)), N: map[string]int{"table": t, "n": 400}, S: map[string]string{"transport": tr}})
				if t == tSame {
					out = append(out, core.Scenario{Kind: "errors", Seed: seed*256203221 + int64(len(out)), N: map[string]int{"table": t, "n": 120, "conc": 16}, S: map[string]string{"transport": tr}})
				}
			}
		}
	}
	return out
}

func (c11) Run(sc core.Scenario) core.Result {
	r := core.NewR(sc)
	t := sc.I("table")
	tr := sc.Str("transport")
	srvE, cliE := tables(t)
	var sopts []jsonrpc.ServerOption
	if srvE != nil {
		sopts = append(sopts, jsonrpc.WithServerErrors(*srvE))
	}
	env := NewEnv(EnvOpt{NoProxy: true, NoSvc: true, ServerOpts: sopts})
	defer env.Shutdown()
	env.RPC.Register("E", ErrSvc{})
	var copts []jsonrpc.Option
	if cliE != nil {
		copts = append(copts, jsonrpc.WithErrors(*cliE))
	}
	var cl errClient
	var closer jsonrpc.ClientCloser
	var err error
	if tr == "custom" {
		closer, err = jsonrpc.NewCustomClient("E", []interface{}{&cl}, customDo(env.RPC), copts...)
	} else {
		closer, err = jsonrpc.NewMergeClient(context.Background(), env.Addr(tr), "E", []interface{}{&cl}, nil, copts...)
	}
	if err != nil {
		r.Inconclusive("client: %v", err)
		return r.Result()
	}
	defer closer()
	rng := sc.Rand()
	var sample interface{}
	if sc.I("conc") > 0 {
		c11Concurrent(sc, r, &cl, t, tr)
		return r.Result()
	}
	if tr == "ws" {
		// a channel-returning method whose handler returns a live channel together with an error
		for _, kind := range []int{kNew, kEVal, kMPtr, kCodecS, kNil} {
			ctx, cancel := context.WithCancel(context.Background())
			ch, err := cl.ChanErr(ctx, kind, "chan+err", 7)
			if kind == kNil {
				if err != nil || ch == nil {
					r.Violate("nil-became-error", "ws table=%s: ChanErr with nil error returned (%v, %v)", c11TableName[t], ch != nil, err)
				}
			} else {
				if err == nil {
					r.Violate("error-became-nil:"+c11KindName[kind], "ws table=%s: a channel-returning handler failed with %s (and also returned a channel) but the caller's error is nil", c11TableName[t], c11KindName[kind])
				}
				if ch != nil {
					r.Violate("nonzero-with-error", "ws table=%s: caller got a non-nil channel alongside the error %v", c11TableName[t], err)
				}
			}
			cancel()
			r.Obs("calls", 1)
			r.AddKey(fmt.Sprintf("%s|%s|%s|chan", tr, c11TableName[t], c11KindName[kind]))
		}
	}
	for i := 0; i < sc.I("n"); i++ {
		kind := rng.Intn(kCount)
		msg := strPool[rng.Intn(len(strPool))]
		if rng.Intn(2) == 0 {
			g := &genr{rng: rng}
			msg = g.str()
		}
		a := rng.Intn(1000) - 500
		shape := rng.Intn(2)
		orig := mkErr(kind, msg, a)
		var got error
		val := ""
		func() {
			defer func() {
				if p := recover(); p != nil {
					r.Violate("client-panic:"+c11KindName[kind], "%s/%s: call panicked in the client for handler error %s: %v", tr, c11TableName[t], c11KindName[kind], p)
					got = errors.New("panic")
				}
			}()
			if shape == 0 {
				got = cl.ErrOnly(kind, msg, a)
			} else {
				val, got = cl.ValErr(kind, msg, a)
			}
		}()
		label := fmt.Sprintf("%s table=%s %s(msg=%q,a=%d) shape=%d", tr, c11TableName[t], c11KindName[kind], core.Trunc(msg, 60), a, shape)
		r.Obs("calls", 1)
		mclass := "s"
		if msg == "" {
			mclass = "0"
		} else if len(msg) > 1000 {
			mclass = "L"
		}
		if kind != kNil {
			r.AddKey(fmt.Sprintf("%s|%s|%s|%d|%s", tr, c11TableName[t], c11KindName[kind], shape, mclass))
		}
		if kind == kNil {
			if got != nil {
				r.Violate("nil-became-error", "%s: handler returned nil, caller got %v", label, got)
			}
			if shape == 1 && val != "nonzero-value" {
				r.Violate("value-lost", "%s: value %q", label, val)
			}
			continue
		}
		if got == nil {
			r.Violate("error-became-nil:"+c11KindName[kind], "%s: handler returned %T(%q) but the caller's error is nil", label, orig, core.Trunc(orig.Error(), 80))
			continue
		}
		if shape == 1 && val != "" {
			r.Violate("nonzero-with-error", "%s: caller got value %q alongside the error", label, val)
		}
		if kind == kCodec0 {
			continue // non-nil and zero value were checked above; the generic form of this error has no text
		}
		if kind == kCodecT || kind == kNilOK {
			// server-side conversion failure / typed nil: whatever form the error takes on the client, it is an
			// error (checked above) and it still carries the handler's message
			if !strings.Contains(got.Error(), orig.Error()) {
				r.Violate("message-changed:"+c11KindName[kind], "%s: the caller's error %T %q does not carry the handler's message %q", label, got, core.Trunc(got.Error(), 100), core.Trunc(orig.Error(), 100))
			}
			continue
		}
		// what the server puts on the wire
		code, isCodec := 1, false
		switch kind {
		case kCodecS:
			code, isCodec = 3001, true
		case kCodecD:
			code, isCodec = 3002, true
		case kCodecF:
			code, isCodec = 3003, true
		case kCodecM:
			code, isCodec = 3004, true
		case kCodecR:
			code, isCodec = -32000, true
		default:
			if srvE != nil {
				switch kind {
				case kEVal:
					code = 101
				case kEPtr:
					code = 102
				case kMPtr:
					code = 103
				case kMVal:
					code = 104
				}
				if (t == tServerPartial || t == tServerCodecOtherCode) && kind != kEVal {
					code = 1 // not in the server's table
				}
			}
		}
		// what the client maps that code to
		var cliType reflect.Type
		if cliE != nil {
			cliType = clientTypeFor(t, code)
		}
		var generic *jsonrpc.JSONRPCError
		isGeneric := errors.As(got, &generic) && reflect.TypeOf(got) == reflect.TypeOf(generic)
		switch {
		case cliType == nil:
			// no common registration: generic error with the handler's message and the server's code
			if !isGeneric {
				r.Violate("not-generic:"+c11KindName[kind], "%s: no registration maps code %d on the client, expected *JSONRPCError, got %T (%v)", label, code, got, core.Trunc(got.Error(), 80))
				break
			}
			wantMsg := orig.Error()
			if isCodec {
				wantMsg = msg
			}
			if generic.Message != wantMsg {
				r.Violate("message-changed:"+c11KindName[kind], "%s: generic error message %q, handler's message %q", label, core.Trunc(generic.Message, 100), core.Trunc(wantMsg, 100))
			}
			if int(generic.Code) != code {
				r.Violate("code-changed:"+c11KindName[kind], "%s: generic error code %d, expected %d", label, generic.Code, code)
			}
		case cliType == reflect.TypeOf(orig) && kind == kCodecF:
			// conversion fails by construction: must degrade to the generic error
			if !isGeneric {
				r.Violate("failed-conversion-not-generic", "%s: FromJSONRPCError fails, expected the generic error, got %T", label, got)
			}
		case cliType == reflect.TypeOf(orig):
			if reflect.TypeOf(got) != cliType {
				r.Violate("wrong-type:"+c11KindName[kind], "%s: type %s is registered under code %d on both sides, caller got %T (%v)", label, cliType, code, got, core.Trunc(got.Error(), 80))
				break
			}
			switch kind {
			case kMPtr, kMVal, kCodecS, kCodecD, kCodecM, kCodecR:
				jb, _ := json.Marshal(orig)
				gb, _ := json.Marshal(got)
				if string(jb) != string(gb) || got.Error() != orig.Error() {
					r.Violate("content-lost:"+c11KindName[kind], "%s: registered %s arrived with content %s (%q), original %s (%q)", label, cliType, core.Trunc(string(gb), 120), core.Trunc(got.Error(), 80), core.Trunc(string(jb), 120), core.Trunc(orig.Error(), 80))
				}
			}
		case t == tBadClient:
			// the client-side stand-in cannot be built from this error: generic, never nil/panic
			if !isGeneric && reflect.TypeOf(got) != cliType {
				r.Violate("failed-conversion-not-generic", "%s: got %T", label, got)
			}
			if (kind == kMPtr || kind == kMVal || isCodec) && !isGeneric {
				r.Violate("failed-conversion-not-generic", "%s: client conversion fails for code %d, expected the generic error, got %T (%v)", label, code, got, core.Trunc(got.Error(), 80))
			}
		default:
			// same code, different client type: any non-nil error is acceptable
		}
		if sample == nil && kind >= kMPtr {
			sample = map[string]interface{}{"transport": tr, "table": c11TableName[t], "handler_error": fmt.Sprintf("%T %s", orig, core.Trunc(orig.Error(), 80)), "caller_error": fmt.Sprintf("%T %s", got, core.Trunc(got.Error(), 80))}
		}
	}
	r.Key(fmt.Sprintf("%s %s %d", tr, c11TableName[t], sc.Seed%1000), true)
	r.Sample(sample)
	return r.Result()
}

// c11Concurrent: many failing calls overlap; every caller must get the error of its own call, intact.
func c11Concurrent(sc core.Scenario, r *core.R, cl *errClient, t int, tr string) {
	var wg sync.WaitGroup
	workers := sc.I("conc")
	for w := 0; w < workers; w++ {
		w := w
		wg.Add(1)
		go func() {
			defer wg.Done()
			rng := core.Scenario{Seed: sc.Seed + int64(w)*131}.Rand()
			for i := 0; i < sc.I("n"); i++ {
				kind := []int{kMPtr, kMVal, kCodecS, kCodecD, kNew}[rng.Intn(5)]
				msg := fmt.Sprintf("w%d-i%d-%s", w, i, strPool[rng.Intn(8)])
				a := w*100000 + i
				orig := mkErr(kind, msg, a)
				o := Go("c", func() (string, error) { return "", cl.ErrOnly(kind, msg, a) })
				if !o.Wait(core.Grace) {
					r.Violate("error-call-hang", "%s table=%s: a failing call (%s) never returned while %d workers issue failing calls concurrently", tr, c11TableName[t], c11KindName[kind], workers)
					return
				}
				got := o.Err
				r.Obs("calls", 1)
				if got == nil {
					r.Violate("error-became-nil:"+c11KindName[kind], "%s table=%s concurrent: handler returned %T but the caller's error is nil", tr, c11TableName[t], orig)
					return
				}
				if kind == kNew {
					var g *jsonrpc.JSONRPCError
					if !errors.As(got, &g) || g.Message != msg {
						r.Violate("message-changed:errors.New", "%s table=%s concurrent: caller got %T %q for handler message %q", tr, c11TableName[t], got, core.Trunc(got.Error(), 80), msg)
						return
					}
					continue
				}
				if reflect.TypeOf(got) != reflect.TypeOf(orig) || got.Error() != orig.Error() {
					r.Violate("content-lost:"+c11KindName[kind], "%s table=%s, %d workers failing concurrently: handler returned %T %q, caller got %T %q", tr, c11TableName[t], workers, orig, core.Trunc(orig.Error(), 80), got, core.Trunc(got.Error(), 80))
					return
				}
			}
		}()
	}
	done := make(chan struct{})
	go func() { wg.Wait(); close(done) }()
	core.WaitCh(done, 10*core.Grace)
	r.Key(fmt.Sprintf("%s %s concurrent x%d", tr, c11TableName[t], workers), true)
	r.Sample(map[string]interface{}{"transport": tr, "table": c11TableName[t], "concurrent_workers": workers, "failing_calls_each": sc.I("n")})
}

func clientTypeFor(t int, code int) reflect.Type {
	base := map[int]reflect.Type{}
	add := func(c int, v interface{}) { base[c] = reflect.TypeOf(v).Elem() }
	switch t {
	case tSame, tClientOnly, tServerPartial, tServerCodecOtherCode, tClientTwoCodes:
		add(101, new(EVal))
		add(102, new(*EPtr))
		add(103, new(*MPtr))
		add(104, new(MVal))
		add(3001, new(*CodecS))
		add(3002, new(*CodecD))
		add(3003, new(*CodecF))
		add(3004, new(*CodecM))
		add(-32000, new(*CodecR))
	case tDisjoint:
		add(201, new(EVal))
		add(202, new(*EPtr))
		add(203, new(*MPtr))
		add(204, new(MVal))
	case tOtherType:
		add(101, new(*EPtr))
		add(102, new(EVal))
		add(103, new(MVal))
		add(104, new(*MPtr))
		add(3001, new(*CodecD))
		add(3002, new(*CodecS))
	case tBadClient:
		add(103, new(*MBad))
		add(104, new(*MBad))
		add(3001, new(*CodecF))
		add(3002, new(*CodecF))
		add(3003, new(*CodecF))
	}
	return base[code]
}
