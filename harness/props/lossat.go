package props

import (
	"context"
	"fmt"
	"strings"
	"sync"
	"time"

	jsonrpc "github.com/filecoin-project/go-jsonrpc"

	"vharness/core"
	"vharness/svc"
	"vharness/wsproxy"
)

// lossPoints: the internal instants at which the connection is cut in the "lossat" enumeration.
var lossPoints = []string{
	"cl.enqueue.before", "cl.enqueue.after", "cl.cancel.before", "cl.sink.deliver",
	"ws.req.accepted", "ws.req.registered", "ws.req.written", "ws.writer.locked",
	"ws.resp.lookup", "ws.resp.deliver.before", "ws.resp.deliver.after", "ws.exec.frame", "ws.read.frame",
	"ws.chan.reg", "ws.subcancel.before", "ws.cancel.recv", "ws.call.dispatch", "h.lazy.acquire",
}

func planLossAt(tier string, seed int64) []core.Scenario {
	var out []core.Scenario
	rng := core.Scenario{Seed: seed ^ 0x10552}.Rand()
	for pi, pt := range lossPoints {
		for _, side := range []int{1, 2} {
			if strings.HasPrefix(pt, "cl.") && side == 2 {
				continue
			}
			for occ := 1; occ <= 9; occ++ {
				if tier != "thorough" && rng.Intn(9) != 0 && !(occ == 2+pi%3 && side == 1) {
					continue
				}
				out = append(out, core.Scenario{Kind: "lossat", Seed: seed*7853 + int64(len(out)), N: map[string]int{"occ": occ, "side": side, "fk": (pi + occ + side) % 2, "noise": (pi + occ) % 3, "wait": (pi/2 + occ) % 4}, S: map[string]string{"point": pt}})
			}
		}
	}
	return out
}

// runLossAt cuts the connection (RST or FIN) synchronously at the occ-th firing of an internal hook point
// while a mixed workload runs: the loss is placed relative to the library's own steps instead of relative
// to frames on the wire. Oracles (clock-free apart from the scheduling grace): every call returns; a value
// is the caller's own token; a plain call's handler ran at most once, and exactly once when the call
// succeeded; after a probe round-tripped and all subscription contexts were cancelled every client channel
// is closed and carries a gap-free prefix of its stream.
func runLossAt(sc core.Scenario, r *core.R) {
	point, occ, side := sc.Str("point"), sc.I("occ"), sc.I("side")
	kind := []string{wsproxy.RST, wsproxy.FIN}[sc.I("fk")]
	env := NewEnv(EnvOpt{})
	defer env.Shutdown()
	pol := noisePolicy(sc)
	hside := side
	if strings.HasPrefix(point, "cl.") {
		hside = 0
	}
	var fired sync.Once
	firedCh := make(chan struct{})
	pol.Rules = append(pol.Rules, &core.Rule{Point: point, Side: hside, Occ: occ, Do: func(jsonrpc.VerifEvent) {
		fired.Do(func() {
			core.Log.Note("h.lossat", fmt.Sprintf("%s %s#%d side=%d", kind, point, occ, side))
			before := [3]int64{pol.Count("ws.reconn.begin", 1), pol.Count("ws.reconn.chansClosed", 1), pol.Count("ws.reconn.swap.after", 1)}
			env.Px.KillAll(kind)
			close(firedCh)
			// the goroutine that reached the point stays parked until the client has got as far as the chosen step
			// of its recovery (or 100 ms when that step cannot happen while this goroutine is parked)
			switch sc.I("wait") {
			case 0:
				time.Sleep(time.Millisecond)
			case 1:
				pol.WaitPoint("ws.reconn.begin", 1, before[0], 100*time.Millisecond)
			case 2:
				pol.WaitPoint("ws.reconn.chansClosed", 1, before[1], 100*time.Millisecond)
			case 3:
				pol.WaitPoint("ws.reconn.swap.after", 1, before[2], 100*time.Millisecond)
			}
		})
	}})
	defer pol.Install()()
	cl, err := env.NewClient(ClientOpt{Opts: []jsonrpc.Option{jsonrpc.WithReconnectBackoff(5*time.Millisecond, 20*time.Millisecond)}})
	if err != nil {
		r.Inconclusive("client: %v", err)
		return
	}
	bg := context.Background()
	var mu sync.Mutex
	var outs []*Outcome
	type sub struct {
		tok    string
		g      *got
		cancel context.CancelFunc
	}
	var subs []*sub
	add := func(o *Outcome) *Outcome {
		mu.Lock()
		outs = append(outs, o)
		mu.Unlock()
		return o
	}
	echo := func(lane string) *Outcome {
		t := Tok(lane)
		return add(Go(t, func() (string, error) { return cl.Echo(bg, t, "") }))
	}
	step := func(os ...*Outcome) {
		for _, o := range os {
			o.Wait(core.Grace)
		}
	}
	subscribe := func(n int, mode int) {
		t := Tok("s")
		ctx, cancel := context.WithCancel(bg)
		o := add(Go(t, func() (string, error) {
			ch, err := cl.Sub(ctx, t, n, mode)
			if err != nil || ch == nil {
				cancel()
				return "", err
			}
			g := drainItems(ch, 20*time.Microsecond, -1, nil)
			mu.Lock()
			subs = append(subs, &sub{t, g, cancel})
			mu.Unlock()
			return "", nil
		}))
		o.Wait(core.Grace)
	}
	// ---- workload: every step tolerates the loss
	step(echo("q"), echo("q"))
	h1 := Tok("h")
	env.Svc.Hold(h1)
	add(Go(h1, func() (string, error) { return cl.Echo(bg, h1, "") }))
	env.Svc.WaitEntered(h1, time.Second)
	subscribe(0, svc.SInfinite)
	bt := Tok("b")
	step(add(Go(bt, func() (string, error) { return cl.Big(bg, bt, 20000) })))
	subscribe(40, svc.SGoroutine)
	cctx, ccancel := context.WithCancel(bg)
	ct := Tok("c")
	env.Svc.Hold(ct)
	co := add(Go(ct, func() (string, error) { return cl.Echo(cctx, ct, "") }))
	env.Svc.WaitEntered(ct, time.Second)
	ccancel()
	step(co)
	subscribe(0, svc.SInfinite)
	step(echo("a"), echo("a"), echo("a"))
	h2 := Tok("h")
	env.Svc.Hold(h2)
	add(Go(h2, func() (string, error) { return cl.Echo(bg, h2, "") }))
	step(echo("a"))
	formed := false
	select {
	case <-firedCh:
		formed = true
	default:
	}
	env.Svc.ReleaseAll()
	// ---- oracle
	where := fmt.Sprintf("%s at %s#%d (side %d, fired=%v)", kind, point, occ, side, formed)
	healthy := probeUntilHealthy(cl, r, 2*core.Grace)
	if !healthy {
		r.Violate("lost-call:probe", "%s: the client did not become usable again; events: %s", where, core.Log.Tail(30))
	}
	mu.Lock()
	allOuts := append([]*Outcome(nil), outs...)
	allSubs := append([]*sub(nil), subs...)
	mu.Unlock()
	blocked := 0
	for _, o := range allOuts {
		if blocked >= 2 && !o.Returned() {
			continue
		}
		if !o.Wait(core.Grace) {
			blocked++
			r.Violate("lost-call:lossat", "%s: call %s never returned although a later probe round-tripped on the same client; events: %s", where, o.Tok, core.Log.Tail(30))
			continue
		}
		if o.Err == nil && o.Val != "" && !strings.HasPrefix(o.Val, svc.Reply(o.Tok)) {
			r.Violate("foreign-result", "%s: call %s returned %q", where, o.Tok, core.Trunc(o.Val, 80))
		}
		if strings.HasPrefix(o.Tok, "Ts") {
			continue
		}
		n := env.Svc.Enters(o.Tok)
		if n > 1 {
			r.Violate("executed-twice", "%s: the handler of call %s ran %d times", where, o.Tok, n)
		}
		if o.Err == nil && o.Val != "" && n != 1 {
			r.Violate("answered-not-executed", "%s: call %s succeeded but its handler ran %d times", where, o.Tok, n)
		}
	}
	for _, s := range allSubs {
		s.cancel()
	}
	for i, s := range allSubs {
		if !core.WaitCh(s.g.done, core.Grace) {
			r.Violate("channel-not-closed:lossat", "%s: client channel %d (%s) is still open after the link was healthy again and its context was cancelled (received %d); events: %s", where, i, s.tok, s.g.n(), core.Log.Tail(30))
			continue
		}
		checkSeq(r, "lossat", s.tok, s.g.snapshot(), int(env.Svc.Get(s.tok).Sent)+1, false)
	}
	r.Key(fmt.Sprintf("lossat %s#%d side=%d %s wait=%d formed=%v", point, occ, side, kind, sc.I("wait"), formed), formed)
	r.Obs("lossat_formed", b2i(formed))
	r.Obs("calls", int64(len(allOuts)))
	r.Sig(core.Log.Signature())
	r.Sample(map[string]interface{}{"window": "connection cut at an internal step", "point": point, "occurrence": occ, "side": []string{"", "client", "server"}[side], "kind": kind, "parked_until": []string{"1 ms", "reconnect began", "sinks closed", "connection swapped"}[sc.I("wait")], "formed": formed, "calls": len(allOuts), "subscriptions": len(allSubs)})
}
