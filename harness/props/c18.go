package props

import (
	"context"
	"encoding/json"
	"fmt"
	"github.com/gorilla/websocket"
	"net/http"
	"net/http/httptest"
	"strings"
	"sync"
	"time"

	jsonrpc "github.com/filecoin-project/go-jsonrpc"

	"vharness/core"
	"vharness/svc"
	"vharness/wsproxy"
)

// C18 – closing a client always completes and leaves nothing blocked.

type c18 struct{}

func init() { core.Register(c18{}) }

func (c18) ID() string    { return "C18" }
func (c18) Level() string { return "fault_enumeration" }
func (c18) Race() bool    { return true }
func (c18) Rule() string {
	return "a mixed workload (concurrent calls, a held call, a multi-frame response, a stream, a cut with one refused redial, calls in the reconnect window, a cancelled call, more calls/streams after the reconnect); the closer is fired asynchronously from inside the hook at (point, occurrence) for every client-side hook point x occurrences 1..N (quick: sampled occurrences, thorough: 1..12), with the hooked goroutine paused 1 ms; plus closers of http/custom clients fired during calls in progress. Distinct = (point, occurrence, whether the trigger fired, work outstanding); non-trivial = calls or streams were outstanding when the closer fired. Oracle: closer returns, every outstanding call returned (own token or error), 20 later calls return errors without blocking or panicking, every client channel closed, no redial hook event or proxy accept sequenced after the closer's return."
}
func (c18) Assumptions() []string {
	return []string{"hook points are the candidate instants; between two hook points the closer is not fired", "8 s scheduling grace"}
}

var c18Points = []string{
	"cl.enqueue.before", "cl.enqueue.after", "cl.cancel.before", "cl.sink.deliver",
	"ws.req.accepted", "ws.req.registered", "ws.req.written", "ws.writer.locked",
	"ws.resp.lookup", "ws.resp.deliver.before", "ws.resp.deliver.after", "ws.exec.frame", "ws.read.frame",
	"ws.reconn.begin", "ws.reconn.inflightClosed", "ws.reconn.chansClosed", "ws.reconn.dial", "ws.reconn.swap.before", "ws.reconn.swap.after",
	"ws.closechans.each", "ws.subcancel.before",
}

func (c18) Plan(tier string, seed int64) []core.Scenario {
	var out []core.Scenario
	rng := core.Scenario{Seed: seed}.Rand()
	for _, pt := range c18Points {
		maxOcc := 12
		if len(pt) > 9 && pt[:9] == "ws.reconn" {
			maxOcc = 2
		}
		if pt == "cl.cancel.before" || pt == "ws.subcancel.before" || pt == "ws.closechans.each" {
			maxOcc = 2
		}
		for occ := 1; occ <= maxOcc; occ++ {
			if tier != "thorough" && maxOcc > 2 && occ > 2 && rng.Intn(4) != 0 {
				continue
			}
			out = append(out, core.Sc("closeat").WithS("point", pt).WithN("occ", occ))
		}
	}
	n := 4
	if tier == "thorough" {
		n = 40
	}
	for i := 0; i < n; i++ {
		out = append(out, core.Sc("closeat").WithS("point", "idle").WithN("occ", 0))
		out = append(out, core.Sc("stateless").WithS("transport", "http").WithN("i", i))
		out = append(out, core.Sc("stateless").WithS("transport", "custom").WithN("i", i))
	}
	// the closer fires inside the reconnect window and the tail of the exit path is slow: a redial that
	// wakes from its backoff right then must not start any more
	for _, pt := range []string{"ws.reconn.begin", "ws.reconn.chansClosed", "ws.closechans.each"} {
		out = append(out, core.Sc("closeat").WithS("point", pt).WithN("occ", 1).WithN("exitstall", 1))
	}
	// the peer has stopped reading: a large request is stuck in write(2) when the closer is invoked
	out = append(out, core.Sc("stalled-write").WithN("mb", 32))
	// a foreign server answers a channel-returning call with something that is not a channel id
	for i := 0; i < 3; i++ {
		out = append(out, core.Sc("foreign-server").WithN("answer", i))
	}
	// a subscription with tens of thousands of unread values when the closer is invoked
	out = append(out, core.Sc("backlog").WithN("n", 20000).WithN("how", 0), core.Sc("backlog").WithN("n", 17000).WithN("how", 1))
	// the client is serving reverse calls whose handlers do not return on cancellation
	out = append(out, core.Sc("busy-reverse-handler").WithN("handlers", 1), core.Sc("busy-reverse-handler").WithN("handlers", 3))
	if tier == "thorough" {
		// repeat the whole enumeration with different noise
		base := append([]core.Scenario(nil), out...)
		for rep := 1; rep < 4; rep++ {
			for _, s := range base {
				out = append(out, s.WithN("rep", rep))
			}
		}
	}
	for i := range out {
		out[i].Seed = seed*86028121 + int64(i)
		out[i] = out[i].WithN("noise", i%3)
	}
	return out
}

func (p c18) Run(sc core.Scenario) core.Result {
	r := core.NewR(sc)
	if sc.Kind == "stateless" {
		p.stateless(sc, r)
	} else if sc.Kind == "stalled-write" {
		p.stalledWrite(sc, r)
	} else if sc.Kind == "busy-reverse-handler" {
		p.busyReverseHandler(sc, r)
	} else if sc.Kind == "backlog" {
		p.backlog(sc, r)
	} else if sc.Kind == "foreign-server" {
		p.foreignServer(sc, r)
	} else {
		p.closeAt(sc, r)
	}
	return r.Result()
}

func (c18) closeAt(sc core.Scenario, r *core.R) {
	point, occ := sc.Str("point"), sc.I("occ")
	env := NewEnv(EnvOpt{})
	defer env.Shutdown()
	pol := noisePolicy(sc)
	var cl *Client
	closed := make(chan struct{})
	var fireOnce sync.Once
	var closeSeq int64
	var immediate *Outcome
	var outstandingAtFire int
	var mu sync.Mutex
	var outs []*Outcome
	var gots []*got
	add := func(o *Outcome) *Outcome {
		mu.Lock()
		outs = append(outs, o)
		mu.Unlock()
		return o
	}
	fire := func() {
		fireOnce.Do(func() {
			mu.Lock()
			for _, o := range outs {
				if !o.Returned() {
					outstandingAtFire++
				}
			}
			for _, g := range gots {
				if !g.isClosed() {
					outstandingAtFire++
				}
			}
			mu.Unlock()
			core.Log.Note("h.closer.fire", point)
			go func() {
				cl.Close()
				closeSeq = core.Log.Note("h.closer.returned", "")
				// a call issued the instant the closer has returned must fail, not be served
				t := Tok("i")
				immediate = Go(t, func() (string, error) { return cl.Echo(context.Background(), t, "") })
				close(closed)
			}()
		})
	}
	if sc.I("exitstall") == 1 {
		pol.Rules = append(pol.Rules, &core.Rule{Point: "ws.exit.end", Side: 1, Do: func(jsonrpc.VerifEvent) { time.Sleep(60 * time.Millisecond) }})
	}
	if point != "idle" {
		side := 1
		if point[:3] == "cl." {
			side = 0
		}
		pol.Rules = append(pol.Rules, &core.Rule{Point: point, Side: side, Occ: occ, Do: func(ev jsonrpc.VerifEvent) {
			fire()
			time.Sleep(time.Millisecond)
		}})
	}
	defer pol.Install()()
	var err error
	cl, err = env.NewClient(ClientOpt{Opts: []jsonrpc.Option{jsonrpc.WithReconnectBackoff(5*time.Millisecond, 20*time.Millisecond)}})
	if err != nil {
		r.Inconclusive("client: %v", err)
		return
	}
	bg := context.Background()
	isClosed := func() bool {
		select {
		case <-closed:
			return true
		default:
			return false
		}
	}
	echo := func(lane string) *Outcome {
		t := Tok(lane)
		return add(Go(t, func() (string, error) { return cl.Echo(bg, t, "") }))
	}
	sub := func(ctx context.Context) {
		t := Tok("s")
		o := add(Go(t, func() (string, error) {
			ch, err := cl.Sub(ctx, t, 0, svc.SInfinite)
			if err != nil || ch == nil {
				return "", err
			}
			g := drainItems(ch, 50*time.Microsecond, -1, nil)
			mu.Lock()
			gots = append(gots, g)
			mu.Unlock()
			return "", nil
		}))
		o.Wait(core.Grace)
	}
	step := func(os ...*Outcome) {
		for _, o := range os {
			o.Wait(core.Grace)
		}
	}
	// ---- workload (every step tolerates a closed client)
	func() {
		step(echo("q"), echo("q"), echo("q"))
		h1 := Tok("h")
		env.Svc.Hold(h1)
		add(Go(h1, func() (string, error) { return cl.Echo(bg, h1, "") }))
		env.Svc.WaitEntered(h1, time.Second)
		bt := Tok("b")
		step(add(Go(bt, func() (string, error) { return cl.Big(bg, bt, 20000) })))
		sub(bg)
		sctx, scancel := context.WithCancel(bg)
		sub(sctx)
		sub(bg)
		scancel()
		if isClosed() {
			return
		}
		cctx, ccancel := context.WithCancel(bg)
		ct := Tok("c")
		env.Svc.Hold(ct)
		co := add(Go(ct, func() (string, error) { return cl.Echo(cctx, ct, "") }))
		env.Svc.WaitEntered(ct, time.Second)
		ccancel()
		step(co)
		env.Px.FailNext(1)
		env.Px.KillAll(wsproxy.RST)
		step(echo("w"), echo("w"))
		if isClosed() {
			return
		}
		probeUntilHealthy(cl, r, 2*time.Second)
		step(echo("a"), echo("a"))
		h2 := Tok("h")
		env.Svc.Hold(h2)
		add(Go(h2, func() (string, error) { return cl.EchoR(bg, h2, "") })) // retry-tagged, in flight across the close
		h3 := Tok("h")
		env.Svc.Hold(h3)
		add(Go(h3, func() (string, error) { return cl.NoCtxR(h3) })) // retry-tagged method without a context parameter
		sub(bg)
		step(echo("a"))
	}()
	triggerFired := core.Log.Count("h.closer.fire") > 0
	fire() // idempotent: closes while idle when the occurrence was never reached
	// ---- oracle
	where := fmt.Sprintf("closer fired at %s#%d (trigger fired=%v)", point, occ, triggerFired)
	if !core.WaitCh(closed, core.Grace) {
		r.Violate("closer-hang", "%s: the closer did not return; events: %s", where, core.Log.Tail(40))
		env.Svc.ReleaseAll()
		r.Key(fmt.Sprintf("%s#%d fired=%v exitstall=%d", point, occ, triggerFired, sc.I("exitstall")), true)
		return
	}
	// the closer returns only once the connection loop has wound down: its exit path has been entered (and,
	// by the defer order, the in-flight calls failed and the sinks closed) before the closer's return was logged
	wound := false
	for _, e := range core.Log.Snapshot() {
		if e.Point == "ws.exit.begin" && e.Client && e.Seq < closeSeq {
			wound = true
		}
	}
	if !wound {
		r.Violate("closer-returned-early", "%s: the closer returned before the client's connection loop had begun to wind down", where)
	}
	mu.Lock()
	allOuts := append([]*Outcome(nil), outs...)
	allGots := append([]*got(nil), gots...)
	mu.Unlock()
	blockedN := 0
	for _, o := range allOuts {
		if blockedN >= 2 && !o.Returned() {
			continue // already established: do not spend a grace period per call
		}
		if !o.Wait(core.Grace) {
			blockedN++
			r.Violate("call-blocked-after-close", "%s: call %s is still blocked after the closer returned; events: %s", where, o.Tok, core.Log.Tail(40))
		} else if o.Err == nil && o.Val != "" && o.Val != svc.Reply(o.Tok) && len(o.Val) < 100 && !strings.HasPrefix(o.Tok, "Tsx") {
			r.Violate("foreign-result", "%s: call %s returned %q", where, o.Tok, o.Val)
		}
	}
	if immediate != nil {
		if !immediate.Wait(core.Grace) {
			r.Violate("late-call-blocked", "%s: a call issued the instant the closer returned blocks", where)
		} else if immediate.Err == nil {
			r.Violate("late-call-served", "%s: a call issued the instant the closer returned was served (%q): the client was not closed yet when the closer returned", where, immediate.Val)
		}
	}
	for i := 0; i < 20; i++ {
		t := Tok("l")
		o := Go(t, func() (string, error) {
			switch i % 3 { // plain, retry-tagged, retry-tagged without a context parameter
			case 1:
				return cl.EchoR(bg, t, "")
			case 2:
				return cl.NoCtxR(t)
			}
			return cl.Echo(bg, t, "")
		})
		if !o.Wait(core.Grace) {
			r.Violate("late-call-blocked", "%s: a call (variant %d: 0 plain, 1 retry-tagged, 2 retry-tagged without context) issued after close blocks instead of returning an error", where, i%3)
			break
		}
		if o.Err == nil {
			r.Violate("late-call-served", "%s: a call issued after close returned %q without error", where, o.Val)
		}
	}
	for i, g := range allGots {
		if !core.WaitCh(g.done, core.Grace) {
			r.Violate("channel-open-after-close", "%s: client channel %d still open after the closer returned (received %d); events: %s", where, i, g.n(), core.Log.Tail(40))
		}
	}
	acc := env.Px.Accepts()
	time.Sleep(80 * time.Millisecond)
	lateDial := 0
	for _, e := range core.Log.Snapshot() {
		if e.Point == "ws.reconn.dial" && e.Seq > closeSeq {
			lateDial++
		}
	}
	if lateDial > 0 || env.Px.Accepts() != acc {
		r.Violate("redial-after-close", "%s: %d redial attempt(s) began and %d connection(s) reached the proxy after the closer had returned", where, lateDial, env.Px.Accepts()-acc)
	}
	env.Svc.ReleaseAll()
	r.Key(fmt.Sprintf("%s#%d fired=%v out=%v", point, occ, triggerFired, outstandingAtFire > 0), outstandingAtFire > 0)
	r.Obs("closer_fired_by_trigger", b2i(triggerFired))
	r.Obs("outstanding_at_close", int64(outstandingAtFire))
	r.Obs("calls", int64(len(allOuts)))
	r.Sig(core.Log.Signature())
	r.Sample(map[string]interface{}{"close_at": point, "occurrence": occ, "trigger_fired": triggerFired, "outstanding_calls_and_streams": outstandingAtFire, "calls": len(allOuts), "streams": len(allGots)})
}

// stalledWrite: the peer stops reading; a request larger than the socket buffers blocks the client's
// connection loop inside write(2); then the closer is invoked.
func (c18) stalledWrite(sc core.Scenario, r *core.R) {
	env := NewEnv(EnvOpt{})
	defer env.Shutdown()
	pol := noisePolicy(sc)
	// the peer stops reading at the very moment the connection loop starts writing the large request
	pol.Rules = append(pol.Rules, &core.Rule{Point: "ws.req.registered", Side: 1, Occ: 2, Do: func(jsonrpc.VerifEvent) { env.Px.KillAll(wsproxy.STALL) }})
	defer pol.Install()()
	cl, err := env.NewClient(ClientOpt{Opts: []jsonrpc.Option{jsonrpc.WithReconnectBackoff(5*time.Millisecond, 20*time.Millisecond), jsonrpc.WithPingInterval(50 * time.Millisecond), jsonrpc.WithTimeout(500 * time.Millisecond)}})
	if err != nil {
		r.Inconclusive("client: %v", err)
		return
	}
	bg := context.Background()
	w := Tok("w")
	cl.Echo(bg, w, "")
	t := Tok("b")
	big := Go(t, func() (string, error) { return cl.Echo(bg, t, strings.Repeat("p", sc.I("mb")<<20)) })
	// wait until the connection loop has taken the request and is writing it
	pol.WaitPoint("ws.req.registered", 1, 1, 3*core.Grace)
	time.Sleep(250 * time.Millisecond)
	written := pol.Count("ws.req.written", 1) >= 2
	closed := make(chan struct{})
	go func() { cl.Close(); close(closed) }()
	okClose := core.WaitCh(closed, core.Grace)
	r.Key("stalled-write", !written)
	r.Obs("stalled_write_formed", b2i(!written))
	r.Sample(map[string]interface{}{"scenario": "closer invoked while a 32 MiB request is stuck in write(2) to a peer that stopped reading", "write_completed_before_close": written, "closer_returned": okClose, "write_returned_by_then": pol.Count("ws.req.written", 1) >= 2, "events": core.Log.Tail(12)})
	if written {
		r.Inconclusive("the request was swallowed by the socket buffers: the write did not stall")
		return
	}
	if !okClose {
		r.Violate("closer-hang:stalled-write", "the closer did not return within %v while the connection loop is blocked writing a %d MiB request to a peer that stopped reading (no write deadline); events: %s", core.Grace, sc.I("mb"), core.Log.Tail(20))
		env.Px.KillAll(wsproxy.RST)
		return
	}
	if !big.Wait(core.Grace) {
		r.Violate("call-blocked-after-close", "the call whose request was stuck in write(2) is still blocked after the closer returned")
	}
}

func (c18) stateless(sc core.Scenario, r *core.R) {
	tr := sc.Str("transport")
	env := NewEnv(EnvOpt{NoProxy: true})
	defer env.Shutdown()
	var cl svc.Client
	var closer jsonrpc.ClientCloser
	var err error
	if tr == "custom" {
		closer, err = customClient(env.RPC, &cl)
	} else {
		closer, err = jsonrpc.NewMergeClient(context.Background(), env.Addr("http"), "S", []interface{}{&cl}, nil)
	}
	if err != nil {
		r.Inconclusive("client: %v", err)
		return
	}
	bg := context.Background()
	var outs []*Outcome
	for i := 0; i < 4; i++ {
		t := Tok("h")
		env.Svc.Hold(t)
		outs = append(outs, Go(t, func() (string, error) { return cl.Echo(bg, t, "") }))
		env.Svc.WaitEntered(t, core.Grace)
	}
	// a call through a method without a context parameter is in progress as well
	tn := Tok("h")
	env.Svc.Hold(tn)
	outs = append(outs, Go(tn, func() (string, error) { return cl.NoCtx(tn) }))
	env.Svc.WaitEntered(tn, core.Grace)
	done := make(chan struct{})
	go func() { closer(); close(done) }()
	if !core.WaitCh(done, core.Grace) {
		r.Violate("closer-hang", "%s closer did not return while calls were in progress", tr)
	}
	time.Sleep(5 * time.Millisecond)
	env.Svc.ReleaseAll()
	for _, o := range outs {
		if !o.Wait(core.Grace) {
			r.Violate("call-blocked-after-close", "%s: call in progress across close never returned", tr)
		} else if o.Err != nil || o.Val != svc.Reply(o.Tok) {
			r.Violate("call-disturbed-by-close", "%s: call in progress across close returned (%q, %v) instead of its result", tr, o.Val, o.Err)
		}
	}
	r.Key(fmt.Sprintf("stateless %s %d", tr, sc.I("i")), true)
	r.Obs("stateless_closes", 1)
	r.Sample(map[string]interface{}{"transport": tr, "calls_in_progress": 5, "incl_method_without_context": true})
}

// backlog: one subscription whose consumer does not read while the handler hands over n values (the client
// buffers them); then the client is closed (how=0) or loses its connection without reconnecting (how=1).
// The closer returns, later calls fail, and the channel is closed once the consumer drains it.
func (c18) backlog(sc core.Scenario, r *core.R) {
	n := sc.I("n")
	env := NewEnv(EnvOpt{})
	defer env.Shutdown()
	pol := noisePolicy(sc)
	defer pol.Install()()
	opts := []jsonrpc.Option{jsonrpc.WithReconnectBackoff(5*time.Millisecond, 20*time.Millisecond)}
	if sc.I("how") == 1 {
		opts = append(opts, jsonrpc.WithNoReconnect())
	}
	cl, err := env.NewClient(ClientOpt{Opts: opts})
	if err != nil {
		r.Inconclusive("client: %v", err)
		return
	}
	bg := context.Background()
	t := Tok("s")
	ch, err := cl.Sub(bg, t, n, svc.SPrefilled)
	if err != nil || ch == nil {
		r.Inconclusive("subscribe: %v", err)
		return
	}
	// nobody reads ch; wait until everything (values and the close notification) has reached the client
	if !core.EventuallyProgress(2*core.Grace, func() int64 { return int64(env.Px.DataFrames(wsproxy.S2C)) }, func() bool { return env.Px.DataFrames(wsproxy.S2C) >= n+2 }) {
		r.Inconclusive("the stream was not forwarded completely (%d frames)", env.Px.DataFrames(wsproxy.S2C))
		return
	}
	time.Sleep(50 * time.Millisecond)
	closed := make(chan struct{})
	if sc.I("how") == 1 {
		env.Px.KillAll(wsproxy.RST)
		time.Sleep(20 * time.Millisecond)
	}
	go func() { cl.Close(); close(closed) }()
	where := fmt.Sprintf("%d unread values buffered for a subscriber, then %s", n, []string{"the closer", "a connection loss on a client without reconnect, then the closer"}[sc.I("how")])
	if !core.WaitCh(closed, core.Grace) {
		r.Violate("closer-hang:backlog", "%s: the closer did not return; events: %s", where, core.Log.TailFiltered(20, "px.frame"))
	}
	lt := Tok("l")
	o := Go(lt, func() (string, error) { return cl.Echo(bg, lt, "") })
	if !o.Wait(core.Grace) {
		r.Violate("late-call-blocked", "%s: a call issued afterwards blocks", where)
	} else if o.Err == nil {
		r.Violate("late-call-served", "%s: a call issued afterwards was served", where)
	}
	g := drainItems(ch, 0, -1, nil)
	if !core.WaitProgress(g.done, core.Grace, func() int64 { return int64(g.n()) }) {
		r.Violate("channel-open-after-close", "%s: the channel is still open after the consumer drained it (received %d)", where, g.n())
	}
	checkSeq(r, "backlog", t, g.snapshot(), n, false)
	r.Key(fmt.Sprintf("backlog n=%d how=%d", n, sc.I("how")), true)
	r.Obs("backlog_values", int64(g.n()))
	r.Sig(core.Log.Signature())
	r.Sample(map[string]interface{}{"scenario": where, "received_after_close": g.n()})
}

// foreignServer: the peer is not this library's server: it answers a channel-returning call with a result
// that is not a channel id (a string subscription id, an object, a negative number) and plain calls normally.
// Whatever the client makes of that answer, closing it releases every call.
func (c18) foreignServer(sc core.Scenario, r *core.R) {
	answer := []string{`"sub-0xabc"`, `{"subscription":7}`, `-1`}[sc.I("answer")]
	up := websocket.Upgrader{CheckOrigin: func(*http.Request) bool { return true }}
	ts := httptest.NewServer(http.HandlerFunc(func(w http.ResponseWriter, rq *http.Request) {
		conn, err := up.Upgrade(w, rq, nil)
		if err != nil {
			return
		}
		defer conn.Close()
		for {
			_, msg, err := conn.ReadMessage()
			if err != nil {
				return
			}
			var f struct {
				ID     json.RawMessage `json:"id"`
				Method string          `json:"method"`
			}
			if json.Unmarshal(msg, &f) != nil || f.ID == nil {
				continue
			}
			res := `"pong"`
			if f.Method == "S.Sub" {
				res = answer
			}
			conn.WriteMessage(websocket.TextMessage, []byte(fmt.Sprintf(`{"jsonrpc":"2.0","id":%s,"result":%s}`, f.ID, res)))
		}
	}))
	defer ts.Close()
	var cl svc.Client
	closer, err := jsonrpc.NewMergeClient(context.Background(), "ws://"+ts.Listener.Addr().String(), "S", []interface{}{&cl}, nil, jsonrpc.WithNoReconnect())
	if err != nil {
		r.Inconclusive("client: %v", err)
		return
	}
	bg := context.Background()
	var subs []*Outcome
	for i := 0; i < 3; i++ {
		t := Tok("s")
		subs = append(subs, Go(t, func() (string, error) {
			ch, err := cl.Sub(bg, t, 3, 0)
			if err == nil && ch != nil {
				for range ch {
				}
			}
			return "", err
		}))
	}
	pt := Tok("p")
	plain := Go(pt, func() (string, error) { return cl.Echo(bg, pt, "") })
	if !plain.Wait(core.Grace) {
		r.Inconclusive("the fake server did not answer a plain call")
	}
	time.Sleep(100 * time.Millisecond)
	closed := make(chan struct{})
	go func() { closer(); close(closed) }()
	where := fmt.Sprintf("peer answered channel-returning calls with %s, then the client was closed", answer)
	if !core.WaitCh(closed, core.Grace) {
		r.Violate("closer-hang", "%s: the closer did not return", where)
	}
	for _, o := range subs {
		if !o.Wait(core.Grace) {
			r.Violate("call-blocked-after-close", "%s: the channel-returning call is still blocked after the closer returned", where)
			break
		}
	}
	r.Key("foreign-server "+answer, true)
	r.Obs("calls", 4)
	r.Sample(map[string]interface{}{"scenario": where})
}

// busyReverseHandler: the client is in the middle of serving reverse calls; its handlers ignore the
// cancellation of their context and stay busy. The closer returns all the same, a call issued afterwards
// fails at once, and the forward calls that triggered the reverse calls are failed.
func (c18) busyReverseHandler(sc core.Scenario, r *core.R) {
	env := NewEnv(EnvOpt{Rev: true})
	defer env.Shutdown()
	defer noisePolicy(sc).Install()()
	c, err := env.NewClient(ClientOpt{RevIdent: "A"})
	if err != nil {
		r.Inconclusive("client: %v", err)
		return
	}
	bg := context.Background()
	var outs []*Outcome
	var toks []string
	for i := 0; i < sc.I("handlers"); i++ {
		t := Tok("v")
		c.RevSvc.Hold(t + ".r0") // RHold waits for its gate only, not for its context
		outs = append(outs, Go(t, func() (string, error) { return c.Rev(bg, t, 1, 4) }))
		if !c.RevSvc.WaitEntered(t+".r0", core.Grace) {
			r.Inconclusive("reverse handler never entered")
			return
		}
		toks = append(toks, t)
	}
	done := make(chan struct{})
	go func() { c.Close(); close(done) }()
	if !core.WaitCh(done, core.Grace) {
		r.Violate("closer-hang:busy-reverse-handler", "the closer did not return within %v while %d client-side handler(s) of reverse calls were still busy (they ignore their cancelled context)", core.Grace, len(toks))
	}
	for _, o := range outs {
		if !o.Wait(core.Grace) {
			r.Violate("call-blocked-after-close", "forward call %s (its handler is waiting for a reverse call) did not return after the client was closed", o.Tok)
		} else if o.Err == nil {
			r.Violate("call-blocked-after-close", "forward call %s returned %q without error although the client was closed while its reverse call was being served", o.Tok, core.Trunc(o.Val, 40))
		}
	}
	lt := Tok("l")
	lo := Go(lt, func() (string, error) { return c.Echo(bg, lt, "") })
	if !lo.Wait(core.Grace) {
		r.Violate("late-call-blocked", "a call issued after the closer was invoked did not return")
	} else if lo.Err == nil {
		r.Violate("late-call-succeeded", "a call issued after close succeeded")
	}
	for _, t := range toks {
		c.RevSvc.Release(t + ".r0")
	}
	r.Key(fmt.Sprintf("busy-reverse-handler n=%d", len(toks)), true)
	r.Obs("closes", 1)
	r.Sig(core.Log.Signature())
	r.Sample(map[string]interface{}{"scenario": "close while client-side handlers of reverse calls are busy and ignore cancellation", "handlers": len(toks)})
}
