package props

import (
	"github.com/filecoin-project/go-jsonrpc/auth"
	"net/http"

	"context"
	"fmt"
	"github.com/gorilla/websocket"
	"strings"
	"time"

	jsonrpc "github.com/filecoin-project/go-jsonrpc"

	"vharness/core"
	"vharness/svc"
	"vharness/wsproxy"
)

// C06 – cancellation reaches exactly the cancelled call's handler.

type c06 struct{}

func init() { core.Register(c06{}) }

func (c06) ID() string    { return "C06" }
func (c06) Level() string { return "exploration" }
func (c06) Race() bool    { return true }
func (c06) Rule() string {
	return "populations of K held unary calls + S open subscriptions (K+S<=4 exhaustive over every non-empty cancelled subset, larger ones seeded) on one or two connections (same request ids on both), cancellation instants {context cancelled before the call, after the handler entered, racing the handler's release, after unrelated calls completed, after the subscription call returned, window W3: cancel parked until the response was delivered} x {ws, http}. Distinct = (transport, K, S, clients, subset, instant); non-trivial = at least 2 handler contexts live when the cancel was issued, or the pre-cancelled case. Oracle: handlers publish their ctx; on ws 'delivered' is logical (the proxy saw the xrpc.cancel frame for that id and a later probe round-tripped through the sequential executor); then ctx.Err() must be non-nil exactly for the cancelled tokens and nil for all others, which must also see a live ctx when they finish."
}
func (c06) Assumptions() []string {
	return []string{"over http the server learns of the abort asynchronously from net/http: bounded by the 8 s scheduling grace"}
}

func (c06) Plan(tier string, seed int64) []core.Scenario {
	var out []core.Scenario
	pops := [][2]int{{1, 0}, {2, 0}, {1, 1}, {0, 2}, {3, 0}, {2, 1}, {2, 2}, {3, 1}, {0, 1}, {1, 2}}
	for _, p := range pops {
		n := p[0] + p[1]
		for mask := 1; mask < 1<<n; mask++ {
			for _, inst := range []int{1, 2, 4} {
				for clients := 1; clients <= 2; clients++ {
					if clients == 2 && (n < 2 || (tier != "thorough" && (mask+inst)%3 != 0)) {
						continue
					}
					out = append(out, core.Sc("cancel").WithS("transport", "ws").WithN("k", p[0]).WithN("s", p[1]).WithN("mask", mask).WithN("inst", inst).WithN("clients", clients))
				}
			}
		}
	}
	for _, k := range []int{1, 2, 3} {
		for mask := 1; mask < 1<<k; mask++ {
			for _, inst := range []int{1, 4} {
				out = append(out, core.Sc("cancel").WithS("transport", "http").WithN("k", k).WithN("s", 0).WithN("mask", mask).WithN("inst", inst).WithN("clients", 1))
			}
		}
	}
	rng := core.Scenario{Seed: seed}.Rand()
	nBig := 10
	nW3 := 10
	if tier == "thorough" {
		nBig, nW3 = 300, 100
	}
	for i := 0; i < nBig; i++ {
		k, s := 3+rng.Intn(3), 1+rng.Intn(3)
		out = append(out, core.Sc("cancel").WithS("transport", "ws").WithN("k", k).WithN("s", s).WithN("mask", 1+rng.Intn(1<<(k+s)-1)).WithN("inst", []int{1, 2, 4}[rng.Intn(3)]).WithN("clients", 1+rng.Intn(2)))
	}
	nPre := 12
	if tier == "thorough" {
		nPre = 120
	}
	for _, tr := range []string{"ws", "http"} {
		for i := 0; i < nPre; i++ {
			if tr == "http" && i >= 4 {
				break
			}
			// reps: the cancel frame travels right behind its request; each scenario repeats the race
			out = append(out, core.Sc("precancelled").WithS("transport", tr).WithN("others", i%4).WithN("reps", 12).WithN("atenqueue", i%2))
		}
	}
	for i := 0; i < nW3; i++ {
		out = append(out, core.Sc("w3").WithN("others", 1+i%3))
	}
	nSI := 6
	if tier == "thorough" {
		nSI = 60
	}
	for i := 0; i < nSI; i++ {
		out = append(out, core.Sc("sub-inflight").WithN("others", i%3).WithN("pre", i%2))
	}
	nCh := 8
	if tier == "thorough" {
		nCh = 120
	}
	for i := 0; i < nCh; i++ {
		out = append(out, core.Sc("churn").WithN("long", 1+i%3).WithN("rounds", 2+i%4).WithN("unary", i%2))
	}
	for f := 1; f < len(c01Formatters); f++ {
		for _, tr := range []string{"ws", "http"} {
			out = append(out, core.Sc("cancel").WithS("transport", tr).WithN("k", 2).WithN("s", map[string]int{"ws": 1, "http": 0}[tr]).WithN("mask", 1+f%3).WithN("inst", 1).WithN("clients", 1).WithN("fmt", f))
		}
	}
	for i, tr := range []string{"ws", "http"} {
		out = append(out, core.Sc("behind-auth").WithS("transport", tr).WithN("token", 1).WithN("i", i))
	}
	for set := 0; set < 6; set++ {
		for order := 0; order < 2; order++ {
			out = append(out, core.Sc("rawids").WithN("set", set).WithN("order", order))
		}
	}
	// cancellation on a connection that has been re-established once or twice
	for i := 0; i < 3; i++ {
		out = append(out, core.Sc("cancel-after-reconnect").WithN("fk", i%2).WithN("losses", 1+i%2).WithN("noise", i%3))
	}
	// a cancel arriving while the handler of a notification on the same connection is still running
	for i := 0; i < 3; i++ {
		out = append(out, core.Sc("cancel-behind-notify").WithN("notes", 1+i).WithN("sub", i%2).WithN("noise", i%3))
	}
	// reverse calls on a re-established connection, cancelled after handlers that belong to the old connection finished
	for i := 0; i < 4; i++ {
		out = append(out, core.Sc("stale-reverse-cancel").WithN("fk", i%2).WithN("old", 1+i%3).WithN("order", i/2).WithN("noping", i%2))
	}
	for i := range out {
		out[i].Seed = seed*15485863 + int64(i)
		out[i] = out[i].WithN("noise", i%3)
	}
	return out
}

func (p c06) Run(sc core.Scenario) core.Result {
	r := core.NewR(sc)
	if sc.Kind == "cancel-after-reconnect" {
		p.cancelAfterReconnect(sc, r)
		return r.Result()
	}
	if sc.Kind == "cancel-behind-notify" {
		p.cancelBehindNotify(sc, r)
		return r.Result()
	}
	if sc.Kind == "stale-reverse-cancel" {
		p.staleReverseCancel(sc, r)
		return r.Result()
	}
	if sc.Kind == "behind-auth" {
		p.behindAuth(sc, r)
		return r.Result()
	}
	if sc.Kind == "rawids" {
		p.rawIDs(sc, r)
		return r.Result()
	}
	switch sc.Kind {
	case "cancel":
		p.cancel(sc, r)
	case "precancelled":
		p.pre(sc, r)
	case "w3":
		p.w3(sc, r)
	case "churn":
		p.churn(sc, r)
	case "sub-inflight":
		p.subInflight(sc, r)
	}
	return r.Result()
}

type member struct {
	tok    string
	sub    bool
	client int
	ctx    context.Context
	cancel context.CancelFunc
	out    *Outcome
}

// cancelFrameSeen: did the proxy see xrpc.cancel for the request that carried tok?
func cancelFrameSeen(px *wsproxy.Proxy, tok string) bool {
	frames := px.Frames()
	id, conn := "", 0
	for _, f := range frames {
		if f.Dir == wsproxy.C2S && f.Msg != nil && f.Msg.Token == tok && f.Msg.Method != "" && f.Msg.Method != "xrpc.cancel" {
			id, conn = f.Msg.ID, f.ConnN
		}
	}
	if id == "" {
		return false
	}
	for _, f := range frames {
		if f.Dir == wsproxy.C2S && f.ConnN == conn && f.Msg != nil && f.Msg.Method == "xrpc.cancel" && strings.TrimSpace(f.Msg.Params) == "["+id+"]" {
			return true
		}
	}
	return false
}

func (c06) cancel(sc core.Scenario, r *core.R) {
	tr := sc.Str("transport")
	k, s, mask, inst, nClients := sc.I("k"), sc.I("s"), sc.I("mask"), sc.I("inst"), sc.I("clients")
	var sopts []jsonrpc.ServerOption
	var copts []jsonrpc.Option
	if f := sc.I("fmt"); f > 0 {
		// the same non-default method name formatter on both sides
		sopts = append(sopts, jsonrpc.WithServerMethodNameFormatter(c01Formatters[f].f))
		copts = append(copts, jsonrpc.WithMethodNameFormatter(c01Formatters[f].f))
	}
	env := NewEnv(EnvOpt{ServerOpts: sopts})
	defer env.Shutdown()
	pol := noisePolicy(sc)
	defer pol.Install()()
	var cls []*Client
	for i := 0; i < nClients; i++ {
		c, err := env.NewClient(ClientOpt{Transport: tr, Opts: copts})
		if err != nil {
			r.Inconclusive("client: %v", err)
			return
		}
		cls = append(cls, c)
	}
	bg := context.Background()
	var ms []*member
	for i := 0; i < k+s; i++ {
		m := &member{tok: Tok("m"), sub: i >= k, client: i % nClients}
		m.ctx, m.cancel = context.WithCancel(bg)
		defer m.cancel()
		ms = append(ms, m)
		cl := cls[m.client]
		mm := m
		if m.sub {
			m.out = Go(m.tok, func() (string, error) {
				ch, err := cl.Sub(mm.ctx, mm.tok, 2, svc.SUntilCtx)
				if err != nil {
					return "", err
				}
				go func() {
					for range ch {
					}
				}()
				return "SUB", nil
			})
		} else {
			env.Svc.Hold(m.tok)
			m.out = Go(m.tok, func() (string, error) { return cl.Echo(mm.ctx, mm.tok, "") })
		}
	}
	for _, m := range ms {
		if !env.Svc.WaitEntered(m.tok, core.Grace) {
			r.Inconclusive("member %s never reached its handler", m.tok)
			return
		}
		if m.sub && !m.out.Wait(core.Grace) {
			r.Inconclusive("subscription call %s did not return", m.tok)
			return
		}
	}
	if inst == 4 {
		// unrelated calls complete on every connection: completion of A must not cancel B
		for _, cl := range cls {
			for i := 0; i < 4; i++ {
				t := Tok("o")
				if v, err := cl.Echo(bg, t, ""); err != nil || v != svc.Reply(t) {
					r.Violate("unrelated-call-failed", "unrelated call failed while others are held: %v", err)
				}
			}
		}
	}
	live := 0
	for _, m := range ms {
		if env.Svc.Get(m.tok).Ctx.Err() == nil {
			live++
		} else {
			r.Violate("cancelled-while-inflight", "%s: handler context of %s is already done before anybody cancelled (sub=%v)", tr, m.tok, m.sub)
		}
	}
	var cancelled, kept []*member
	for i, m := range ms {
		if mask&(1<<i) != 0 {
			cancelled = append(cancelled, m)
		} else {
			kept = append(kept, m)
		}
	}
	for _, m := range cancelled {
		m.cancel()
		if inst == 2 && !m.sub {
			env.Svc.Release(m.tok) // race the handler's completion with the cancel
		}
	}
	if tr == "ws" {
		sawFrame := map[string]bool{}
		if inst != 2 {
			for _, m := range cancelled {
				m := m
				// the cancel message is identified on the wire; should its wire form ever change, the handler
				// context getting cancelled is accepted as proof of delivery just as well
				sawFrame[m.tok] = core.Eventually(core.Grace, func() bool {
					return cancelFrameSeen(env.Px, m.tok) || env.Svc.Get(m.tok).Ctx.Err() != nil
				})
				if !sawFrame[m.tok] {
					r.Violate("cancel-not-sent", "ws: after the context of %s (sub=%v) was cancelled neither a cancel message for its request reached the wire nor was its handler context cancelled; events: %s", m.tok, m.sub, core.Log.Tail(30))
				}
			}
		}
		// a probe issued now is executed after the cancel frames (sequential executor)
		for _, cl := range cls {
			t := Tok("p")
			if v, err := cl.Echo(bg, t, ""); err != nil || v != svc.Reply(t) {
				r.Violate("probe-failed", "probe after cancel failed: %v", err)
			}
		}
		if inst != 2 {
			for _, m := range cancelled {
				if env.Svc.Get(m.tok).Ctx.Err() == nil {
					r.Violate("cancel-not-delivered", "ws: the cancel frame for %s (sub=%v) was executed before a later probe, yet its handler context is still live", m.tok, m.sub)
				}
			}
		}
	} else {
		for _, m := range cancelled {
			m := m
			if !core.Eventually(core.Grace, func() bool { return env.Svc.Get(m.tok).Ctx.Err() != nil }) {
				r.Violate("cancel-not-delivered", "http: handler context of aborted call %s still live after the grace period", m.tok)
			}
		}
	}
	for _, m := range kept {
		if env.Svc.Get(m.tok).Ctx.Err() != nil {
			r.Violate("foreign-cancel", "%s: cancelling %d other call(s) cancelled the handler context of %s (sub=%v, client %d of %d)", tr, len(cancelled), m.tok, m.sub, m.client, nClients)
		}
	}
	// cancelled callers return
	for _, m := range cancelled {
		if !m.out.Wait(core.Grace) {
			r.Violate("cancelled-call-hang", "%s: cancelled call %s never returned", tr, m.tok)
		}
	}
	// kept members finish normally and never saw a dead context
	for _, m := range kept {
		if m.sub {
			continue
		}
		env.Svc.Release(m.tok)
		if !m.out.Wait(core.Grace) {
			r.Violate("kept-call-hang", "%s: uncancelled call %s never returned", tr, m.tok)
			continue
		}
		if m.out.Err != nil || m.out.Val != svc.Reply(m.tok) {
			r.Violate("kept-call-failed", "%s: uncancelled call %s returned (%q, %v)", tr, m.tok, m.out.Val, m.out.Err)
		}
		if e := env.Svc.Get(m.tok).CtxErrAtExit; e != nil {
			r.Violate("cancelled-while-inflight", "%s: uncancelled call %s saw ctx error %v when it finished", tr, m.tok, e)
		}
	}
	for _, m := range kept {
		if m.sub && env.Svc.Get(m.tok).Ctx.Err() != nil {
			r.Violate("foreign-cancel", "%s: open subscription %s lost its context although nobody cancelled it", tr, m.tok)
		}
	}
	r.Key(fmt.Sprintf("%s k=%d s=%d clients=%d mask=%d inst=%d fmt=%d", tr, k, s, nClients, mask, inst, sc.I("fmt")), live >= 2)
	r.Obs("contexts_live_at_cancel", int64(live))
	r.Obs("cancelled", int64(len(cancelled)))
	r.Sig(core.Log.Signature())
	r.Sample(map[string]interface{}{"transport": tr, "unary": k, "subscriptions": s, "clients": nClients, "cancelled_mask": mask, "instant": map[int]string{1: "after handler entered", 2: "racing the release", 4: "after unrelated calls completed"}[inst]})
}

func (c06) pre(sc core.Scenario, r *core.R) {
	tr := sc.Str("transport")
	env := NewEnv(EnvOpt{})
	defer env.Shutdown()
	pol := noisePolicy(sc)
	defer pol.Install()()
	cl, err := env.NewClient(ClientOpt{Transport: tr})
	if err != nil {
		r.Inconclusive("client: %v", err)
		return
	}
	bg := context.Background()
	var others []*member
	for i := 0; i < sc.I("others"); i++ {
		m := &member{tok: Tok("o")}
		env.Svc.Hold(m.tok)
		mm := m
		m.out = Go(m.tok, func() (string, error) { return cl.Echo(bg, mm.tok, "") })
		env.Svc.WaitEntered(m.tok, core.Grace)
		others = append(others, m)
	}
	reps := sc.I("reps")
	if reps == 0 {
		reps = 1
	}
	var t string
	for rep := 0; rep < reps && !r.Violated(); rep++ {
		ctx, cancel := context.WithCancel(bg)
		if sc.I("atenqueue") == 1 && tr == "ws" {
			// cancel the instant the request has been handed to the connection loop
			before := pol.Count("cl.enqueue.after", 0)
			go func() {
				pol.WaitPoint("cl.enqueue.after", 0, before, time.Second)
				cancel()
			}()
		} else {
			cancel()
		}
		t = Tok("x")
		env.Svc.Hold(t)
		tt := t
		o := Go(tt, func() (string, error) { return cl.Echo(ctx, tt, "") })
		if !o.Wait(core.Grace) {
			r.Violate("cancelled-call-hang", "%s: call cancelled before / right at sending never returned (its handler is still held: the cancel did not reach it); events: %s", tr, core.Log.Tail(30))
		}
		if env.Svc.Enters(tt) > 0 {
			if !core.Eventually(core.Grace, func() bool { return env.Svc.Get(tt).Ctx.Err() != nil }) {
				r.Violate("cancel-not-delivered", "%s: handler of a call cancelled before / right at sending ran with a context that never got cancelled", tr)
			}
		}
		cancel()
		r.Obs("precancelled", 1)
	}
	if tr == "ws" {
		p := Tok("p")
		cl.Echo(bg, p, "")
	}
	for _, m := range others {
		if env.Svc.Get(m.tok).Ctx.Err() != nil {
			r.Violate("foreign-cancel", "%s: a pre-cancelled call cancelled the context of another in-flight call %s", tr, m.tok)
		}
		env.Svc.Release(m.tok)
		if !m.out.Wait(core.Grace) || m.out.Err != nil {
			r.Violate("kept-call-failed", "%s: sibling of a pre-cancelled call failed: %v", tr, m.out.Err)
		}
	}
	r.Key(fmt.Sprintf("pre %s others=%d atenq=%d", tr, len(others), sc.I("atenqueue")), true)
	r.Sig(core.Log.Signature())
	r.Sample(map[string]interface{}{"transport": tr, "instant": "context cancelled before the call", "siblings": len(others), "handler_ran": env.Svc.Enters(t)})
}

// subInflight: a channel-returning call is cancelled while its handler has not yet returned the channel
// (slow set-up), or with a context that is already cancelled. The handler context must be cancelled and
// the call must return; siblings are untouched.
func (c06) subInflight(sc core.Scenario, r *core.R) {
	env := NewEnv(EnvOpt{})
	defer env.Shutdown()
	pol := noisePolicy(sc)
	defer pol.Install()()
	cl, err := env.NewClient(ClientOpt{})
	if err != nil {
		r.Inconclusive("client: %v", err)
		return
	}
	bg := context.Background()
	var others []*member
	for i := 0; i < sc.I("others"); i++ {
		m := &member{tok: Tok("o")}
		env.Svc.Hold(m.tok)
		mm := m
		m.out = Go(m.tok, func() (string, error) { return cl.Echo(bg, mm.tok, "") })
		env.Svc.WaitEntered(m.tok, core.Grace)
		others = append(others, m)
	}
	ctx, cancel := context.WithCancel(bg)
	defer cancel()
	if sc.I("pre") == 1 {
		cancel()
	}
	t := Tok("s")
	env.Svc.Hold(t)
	o := Go(t, func() (string, error) {
		ch, err := cl.Sub(ctx, t, 2, svc.SHoldBefore)
		if ch != nil {
			go func() {
				for range ch {
				}
			}()
		}
		return "", err
	})
	entered := env.Svc.WaitEntered(t, core.Grace)
	cancel()
	if entered {
		if !core.Eventually(core.Grace, func() bool { return env.Svc.Get(t).Ctx.Err() != nil }) {
			r.Violate("cancel-not-delivered", "the context of a channel-returning call was cancelled while its handler had not yet returned the channel, but the handler context stayed live; events: %s", core.Log.Tail(30))
		}
	}
	if !o.Wait(core.Grace) {
		r.Violate("cancelled-call-hang", "a channel-returning call cancelled before its handler returned the channel never returned")
	}
	for _, m := range others {
		if env.Svc.Get(m.tok).Ctx.Err() != nil {
			r.Violate("foreign-cancel", "cancelling an in-flight subscribing call cancelled sibling %s", m.tok)
		}
		env.Svc.Release(m.tok)
		if !m.out.Wait(core.Grace) || m.out.Err != nil {
			r.Violate("kept-call-failed", "sibling failed: %v", m.out.Err)
		}
	}
	env.Svc.ReleaseAll()
	r.Key(fmt.Sprintf("sub-inflight others=%d pre=%d", len(others), sc.I("pre")), true)
	r.Obs("cancelled", 1)
	r.Sig(core.Log.Signature())
	r.Sample(map[string]interface{}{"scenario": "channel-returning call cancelled before its handler returned the channel", "context_cancelled_before_call": sc.I("pre") == 1, "siblings": len(others)})
}

// churn: short subscriptions are opened and closed by their handlers, one after another, while long-lived
// subscriptions (and a held unary call) stay open on the same connection. Nobody cancels the long-lived
// ones, so their handler contexts must stay live throughout; cancelling them at the end must work.
func (c06) churn(sc core.Scenario, r *core.R) {
	env := NewEnv(EnvOpt{})
	defer env.Shutdown()
	pol := noisePolicy(sc)
	defer pol.Install()()
	cl, err := env.NewClient(ClientOpt{})
	if err != nil {
		r.Inconclusive("client: %v", err)
		return
	}
	bg := context.Background()
	type long struct {
		tok    string
		cancel context.CancelFunc
	}
	var longs []long
	openLong := func() {
		ctx, cancel := context.WithCancel(bg)
		t := Tok("L")
		sub := cl.Sub
		if len(longs)%2 == 1 {
			sub = cl.SubNE // a handler method that returns only a channel
		}
		ch, err := sub(ctx, t, 1, svc.SUntilCtx)
		if err != nil {
			r.Violate("subscribe-failed", "long-lived subscription failed: %v", err)
			cancel()
			return
		}
		go func() {
			for range ch {
			}
		}()
		longs = append(longs, long{t, cancel})
	}
	short := func() {
		t := Tok("S")
		ch, err := cl.Sub(bg, t, 2, svc.SGoroutine)
		if err != nil {
			r.Violate("subscribe-failed", "short subscription failed: %v", err)
			return
		}
		g := drainItems(ch, 0, -1, nil)
		if !core.WaitCh(g.done, core.Grace) {
			r.Violate("kept-call-hang", "short subscription did not close")
		}
	}
	var held *member
	if sc.I("unary") == 1 {
		held = &member{tok: Tok("u")}
		env.Svc.Hold(held.tok)
		held.out = Go(held.tok, func() (string, error) { return cl.Echo(bg, held.tok, "") })
		env.Svc.WaitEntered(held.tok, core.Grace)
	}
	checkLive := func(when string) {
		for _, l := range longs {
			if env.Svc.Get(l.tok).Ctx.Err() != nil {
				r.Violate("cancelled-while-inflight", "churn: the handler context of open subscription %s was cancelled %s although nobody cancelled it", l.tok, when)
			}
		}
		if held != nil && env.Svc.Get(held.tok).Ctx.Err() != nil {
			r.Violate("cancelled-while-inflight", "churn: the handler context of in-flight call %s was cancelled %s although nobody cancelled it", held.tok, when)
		}
	}
	short()
	for i := 0; i < sc.I("long"); i++ {
		openLong()
		for _, l := range longs {
			env.Svc.WaitEntered(l.tok, core.Grace)
		}
		short()
		checkLive("after a short subscription was closed by its handler")
	}
	for i := 0; i < sc.I("rounds"); i++ {
		short()
		p := Tok("p")
		cl.Echo(bg, p, "")
		checkLive(fmt.Sprintf("after %d short subscriptions came and went", i+2))
	}
	// now cancel them one by one: exactly that one goes
	for i, l := range longs {
		l.cancel()
		ll := l
		if !core.Eventually(core.Grace, func() bool { return env.Svc.Get(ll.tok).Ctx.Err() != nil }) {
			r.Violate("cancel-not-delivered", "churn: cancelling long-lived subscription %s did not cancel its handler context", l.tok)
		}
		for _, o := range longs[i+1:] {
			if env.Svc.Get(o.tok).Ctx.Err() != nil {
				r.Violate("foreign-cancel", "churn: cancelling %s also cancelled %s", l.tok, o.tok)
			}
		}
	}
	if held != nil {
		if env.Svc.Get(held.tok).Ctx.Err() != nil {
			r.Violate("foreign-cancel", "churn: cancelling subscriptions cancelled the in-flight call %s", held.tok)
		}
		env.Svc.Release(held.tok)
		if !held.out.Wait(core.Grace) || held.out.Err != nil {
			r.Violate("kept-call-failed", "churn: held call failed: %v", held.out.Err)
		}
	}
	r.Key(fmt.Sprintf("churn long=%d rounds=%d unary=%d", sc.I("long"), sc.I("rounds"), sc.I("unary")), true)
	r.Obs("contexts_live_at_cancel", int64(len(longs)))
	r.Sig(core.Log.Signature())
	r.Sample(map[string]interface{}{"scenario": "short subscriptions come and go around long-lived ones", "long_lived": len(longs), "rounds": sc.I("rounds")})
}

// w3: the cancel is parked (cl.cancel.before) until the response has been delivered.
func (c06) w3(sc core.Scenario, r *core.R) {
	env := NewEnv(EnvOpt{})
	defer env.Shutdown()
	pol := noisePolicy(sc)
	pol.Rules = append(pol.Rules, &core.Rule{Point: "cl.cancel.before", Occ: 1, Do: func(jsonrpc.VerifEvent) {
		pol.WaitPoint("ws.resp.deliver.after", 1, pol.Count("ws.resp.deliver.after", 1), 300*time.Millisecond)
	}})
	defer pol.Install()()
	cl, err := env.NewClient(ClientOpt{})
	if err != nil {
		r.Inconclusive("client: %v", err)
		return
	}
	bg := context.Background()
	var others []*member
	for i := 0; i < sc.I("others"); i++ {
		m := &member{tok: Tok("o")}
		env.Svc.Hold(m.tok)
		mm := m
		m.out = Go(m.tok, func() (string, error) { return cl.Echo(bg, mm.tok, "") })
		env.Svc.WaitEntered(m.tok, core.Grace)
		others = append(others, m)
	}
	ctx, cancel := context.WithCancel(bg)
	defer cancel()
	t := Tok("x")
	env.Svc.Hold(t)
	o := Go(t, func() (string, error) { return cl.Echo(ctx, t, "") })
	env.Svc.WaitEntered(t, core.Grace)
	cancel()
	pol.WaitPoint("cl.cancel.before", 0, 0, core.Grace)
	env.Svc.Release(t) // the response now overtakes the parked cancel
	if !o.Wait(core.Grace) {
		r.Violate("cancelled-call-hang", "w3: call whose cancel was overtaken by its response never returned; events: %s", core.Log.Tail(30))
	}
	// new calls get fresh ids; a late cancel for the old id must not hit anything
	for i := 0; i < 3; i++ {
		p := Tok("p")
		if v, err := cl.Echo(bg, p, ""); err != nil || v != svc.Reply(p) {
			r.Violate("probe-failed", "w3: probe failed: %v", err)
		}
	}
	for _, m := range others {
		if env.Svc.Get(m.tok).Ctx.Err() != nil {
			r.Violate("foreign-cancel", "w3: a late cancel cancelled the context of another in-flight call %s", m.tok)
		}
		env.Svc.Release(m.tok)
		if !m.out.Wait(core.Grace) || m.out.Err != nil || m.out.Val != svc.Reply(m.tok) {
			r.Violate("kept-call-failed", "w3: sibling call failed: %v", m.out.Err)
		}
		if e := env.Svc.Get(m.tok).CtxErrAtExit; e != nil {
			r.Violate("cancelled-while-inflight", "w3: sibling %s saw ctx error %v", m.tok, e)
		}
	}
	formed := pol.Count("cl.cancel.before", 0) > 0
	r.Key(fmt.Sprintf("w3 others=%d formed=%v", len(others), formed), formed)
	r.Obs("w3_formed", b2i(formed))
	r.Sig(core.Log.Signature())
	r.Sample(map[string]interface{}{"window": "cancel parked until the response was delivered", "siblings": len(others), "formed": formed})
}

// rawIDs: a peer that is not this library's client has several calls in flight whose ids are different
// JSON values that look alike (7 and "7", 1.5 and "1.5", "" and 0) and cancels some of them by id.
// Exactly the handlers of the cancelled ids see their context cancelled.
func (c06) rawIDs(sc core.Scenario, r *core.R) {
	env := NewEnv(EnvOpt{NoProxy: true})
	defer env.Shutdown()
	conn, _, err := websocket.DefaultDialer.Dial("ws://"+env.TS.Listener.Addr().String(), http.Header{})
	if err != nil {
		r.Inconclusive("dial: %v", err)
		return
	}
	defer conn.Close()
	go func() {
		for {
			if _, _, err := conn.ReadMessage(); err != nil {
				return
			}
		}
	}()
	sets := [][]string{{`7`, `"7"`}, {`"7"`, `7`}, {`1.5`, `"1.5"`, `15`}, {`""`, `0`, `"0"`}, {`"null"`, `"true"`, `1`}, {`100`, `"1e2"`, `"100"`}}
	ids := sets[sc.I("set")%len(sets)]
	toks := make([]string, len(ids))
	for i, id := range ids {
		toks[i] = Tok("h")
		env.Svc.Hold(toks[i])
		req := fmt.Sprintf(`{"jsonrpc":"2.0","id":%s,"method":"S.Echo","params":[%q,""]}`, id, toks[i])
		if err := conn.WriteMessage(websocket.TextMessage, []byte(req)); err != nil {
			r.Inconclusive("write: %v", err)
			return
		}
	}
	for _, t := range toks {
		if !env.Svc.WaitEntered(t, core.Grace) {
			r.Inconclusive("handler %s not entered", t)
			return
		}
	}
	// cancel in the order given by "order": one id at a time, checking after each that only it was cancelled
	cancelled := map[int]bool{}
	for step := 0; step < len(ids)-1; step++ {
		i := (sc.I("order") + step) % len(ids)
		conn.WriteMessage(websocket.TextMessage, []byte(fmt.Sprintf(`{"jsonrpc":"2.0","method":"xrpc.cancel","params":[%s]}`, ids[i])))
		cancelled[i] = true
		r.Obs("raw_cancels", 1)
		if !core.Eventually(core.Grace, func() bool { return env.Svc.Get(toks[i]).Ctx.Err() != nil }) {
			r.Violate("cancel-not-delivered:raw-id", "calls in flight with ids %v; xrpc.cancel [%s] did not cancel the handler of the call with that id", ids, ids[i])
		}
		time.Sleep(20 * time.Millisecond)
		for j := range ids {
			if !cancelled[j] && env.Svc.Get(toks[j]).Ctx.Err() != nil {
				r.Violate("cancel-hit-bystander:raw-id", "calls in flight with ids %v; after xrpc.cancel for %v the handler of the call with id %s (never cancelled) saw its context cancelled", ids, ids[i], ids[j])
				cancelled[j] = true
			}
		}
	}
	env.Svc.ReleaseAll()
	r.Key(fmt.Sprintf("rawids set=%d order=%d", sc.I("set")%len(sets), sc.I("order")), true)
	r.Sample(map[string]interface{}{"scenario": "look-alike ids of different JSON type in flight, cancelled one by one by a raw websocket peer", "ids": ids})
}

// behindAuth: the server is mounted behind auth.Handler and the client presents a token that verifies. A
// call and a subscription that last longer than any internal verification deadline (6 s here) must not see
// their handler contexts cancelled: nobody cancelled and the connection is healthy.
func (c06) behindAuth(sc core.Scenario, r *core.R) {
	tr := sc.Str("transport")
	env := NewEnv(EnvOpt{Wrap: func(next http.Handler) http.Handler {
		return &auth.Handler{
			Verify: func(ctx context.Context, token string) ([]auth.Permission, error) {
				return []auth.Permission{"read", "write"}, nil
			},
			Next: next.ServeHTTP,
		}
	}})
	defer env.Shutdown()
	cl, err := env.NewClient(ClientOpt{Transport: tr, Header: http.Header{"Authorization": []string{"Bearer tok"}}})
	if err != nil {
		r.Inconclusive("client: %v", err)
		return
	}
	bg := context.Background()
	t := Tok("h")
	env.Svc.Hold(t)
	o := Go(t, func() (string, error) { return cl.Echo(bg, t, "") })
	if !env.Svc.WaitEntered(t, core.Grace) {
		r.Inconclusive("held call never entered")
		return
	}
	var g *got
	ts := Tok("s")
	if tr == "ws" {
		if ch, err := cl.Sub(bg, ts, 0, svc.SInfinite); err == nil {
			g = drainItems(ch, time.Millisecond, -1, nil)
		}
	}
	time.Sleep(6 * time.Second)
	where := fmt.Sprintf("%s server behind auth.Handler, verified token, 6 s into a call nobody cancelled", tr)
	if env.Svc.Get(t).Ctx.Err() != nil {
		r.Violate("spurious-cancel:auth", "%s: the handler's context is cancelled (%v)", where, env.Svc.Get(t).Ctx.Err())
	}
	if o.Returned() {
		r.Violate("spurious-cancel:auth", "%s: the held call already returned (%q, %v)", where, o.Val, o.Err)
	}
	if g != nil && g.isClosed() {
		r.Violate("spurious-cancel:auth", "%s: an open subscription was closed", where)
	}
	env.Svc.ReleaseAll()
	if !o.Wait(core.Grace) || o.Err != nil || o.Val != svc.Reply(t) {
		r.Violate("spurious-cancel:auth", "%s: the call did not complete normally after release: (%q, %v)", where, o.Val, o.Err)
	}
	r.Key("behind-auth "+tr, true)
	r.Obs("contexts_live_at_cancel", 1)
	r.Sample(map[string]interface{}{"scenario": where})
}

// staleReverseCancel: client-side handlers of reverse calls are still running (they ignore their context)
// when the connection breaks and is re-established; the server makes new reverse calls on the new
// connection (numbered from 1 again), the old handlers finish, and then the new reverse calls are
// cancelled by their callers. The cancellation must reach the handlers of the new calls; a new call that
// is not cancelled must keep a live context.
func (c06) staleReverseCancel(sc core.Scenario, r *core.R) {
	kind := []string{wsproxy.RST, wsproxy.FIN}[sc.I("fk")]
	nOld := sc.I("old")
	env := NewEnv(EnvOpt{Rev: true})
	defer env.Shutdown()
	copts := []jsonrpc.Option{jsonrpc.WithReconnectBackoff(5*time.Millisecond, 20*time.Millisecond)}
	if sc.I("noping") == 1 {
		copts = append(copts, jsonrpc.WithPingInterval(0))
	}
	c, err := env.NewClient(ClientOpt{RevIdent: "A", Opts: copts})
	if err != nil {
		r.Inconclusive("client: %v", err)
		return
	}
	bg := context.Background()
	var oldToks []string
	for i := 0; i < nOld; i++ {
		t := Tok("o")
		c.RevSvc.Hold(t + ".r0")
		go c.Rev(bg, t, 1, 4)
		if !c.RevSvc.WaitEntered(t+".r0", core.Grace) {
			r.Inconclusive("old reverse handler never entered")
			return
		}
		oldToks = append(oldToks, t)
	}
	env.Px.KillAll(kind)
	if !probeUntilHealthy(c, r, 2*core.Grace) {
		r.Inconclusive("link never healthy again")
		return
	}
	type nc struct {
		tok    string
		cancel context.CancelFunc
		out    *Outcome
	}
	var news []nc
	for i := 0; i < nOld+1; i++ {
		t := Tok("n")
		ctx, cancel := context.WithCancel(bg)
		defer cancel()
		c.RevSvc.Hold(t + ".r0")
		o := Go(t, func() (string, error) { return c.Rev(ctx, t, 1, 4) })
		if !c.RevSvc.WaitEntered(t+".r0", core.Grace) {
			r.Inconclusive("new reverse handler never entered")
			return
		}
		news = append(news, nc{t, cancel, o})
	}
	release := func() {
		for _, t := range oldToks {
			c.RevSvc.Release(t + ".r0")
		}
		for _, t := range oldToks {
			core.WaitCh(c.RevSvc.ExitedCh(t+".r0"), core.Grace)
		}
		time.Sleep(20 * time.Millisecond)
	}
	if sc.I("order") == 0 {
		release() // the stale handlers finish first, then the new calls are cancelled
	}
	// all but the last new call are cancelled
	for _, n := range news[:len(news)-1] {
		n.cancel()
	}
	for _, n := range news[:len(news)-1] {
		rec := c.RevSvc.Get(n.tok + ".r0")
		ok := false
		deadline := time.Now().Add(core.Grace)
		for time.Now().Before(deadline) {
			if rec.Ctx != nil && rec.Ctx.Err() != nil {
				ok = true
				break
			}
			time.Sleep(2 * time.Millisecond)
		}
		if !ok {
			r.Violate("cancel-not-delivered:stale-reverse", "reverse call %s.r0 made on the re-established connection (%s, %d handlers of the old connection finished %s) was cancelled by its caller, but the context of its client-side handler is still live", n.tok, kind, nOld, []string{"before the cancel", "after the cancel"}[sc.I("order")])
		}
	}
	if sc.I("order") == 1 {
		release()
	}
	last := news[len(news)-1]
	if rec := c.RevSvc.Get(last.tok + ".r0"); rec.Ctx != nil && rec.Ctx.Err() != nil {
		r.Violate("cancel-hit-bystander:stale-reverse", "the handler context of reverse call %s.r0, which nobody cancelled, was cancelled (%v) when handlers of the old connection finished / siblings were cancelled", last.tok, rec.Ctx.Err())
	}
	for _, n := range news {
		c.RevSvc.Release(n.tok + ".r0")
	}
	if !last.out.Wait(core.Grace) {
		r.Violate("cancelled-call-hang:stale-reverse", "the uncancelled forward call with a nested reverse call never returned")
	} else if last.out.Err != nil || last.out.Val != "A/"+last.tok+".r0" {
		r.Violate("spurious-cancel:stale-reverse", "the uncancelled reverse call returned %q, %v", last.out.Val, last.out.Err)
	}
	r.Key(fmt.Sprintf("stale-reverse-cancel %s old=%d order=%d", kind, nOld, sc.I("order")), true)
	r.Obs("reverse_calls", int64(2*nOld+1))
	r.Sig(core.Log.Signature())
	r.Sample(map[string]interface{}{"scenario": "reverse calls on a re-established connection cancelled around the end of handlers of the old connection", "old_handlers": nOld, "order": sc.I("order")})
}

// cancelBehindNotify: one or more notifications whose handlers are still running (held) on a ws connection;
// an in-flight call (and optionally an open subscription) on the same connection is cancelled. The
// cancellation must reach its handler while the notification handlers are still busy, and a later call must
// be served meanwhile.
func (c06) cancelBehindNotify(sc core.Scenario, r *core.R) {
	env := NewEnv(EnvOpt{})
	defer env.Shutdown()
	defer noisePolicy(sc).Install()()
	cl, err := env.NewClient(ClientOpt{})
	if err != nil {
		r.Inconclusive("client: %v", err)
		return
	}
	bg := context.Background()
	// the call that will be cancelled is in flight first
	ct := Tok("c")
	env.Svc.Hold(ct)
	cctx, ccancel := context.WithCancel(bg)
	defer ccancel()
	co := Go(ct, func() (string, error) { return cl.Echo(cctx, ct, "") })
	if !env.Svc.WaitEntered(ct, core.Grace) {
		r.Inconclusive("call never reached its handler")
		return
	}
	var sg *got
	st := Tok("s")
	sctx, scancel := context.WithCancel(bg)
	defer scancel()
	if sc.I("sub") == 1 {
		ch, err := cl.Sub(sctx, st, 0, svc.SInfinite)
		if err != nil {
			r.Inconclusive("subscribe: %v", err)
			return
		}
		sg = drainItems(ch, 0, -1, nil)
	}
	var notes []string
	for i := 0; i < sc.I("notes"); i++ {
		nt := Tok("n")
		env.Svc.Hold(nt)
		if err := cl.Note(bg, nt); err != nil {
			r.Inconclusive("notify: %v", err)
			return
		}
		notes = append(notes, nt)
	}
	if !env.Svc.WaitEntered(notes[0], core.Grace) {
		r.Inconclusive("notification handler never entered")
		return
	}
	ccancel()
	scancel()
	select {
	case <-env.Svc.ExitedCh(ct):
	case <-time.After(core.Grace):
		r.Violate("cancel-not-delivered:behind-notify", "the context of call %s was cancelled by its caller while %d notification handler(s) on the same connection were still running: its handler's context is still live after %v", ct, len(notes), core.Grace)
	}
	if sg != nil {
		rec := env.Svc.Get(st)
		ok := false
		deadline := time.Now().Add(core.Grace)
		for time.Now().Before(deadline) {
			if rec.Ctx != nil && rec.Ctx.Err() != nil {
				ok = true
				break
			}
			time.Sleep(2 * time.Millisecond)
		}
		if !ok {
			r.Violate("cancel-not-delivered:behind-notify", "the subscription %s was cancelled by its caller while %d notification handler(s) were still running: its handler's context is still live", st, len(notes))
		}
	}
	// the notification handlers themselves must not have been cancelled by the sibling's cancel
	for _, nt := range notes {
		if rec := env.Svc.Get(nt); rec.Ctx != nil && rec.Ctx.Err() != nil {
			r.Violate("cancel-hit-bystander:behind-notify", "the context of the running notification handler %s was cancelled (%v) when a sibling call was cancelled", nt, rec.Ctx.Err())
		}
	}
	pt := Tok("p")
	po := Go(pt, func() (string, error) { return cl.Echo(bg, pt, "") })
	if !po.Wait(core.Grace) || po.Err != nil {
		r.Violate("cancelled-call-hang:behind-notify", "a plain call issued while %d notification handler(s) were running did not complete (returned=%v err=%v)", len(notes), po.Returned(), po.Err)
	}
	env.Svc.ReleaseAll()
	co.Wait(core.Grace)
	r.Key(fmt.Sprintf("cancel-behind-notify notes=%d sub=%d", len(notes), sc.I("sub")), true)
	r.Obs("notifications_running", int64(len(notes)))
	r.Sig(core.Log.Signature())
	r.Sample(map[string]interface{}{"scenario": "cancel while notification handlers on the same connection are running", "notifications": len(notes), "subscription": sc.I("sub") == 1})
}

// cancelAfterReconnect: the client loses its connection and re-establishes it (once or twice); then a call
// in flight and a subscription whose subscribing call has returned are cancelled on the new, healthy
// connection. Both handler contexts must be cancelled; an uncancelled sibling's must stay live.
func (c06) cancelAfterReconnect(sc core.Scenario, r *core.R) {
	kind := []string{wsproxy.RST, wsproxy.FIN}[sc.I("fk")]
	env := NewEnv(EnvOpt{})
	defer env.Shutdown()
	defer noisePolicy(sc).Install()()
	cl, err := env.NewClient(ClientOpt{Opts: []jsonrpc.Option{jsonrpc.WithReconnectBackoff(5*time.Millisecond, 20*time.Millisecond)}})
	if err != nil {
		r.Inconclusive("client: %v", err)
		return
	}
	bg := context.Background()
	// a subscription that dies with the first connection
	octx, ocancel := context.WithCancel(bg)
	defer ocancel()
	if ch, err := cl.Sub(octx, Tok("o"), 0, svc.SInfinite); err == nil {
		drainItems(ch, 0, -1, nil)
	}
	for i := 0; i < sc.I("losses"); i++ {
		env.Px.KillAll(kind)
		if !probeUntilHealthy(cl, r, 2*core.Grace) {
			r.Inconclusive("link never healthy again")
			return
		}
	}
	where := fmt.Sprintf("after %d x %s and a successful reconnect", sc.I("losses"), kind)
	st, kt, ct := Tok("s"), Tok("k"), Tok("c")
	sctx, scancel := context.WithCancel(bg)
	defer scancel()
	ch, err := cl.Sub(sctx, st, 0, svc.SInfinite)
	if err != nil {
		r.Violate("subscribe-failed", "%s: subscribing on the healthy connection failed: %v", where, err)
		return
	}
	sg := drainItems(ch, 0, -1, nil)
	kctx, kcancel := context.WithCancel(bg)
	defer kcancel()
	kch, err := cl.Sub(kctx, kt, 0, svc.SInfinite) // the sibling that is not cancelled
	if err != nil {
		r.Violate("subscribe-failed", "%s: subscribing on the healthy connection failed: %v", where, err)
		return
	}
	kg := drainItems(kch, 0, -1, nil)
	env.Svc.Hold(ct)
	cctx, ccancel := context.WithCancel(bg)
	defer ccancel()
	co := Go(ct, func() (string, error) { return cl.Echo(cctx, ct, "") })
	env.Svc.WaitEntered(ct, core.Grace)
	for sg.n() < 3 || kg.n() < 3 {
		if !core.Eventually(core.Grace, func() bool { return sg.n() >= 3 && kg.n() >= 3 }) {
			r.Violate("stream-stuck", "%s: subscriptions opened on the healthy connection deliver nothing", where)
			return
		}
	}
	scancel()
	ccancel()
	ctxDone := func(tok string) bool {
		return core.Eventually(core.Grace, func() bool {
			rec := env.Svc.Get(tok)
			return rec.Ctx != nil && rec.Ctx.Err() != nil
		})
	}
	if !ctxDone(st) {
		r.Violate("cancel-not-delivered:after-reconnect", "%s: subscription %s was cancelled by its caller after the subscribing call had returned, but its handler's context is still live (the handler keeps producing)", where, st)
	}
	if !ctxDone(ct) {
		r.Violate("cancel-not-delivered:after-reconnect", "%s: in-flight call %s was cancelled by its caller but its handler's context is still live", where, ct)
	}
	if !core.WaitCh(sg.done, core.Grace) {
		r.Violate("cancelled-call-hang:after-reconnect", "%s: the cancelled subscription's channel was not closed", where)
	}
	if rec := env.Svc.Get(kt); rec.Ctx != nil && rec.Ctx.Err() != nil {
		r.Violate("cancel-hit-bystander:after-reconnect", "%s: the context of the uncancelled subscription %s was cancelled (%v)", where, kt, rec.Ctx.Err())
	}
	n0 := kg.n()
	if !core.Eventually(core.Grace, func() bool { return kg.n() > n0 }) {
		r.Violate("cancel-hit-bystander:after-reconnect", "%s: the uncancelled subscription %s stopped delivering after its sibling was cancelled", where, kt)
	}
	co.Wait(core.Grace)
	r.Key(fmt.Sprintf("cancel-after-reconnect %s x%d", kind, sc.I("losses")), true)
	r.Obs("cancels", 2)
	r.Sig(core.Log.Signature())
	r.Sample(map[string]interface{}{"scenario": "cancel of a call and of a subscription on a re-established connection", "losses": sc.I("losses"), "kind": kind})
}
