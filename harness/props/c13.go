package props

import (
	"context"
	"encoding/json"
	"fmt"
	"io"
	"net/http"
	"net/http/httptest"
	"strings"
	"sync"
	"time"

	"github.com/gorilla/websocket"

	jsonrpc "github.com/filecoin-project/go-jsonrpc"

	"vharness/core"
	"vharness/svc"
)

// C13 – a panicking handler fails only its own call.

type c13 struct{}

func init() { core.Register(c13{}) }

func (c13) ID() string             { return "C13" }
func (c13) Level() string          { return "exploration" }
func (c13) Race() bool             { return false }
func (c13) MaxChildren(string) int { return 8 }
func (c13) Rule() string {
	return "the server lives in a host process. Panic payloads {string, error, nil-map write, nil dereference, index out of range, custom struct, panic(nil), 1 MiB string, pointer, value whose String() panics} x call kinds {unary over ws / http / custom, notification, channel-returning (panics before returning), reverse (client-side handler panics: the client host must survive)} x sibling mixes: healthy calls in flight and open streams on the same and on other connections across the panic. Distinct = (payload, call kind, transport, sibling mix); non-trivial = at least one sibling call or stream was alive across the panic. Oracle: host alive (exit status, stderr), the panicking caller's error mentions the panic (and the payload text for string/error payloads), siblings return their own tokens, streams deliver complete sequences, 20 follow-up calls succeed."
}
func (c13) Assumptions() []string {
	return []string{"siblings are kept in flight with handler-side delays (the handler object lives in the host process)"}
}

var c13Payload = []string{"string", "error", "nil-map write", "nil dereference", "index out of range", "custom struct", "panic(nil)", "1 MiB string", "pointer", "String() panics", "http.ErrAbortHandler", "codec-style API error", "error wrapping a codec-style API error"}
var c13Kinds = []string{"unary", "notification", "channel", "reverse", "custom", "after-cancel", "concurrent", "batch", "stalled-peer"}

func (c13) Plan(tier string, seed int64) []core.Scenario {
	var out []core.Scenario
	reps := 1
	if tier == "thorough" {
		reps = 12
	}
	for rep := 0; rep < reps; rep++ {
		for pk := range c13Payload {
			for _, ck := range c13Kinds {
				for _, tr := range []string{"ws", "http"} {
					if (ck == "channel" || ck == "reverse" || ck == "custom" || ck == "after-cancel" || ck == "concurrent" || ck == "stalled-peer") && tr == "http" {
						continue
					}
					if ck == "stalled-peer" && pk != 7 && pk != 0 {
						continue
					}
					if ck == "batch" && tr == "ws" {
						continue
					}
					if tier != "thorough" && ck == "custom" && pk%2 == 1 {
						continue
					}
					out = append(out, core.Sc("panic").WithN("payload", pk).WithS("kind", ck).WithS("transport", tr).WithN("mix", (pk+rep)%4).WithN("tracer", (pk/2+rep+len(ck))%2).WithN("copt", (pk+rep+len(ck)/2)%3))
				}
			}
		}
	}
	// the connection that saw a panic keeps working for as long as it is used: seconds and tens of seconds later
	out = append(out, core.Sc("panic-then-later").WithN("secs", 12).WithN("payload", 2))
	if tier == "thorough" {
		out = append(out, core.Sc("panic-then-later").WithN("secs", 35).WithN("payload", 0), core.Sc("panic-then-later").WithN("secs", 65).WithN("payload", 1))
	}
	for i := range out {
		out[i].Seed = seed*295075147 + int64(i)
	}
	return out
}

func mentionsPanic(err error, pk int, tok string) (bool, string) {
	if err == nil {
		return false, "error is nil"
	}
	msg := err.Error()
	if !strings.Contains(strings.ToLower(msg), "panic") {
		return false, "error does not mention the panic: " + core.Trunc(msg, 160)
	}
	switch pk {
	case 0:
		if !strings.Contains(msg, "boom:"+tok) {
			return false, "error lacks the string payload: " + core.Trunc(msg, 160)
		}
	case 1:
		if !strings.Contains(msg, "boomerr:"+tok) {
			return false, "error lacks the error payload's text: " + core.Trunc(msg, 160)
		}
	}
	return true, ""
}

// panicThenLater: one ws connection; a handler panics; the same connection is then used at a steady, slow
// pace for `secs` seconds (calls every 400 ms, a call that was in flight across the panic and is answered
// at the end, a stream at the end). All of it behaves as if the panic had not happened, and the connection
// is still the first one.
func (c13) panicThenLater(sc core.Scenario, r *core.R) {
	env := NewEnv(EnvOpt{})
	defer env.Shutdown()
	cl, err := env.NewClient(ClientOpt{})
	if err != nil {
		r.Inconclusive("client: %v", err)
		return
	}
	bg := context.Background()
	ht := Tok("h")
	env.Svc.Hold(ht)
	held := Go(ht, func() (string, error) { return cl.Echo(bg, ht, "") })
	env.Svc.WaitEntered(ht, core.Grace)
	pt := Tok("x")
	po := Go(pt, func() (string, error) { return cl.Boom(bg, pt, sc.I("payload")) })
	if !po.Wait(core.Grace) {
		r.Violate("panic-call-hang", "the panicking call never returned")
		return
	} else if ok, why := mentionsPanic(po.Err, sc.I("payload"), pt); !ok {
		r.Violate("panic-not-reported", "payload=%s: %s", c13Payload[sc.I("payload")], why)
	}
	start := time.Now()
	calls, failed := 0, 0
	for time.Since(start) < time.Duration(sc.I("secs"))*time.Second {
		t := Tok("l")
		o := Go(t, func() (string, error) { return cl.Echo(bg, t, "") })
		calls++
		if !o.Wait(core.Grace) || o.Err != nil || o.Val != svc.Reply(t) {
			failed++
			if failed <= 2 {
				r.Violate("followup-failed", "%.1f s after a handler panic a call on the same connection failed: returned=%v val=%q err=%v", time.Since(start).Seconds(), o.Returned(), core.Trunc(o.Val, 40), o.Err)
			}
			if failed > 4 {
				break
			}
		}
		time.Sleep(400 * time.Millisecond)
	}
	env.Svc.Release(ht)
	if !held.Wait(core.Grace) || held.Err != nil || held.Val != svc.Reply(ht) {
		r.Violate("sibling-disturbed", "a call in flight across the panic and answered %.1f s later returned (%q, %v), returned=%v", time.Since(start).Seconds(), core.Trunc(held.Val, 40), held.Err, held.Returned())
	}
	st := Tok("s")
	sctx, scancel := context.WithCancel(bg)
	defer scancel()
	if ch, err := cl.Sub(sctx, st, 20, svc.SGoroutine); err != nil {
		r.Violate("followup-failed", "a subscription %.1f s after the panic failed: %v", time.Since(start).Seconds(), err)
	} else {
		g := drainItems(ch, 0, -1, nil)
		if !core.WaitCh(g.done, core.Grace) {
			r.Violate("stream-disturbed", "a 20-value stream %.1f s after the panic did not complete (%d values)", time.Since(start).Seconds(), g.n())
		} else {
			checkSeq(r, "after-panic", st, g.snapshot(), 20, true)
		}
	}
	if n := env.Px.Accepts(); n != 1 {
		r.Violate("connection-replaced", "the connection that saw the panic was replaced (%d connections) although nothing was injected", n)
	}
	r.Key(fmt.Sprintf("panic-then-later %ds payload=%d", sc.I("secs"), sc.I("payload")), true)
	r.Obs("followup_calls", int64(calls))
	r.Sample(map[string]interface{}{"scenario": "steady use of the connection after a panic", "seconds": sc.I("secs"), "calls": calls, "failed": failed})
}

func (p c13) Run(sc core.Scenario) core.Result {
	if sc.Kind == "panic-then-later" {
		r := core.NewR(sc)
		p.panicThenLater(sc, r)
		return r.Result()
	}
	r := core.NewR(sc)
	switch sc.Str("kind") {
	case "reverse":
		p.reverse(sc, r)
	case "custom":
		p.custom(sc, r)
	default:
		p.server(sc, r)
	}
	return r.Result()
}

func (c13) server(sc core.Scenario, r *core.R) {
	pk, ck, tr, mix := sc.I("payload"), sc.Str("kind"), sc.Str("transport"), sc.I("mix")
	var hostArgs []string
	if sc.I("tracer") == 1 {
		hostArgs = []string{"tracer"} // server built WithTracer: the tracer also sees calls that panicked
	}
	host, err := StartHost("server", hostArgs...)
	if err != nil {
		r.Inconclusive("host: %v", err)
		return
	}
	defer host.Kill()
	mk := func(transport string) (*svc.Client, jsonrpc.ClientCloser, error) {
		var cl svc.Client
		copts := []jsonrpc.Option{jsonrpc.WithNoReconnect()}
		if sc.I("copt") == 1 {
			copts = append(copts, jsonrpc.WithErrors(jsonrpc.NewErrors())) // error mapping on (no application types registered)
		}
		closer, err := jsonrpc.NewMergeClient(context.Background(), transport+"://"+host.Addr, "S", []interface{}{&cl}, nil, copts...)
		if err != nil {
			return nil, nil, err
		}
		var once sync.Once
		return &cl, func() { once.Do(closer) }, nil
	}
	main, closeMain, err := mk(tr)
	if err != nil {
		r.Inconclusive("client: %v", err)
		return
	}
	defer closeMain()
	otherTr := "ws"
	if mix%2 == 1 {
		otherTr = "http"
	}
	other, closeOther, err := mk(otherTr)
	if err != nil {
		r.Inconclusive("client: %v", err)
		return
	}
	defer closeOther()
	bg := context.Background()
	// siblings alive across the panic
	var sib []*Outcome
	var streams []*got
	var streamToks []string
	for i := 0; i < 3; i++ {
		for _, c := range []*svc.Client{main, other} {
			c := c
			t := Tok("k")
			sib = append(sib, Go(t, func() (string, error) { return c.React(bg, t, 120, 10) }))
		}
	}
	if tr == "ws" && mix >= 2 {
		t := Tok("s")
		if ch, err := main.Sub(bg, t, 200, svc.SSlow); err == nil {
			streams = append(streams, drainItems(ch, 0, -1, nil))
			streamToks = append(streamToks, t)
		}
	}
	if otherTr == "ws" {
		t := Tok("s")
		if ch, err := other.Sub(bg, t, 200, svc.SSlow); err == nil {
			streams = append(streams, drainItems(ch, 0, -1, nil))
			streamToks = append(streamToks, t)
		}
	}
	time.Sleep(15 * time.Millisecond)
	// ---- the panic
	pt := Tok("x")
	label := fmt.Sprintf("%s/%s payload=%s", tr, ck, c13Payload[pk])
	switch ck {
	case "unary":
		o := Go(pt, func() (string, error) {
			if pk == 3 {
				return main.BoomPtr(bg, pt, nil) // the nil dereference is on a pointer argument the caller sent as null
			}
			if sc.I("copt") == 2 {
				return main.BoomR(bg, pt, pk) // the same method through a retry-tagged proxy field
			}
			if sc.I("mix")%2 == 1 && pk != 6 {
				// handler methods without an error result (value only / nothing): a panic is still an error
				if pk%2 == 0 {
					return main.BoomV(bg, pt, pk)
				}
				return "", main.BoomVoid(bg, pt, pk)
			}
			return main.Boom(bg, pt, pk)
		})
		if !o.Wait(core.Grace) {
			r.Violate("panic-call-hang", "%s: the call whose handler panicked never returned (client option variant %d: 0 plain, 1 WithErrors, 2 retry-tagged field)", label, sc.I("copt"))
		} else if ok, why := mentionsPanic(o.Err, pk, pt); !ok {
			r.Violate("panic-not-reported", "%s: %s (value %q)", label, why, o.Val)
		}
	case "after-cancel":
		// the caller cancels, stays waiting for the answer (as the ws client does), and the handler panics afterwards
		cctx, ccancel := context.WithCancel(bg)
		o := Go(pt, func() (string, error) { return main.BoomAfterCancel(cctx, pt, pk) })
		time.Sleep(40 * time.Millisecond)
		ccancel()
		if !o.Wait(core.Grace) {
			r.Violate("panic-call-hang", "%s: the caller cancelled, the handler then panicked, and the caller was never answered", label)
		} else if ok, why := mentionsPanic(o.Err, pk, pt); !ok {
			r.Violate("panic-not-reported", "%s: %s (value %q)", label, why, o.Val)
		}
	case "concurrent":
		// many handlers panic at the same moment, on this and on the other connection
		var ps []*Outcome
		for round := 0; round < 12 && host.Alive(); round++ {
			group := Tok("g")
			for i := 0; i < 24; i++ {
				c := main
				if i%3 == 2 {
					c = other
				}
				t := Tok("x")
				ps = append(ps, Go(t, func() (string, error) { return c.BoomBarrier(bg, t, pk, group, 24) }))
			}
			for _, o := range ps[len(ps)-24:] {
				o.Wait(core.Grace)
			}
		}
		for _, o := range ps {
			if !o.Wait(core.Grace) {
				r.Violate("panic-call-hang", "%s: one of 24 simultaneously panicking calls (12 rounds) never returned (host alive=%v)", label, host.Alive())
				break
			} else if ok, why := mentionsPanic(o.Err, pk, o.Tok); !ok {
				r.Violate("panic-not-reported", "%s: one of 24 simultaneous panics: %s; host alive=%v stderr=%s", label, why, host.Alive(), core.Trunc(host.Stderr(), 400))
				break
			}
		}
	case "batch":
		// a panicking element inside an HTTP batch: the other elements are answered as if nothing happened
		for pos := 0; pos < 3; pos++ {
			toks := []string{Tok("b"), Tok("b"), Tok("b")}
			var parts []string
			for i, t := range toks {
				if i == pos {
					parts = append(parts, fmt.Sprintf(`{"jsonrpc":"2.0","id":%d,"method":"S.Boom","params":[%q,%d]}`, i+1, t, pk))
				} else {
					parts = append(parts, fmt.Sprintf(`{"jsonrpc":"2.0","id":%d,"method":"S.Echo","params":[%q,""]}`, i+1, t))
				}
			}
			resp, err := http.Post("http://"+host.Addr, "application/json", strings.NewReader("["+strings.Join(parts, ",")+"]"))
			if err != nil {
				r.Violate("sibling-disturbed", "%s: batch with a panicking element at position %d: request failed: %v", label, pos, err)
				continue
			}
			body, _ := io.ReadAll(resp.Body)
			resp.Body.Close()
			var arr []struct {
				ID     int             `json:"id"`
				Result string          `json:"result"`
				Error  json.RawMessage `json:"error"`
			}
			if err := json.Unmarshal(body, &arr); err != nil || len(arr) != 3 {
				r.Violate("sibling-disturbed", "%s: batch with a panicking element at position %d: reply is not an array of three responses: %s", label, pos, core.Trunc(string(body), 300))
				continue
			}
			for i, e := range arr {
				if i == pos {
					if len(e.Error) == 0 || !strings.Contains(strings.ToLower(string(e.Error)), "panic") {
						r.Violate("panic-not-reported", "%s: batch element %d panicked but its response is %s", label, i, core.Trunc(string(body), 300))
					}
				} else if e.ID != i+1 || e.Result != svc.Reply(toks[i]) {
					r.Violate("sibling-disturbed", "%s: healthy batch element %d next to a panicking one was answered with id=%d result=%q error=%s", label, i, e.ID, e.Result, core.Trunc(string(e.Error), 100))
				}
			}
		}
	case "stalled-peer":
		// another peer makes 32 handlers panic with a 1 MiB payload each and never reads the replies: its
		// connection's writer is stuck. Panics and other error replies on the remaining connections are
		// unaffected.
		raw, _, derr := websocket.DefaultDialer.Dial("ws://"+host.Addr, http.Header{})
		if derr != nil {
			r.Inconclusive("raw dial: %v", derr)
			break
		}
		defer raw.Close()
		for i := 0; i < 32; i++ {
			raw.WriteMessage(websocket.TextMessage, []byte(fmt.Sprintf(`{"jsonrpc":"2.0","id":%d,"method":"S.Boom","params":[%q,7]}`, i+1, Tok("z"))))
		}
		time.Sleep(500 * time.Millisecond)
		for i, c := range []*svc.Client{main, other, main} {
			c := c
			t := Tok("x")
			o := Go(t, func() (string, error) { return c.Boom(bg, t, pk) })
			if !o.Wait(core.Grace) {
				r.Violate("panic-call-hang", "%s: while another peer's connection is stuck with 32 MiB of unread panic replies, a panicking call on connection %d got no reply", label, i)
				break
			} else if ok, why := mentionsPanic(o.Err, pk, t); !ok {
				r.Violate("panic-not-reported", "%s: %s", label, why)
			}
		}
	case "notification":
		if err := main.BoomNote(bg, pt, pk); err != nil {
			r.Violate("notify-failed", "%s: sending the notification failed: %v", label, err)
		}
	case "channel":
		o := Go(pt, func() (string, error) {
			ch, err := main.BoomSub(bg, pt, pk)
			if ch != nil {
				go func() {
					for range ch {
					}
				}()
			}
			return "", err
		})
		if !o.Wait(core.Grace) {
			r.Violate("panic-call-hang", "%s: the channel-returning call whose handler panicked never returned", label)
		} else if ok, why := mentionsPanic(o.Err, pk, pt); !ok {
			r.Violate("panic-not-reported", "%s: %s", label, why)
		}
	}
	// ---- everything else behaves as if nothing happened
	for _, o := range sib {
		if !o.Wait(core.Grace) {
			r.Violate("sibling-hang", "%s: a healthy call in flight across the panic never returned (host alive=%v)", label, host.Alive())
		} else if o.Err != nil || !strings.HasPrefix(o.Val, svc.Reply(o.Tok)+":") {
			r.Violate("sibling-disturbed", "%s: a healthy call in flight across the panic returned (%q, %v); host alive=%v stderr=%s", label, core.Trunc(o.Val, 40), o.Err, host.Alive(), core.Trunc(host.Stderr(), 600))
		}
	}
	for i, g := range streams {
		if !core.WaitCh(g.done, 2*core.Grace) {
			r.Violate("stream-disturbed", "%s: stream open across the panic did not complete (%d of 200)", label, g.n())
		} else {
			checkSeq(r, "stream across panic", streamToks[i], g.snapshot(), 200, true)
		}
	}
	for i := 0; i < 20; i++ {
		c := main
		if i%2 == 1 {
			c = other
		}
		t := Tok("f")
		o := Go(t, func() (string, error) { return c.Echo(bg, t, "") })
		if !o.Wait(core.Grace) || o.Err != nil || o.Val != svc.Reply(t) {
			r.Violate("followup-failed", "%s: follow-up call %d failed (%q, %v); host alive=%v stderr=%s", label, i, o.Val, o.Err, host.Alive(), core.Trunc(host.Stderr(), 600))
			break
		}
	}
	if !host.Alive() {
		r.Violate("host-crash:"+CrashSite(host.Stderr()), "%s: the server process died; stderr: %s", label, core.Trunc(host.Stderr(), 1500))
	} else {
		closeMain()
		closeOther()
		if clean, detail := host.Stop(); !clean {
			r.Violate("host-crash:"+CrashSite(host.Stderr()), "%s: the server process did not exit cleanly: %s; stderr: %s", label, detail, core.Trunc(host.Stderr(), 1500))
		}
	}
	r.Key(fmt.Sprintf("%s %s payload=%d mix=%d tracer=%d copt=%d", tr, ck, pk, mix, sc.I("tracer"), sc.I("copt")), len(sib)+len(streams) > 0)
	r.Obs("panics_raised", 1)
	r.Obs("siblings", int64(len(sib)))
	r.Obs("streams", int64(len(streams)))
	r.Sample(map[string]interface{}{"transport": tr, "call_kind": ck, "payload": c13Payload[pk], "sibling_calls": len(sib), "streams": len(streams), "other_connection": otherTr})
}

// reverse: the client-side handler panics; the client host must survive and keep serving.
func (c13) reverse(sc core.Scenario, r *core.R) {
	pk := sc.I("payload")
	up := websocket.Upgrader{CheckOrigin: func(*http.Request) bool { return true }}
	connCh := make(chan *websocket.Conn, 2)
	ts := httptest.NewServer(http.HandlerFunc(func(w http.ResponseWriter, rq *http.Request) {
		c, err := up.Upgrade(w, rq, nil)
		if err != nil {
			return
		}
		connCh <- c
		select {}
	}))
	defer func() { go ts.Close() }()
	host, err := StartHost("client", ts.Listener.Addr().String())
	if err != nil {
		r.Inconclusive("client host: %v", err)
		return
	}
	defer host.Kill()
	var conn *websocket.Conn
	select {
	case conn = <-connCh:
	case <-time.After(10 * time.Second):
		r.Inconclusive("client host never connected")
		return
	}
	defer conn.Close()
	var mu sync.Mutex
	resp := map[string]string{}
	go func() {
		for {
			_, msg, err := conn.ReadMessage()
			if err != nil {
				return
			}
			var f struct {
				ID     interface{} `json:"id"`
				Method string      `json:"method"`
			}
			if json.Unmarshal(msg, &f) == nil && f.Method == "" {
				mu.Lock()
				resp[fmt.Sprint(f.ID)] = string(msg)
				mu.Unlock()
			}
		}
	}()
	send := func(id, method, params string) string {
		conn.WriteMessage(websocket.TextMessage, []byte(fmt.Sprintf(`{"jsonrpc":"2.0","id":%q,"method":%q,"params":%s}`, id, method, params)))
		var out string
		core.Eventually(core.Grace, func() bool {
			mu.Lock()
			defer mu.Unlock()
			out = resp[id]
			return out != "" || !host.Alive()
		})
		return out
	}
	pt := Tok("x")
	label := "reverse payload=" + c13Payload[pk]
	// siblings: reverse calls in flight across the panic
	held := send("warm", "R.Ident", `["Twx1"]`)
	if !strings.Contains(held, "H/Twx1") {
		r.Inconclusive("reverse warm-up failed: %s", core.Trunc(held, 120))
		return
	}
	got := send("boom", "R.RBoom", fmt.Sprintf(`[%q,%d]`, pt, pk))
	if got == "" {
		r.Violate("panic-call-hang", "%s: no response to the reverse call whose client-side handler panicked (host alive=%v)", label, host.Alive())
	} else if !strings.Contains(strings.ToLower(got), "panic") || !strings.Contains(got, `"error"`) {
		r.Violate("panic-not-reported", "%s: response does not report the panic: %s", label, core.Trunc(got, 200))
	}
	for i := 0; i < 5; i++ {
		id := fmt.Sprintf("f%d", i)
		t := fmt.Sprintf("Tfx%d", i)
		if g := send(id, "R.Ident", fmt.Sprintf(`[%q]`, t)); !strings.Contains(g, "H/"+t) {
			r.Violate("followup-failed", "%s: reverse follow-up call %d answered with %q (host alive=%v)", label, i, core.Trunc(g, 120), host.Alive())
			break
		}
	}
	if !host.Alive() {
		r.Violate("host-crash:"+CrashSite(host.Stderr()), "%s: the client process died; stderr: %s", label, core.Trunc(host.Stderr(), 1500))
	}
	r.Key(fmt.Sprintf("reverse payload=%d", pk), true)
	r.Obs("panics_raised", 1)
	r.Sample(map[string]interface{}{"call_kind": "reverse (client-side handler panics)", "payload": c13Payload[pk], "response": core.Trunc(got, 160)})
}

// custom: in-process custom transport; a crash would kill this child and be attributed by the driver.
func (c13) custom(sc core.Scenario, r *core.R) {
	pk := sc.I("payload")
	env := NewEnv(EnvOpt{NoProxy: true})
	defer env.Shutdown()
	var cl svc.Client
	closer, err := customClient(env.RPC, &cl)
	if err != nil {
		r.Inconclusive("client: %v", err)
		return
	}
	defer closer()
	bg := context.Background()
	pt := Tok("x")
	var sib []*Outcome
	for i := 0; i < 4; i++ {
		t := Tok("k")
		sib = append(sib, Go(t, func() (string, error) { return cl.React(bg, t, 30, 10) }))
	}
	_, perr := cl.Boom(bg, pt, pk)
	if ok, why := mentionsPanic(perr, pk, pt); !ok {
		r.Violate("panic-not-reported", "custom payload=%s: %s", c13Payload[pk], why)
	}
	cl.BoomNote(bg, Tok("x"), pk)
	for _, o := range sib {
		if !o.Wait(core.Grace) || o.Err != nil || !strings.HasPrefix(o.Val, svc.Reply(o.Tok)+":") {
			r.Violate("sibling-disturbed", "custom payload=%s: sibling returned (%q, %v)", c13Payload[pk], core.Trunc(o.Val, 40), o.Err)
		}
	}
	for i := 0; i < 20; i++ {
		t := Tok("f")
		if v, err := cl.Echo(bg, t, ""); err != nil || v != svc.Reply(t) {
			r.Violate("followup-failed", "custom payload=%s: follow-up failed: %v", c13Payload[pk], err)
			break
		}
	}
	r.Key(fmt.Sprintf("custom payload=%d", pk), true)
	r.Obs("panics_raised", 2)
	r.Obs("siblings", int64(len(sib)))
	r.Sample(map[string]interface{}{"transport": "custom", "payload": c13Payload[pk]})
}
