package props

import (
	"context"
	"fmt"
	"strings"
	"sync"
	"time"

	jsonrpc "github.com/filecoin-project/go-jsonrpc"

	"vharness/core"
	"vharness/svc"
	"vharness/wsproxy"
)

// Shared fault-scenario runner for C03 (no hang / no foreign result) and C04
// (at-most-once / exactly-once). One execution feeds both oracles.

type call struct {
	*Outcome
	Kind   string // echo big fail void note sub echoR bigreq
	Timing string // seq, inflight, after-fault, window, post
	Retry  bool
	Notify bool
}

type faultRun struct {
	sc    core.Scenario
	env   *Env
	cl    *Client
	pol   *core.Policy
	calls []*call
	mu    sync.Mutex
}

func (fr *faultRun) add(c *call) {
	fr.mu.Lock()
	fr.calls = append(fr.calls, c)
	fr.mu.Unlock()
}

func (fr *faultRun) issue(kind, timing string) *call {
	tok := Tok(timing[:1])
	c := &call{Kind: kind, Timing: timing}
	ctx := context.Background()
	cl := fr.cl
	switch kind {
	case "echo":
		c.Outcome = Go(tok, func() (string, error) { return cl.Echo(ctx, tok, "") })
	case "bigreq":
		c.Outcome = Go(tok, func() (string, error) { return cl.Echo(ctx, tok, strings.Repeat("p", 9000)) })
	case "big":
		c.Outcome = Go(tok, func() (string, error) { return cl.Big(ctx, tok, 9000) })
	case "fail":
		c.Outcome = Go(tok, func() (string, error) { return cl.Fail(ctx, tok) })
	case "void":
		c.Outcome = Go(tok, func() (string, error) { cl.Void(ctx, tok); return "", nil })
	case "note":
		c.Notify = true
		c.Outcome = Go(tok, func() (string, error) { return "", cl.Note(ctx, tok) })
	case "echoNR": // a field that says retry:"false" is an untagged call as far as the property goes
		c.Outcome = Go(tok, func() (string, error) { return cl.EchoNR(ctx, tok, "") })
	case "echoR":
		c.Retry = true
		c.Outcome = Go(tok, func() (string, error) { return cl.EchoR(ctx, tok, "") })
	case "sub":
		c.Outcome = Go(tok, func() (string, error) {
			sctx, cancel := context.WithCancel(ctx)
			ch, err := cl.Sub(sctx, tok, 5, svc.SGoroutine)
			if err != nil {
				cancel()
				return "", err
			}
			go func() {
				defer cancel()
				for range ch {
				}
			}()
			return "SUB", nil
		})
	}
	fr.add(c)
	return c
}

// checkValue applies the token-echo oracle to a returned call.
func checkValue(c *call, r *core.R) {
	if !c.Returned() || c.Err != nil {
		return
	}
	switch c.Kind {
	case "echo", "bigreq", "echoR", "echoNR":
		if c.Val != svc.Reply(c.Tok) {
			r.Violate("foreign-result", "call %s (%s/%s) returned %q, expected %q", c.Tok, c.Kind, c.Timing, core.Trunc(c.Val, 80), svc.Reply(c.Tok))
		}
	case "big":
		if !strings.HasPrefix(c.Val, svc.Reply(c.Tok)+":") || len(c.Val) != len(svc.Reply(c.Tok))+1+9000 {
			r.Violate("foreign-result", "call %s (big/%s) returned %q (len %d)", c.Tok, c.Timing, core.Trunc(c.Val, 80), len(c.Val))
		}
	case "fail":
		r.Violate("foreign-result", "call %s (fail/%s) returned nil error and value %q although the handler fails", c.Tok, c.Timing, core.Trunc(c.Val, 80))
	}
}

var faultKinds = []string{wsproxy.FIN, wsproxy.RST, wsproxy.BLACKHOLE, wsproxy.CLOSE1000, wsproxy.CLOSE1001, wsproxy.CLOSE1012, wsproxy.CLOSE1013}

// planFaults enumerates (kind, dir, ordinal, pos, timing) points.
func planFaults(tier string, seed int64, prop string) []core.Scenario {
	var all []core.Scenario
	maxOrd := map[wsproxy.Dir]int{wsproxy.C2S: 12, wsproxy.S2C: 16}
	for _, kind := range faultKinds {
		for d := wsproxy.C2S; d <= wsproxy.S2C; d++ {
			for ord := 1; ord <= maxOrd[d]; ord++ {
				for pos := 0; pos < 5; pos++ {
					all = append(all, core.Sc("fault").WithS("fk", kind).WithN("dir", int(d)).WithN("ord", ord).WithN("pos", pos))
				}
			}
		}
	}
	rng := core.Scenario{Seed: seed}.Rand()
	var out []core.Scenario
	if tier == "thorough" {
		out = all
		// double faults
		for i := 0; i < 150; i++ {
			s := all[rng.Intn(len(all))].WithN("double", 1+rng.Intn(2))
			s.Kind = "fault2"
			out = append(out, s)
		}
	} else {
		// stratified: every kind x dir x pos cell at 3 ordinals
		for _, kind := range faultKinds {
			for d := 0; d < 2; d++ {
				for pos := 0; pos < 5; pos++ {
					for k := 0; k < 3; k++ {
						ord := 1 + rng.Intn(maxOrd[wsproxy.Dir(d)])
						out = append(out, core.Sc("fault").WithS("fk", kind).WithN("dir", d).WithN("ord", ord).WithN("pos", pos))
					}
				}
			}
		}
		for i := 0; i < 10; i++ {
			s := all[rng.Intn(len(all))].WithN("double", 1+rng.Intn(2))
			s.Kind = "fault2"
			out = append(out, s)
		}
	}
	for i := range out {
		out[i].Seed = seed*1000003 + int64(i)
		out[i] = out[i].WithN("noise", int(out[i].Seed%3))
	}
	return out
}

// runFault executes one fault scenario; r3 gets C03 verdicts, r4 C04 verdicts.
func runFault(sc core.Scenario, r3, r4 *core.R) {
	kind := sc.Str("fk")
	dir := wsproxy.Dir(sc.I("dir"))
	env := NewEnv(EnvOpt{ServerOpts: []jsonrpc.ServerOption{jsonrpc.WithServerPingInterval(50 * time.Millisecond)}})
	defer env.Shutdown()

	pol := &core.Policy{Seed: sc.Seed}
	switch sc.I("noise") {
	case 1:
		pol.NoiseP, pol.MaxDelay = 0.2, 300*time.Microsecond
	case 2:
		pol.NoiseP, pol.MaxDelay = 0.5, 2*time.Millisecond
	}
	gate := core.NewGate(3 * time.Second)
	pol.Rules = append(pol.Rules, &core.Rule{Point: "ws.reconn.dial", Side: 1, Occ: 1, Do: gate.Do})
	uninstall := pol.Install()
	defer uninstall()
	defer gate.Release()

	copts := []jsonrpc.Option{jsonrpc.WithReconnectBackoff(5*time.Millisecond, 20*time.Millisecond)}
	if kind == wsproxy.BLACKHOLE {
		copts = append(copts, jsonrpc.WithPingInterval(50*time.Millisecond), jsonrpc.WithTimeout(400*time.Millisecond))
	}
	cl, err := env.NewClient(ClientOpt{Opts: copts})
	if err != nil {
		r3.Inconclusive("client setup: %v", err)
		r4.Inconclusive("client setup: %v", err)
		return
	}
	fr := &faultRun{sc: sc, env: env, cl: cl, pol: pol}

	fired := make(chan struct{})
	var fireOnce sync.Once
	var afterFault []*call
	onFire := func() {
		fireOnce.Do(func() {
			// (ii) calls issued immediately after injection, before the client can have noticed
			afterFault = append(afterFault, fr.issue("echo", "after-fault"), fr.issue("echoR", "after-fault"), fr.issue("note", "after-fault"))
			close(fired)
		})
	}
	fault := &wsproxy.Fault{Kind: kind, Dir: dir, Ordinal: sc.I("ord"), Pos: sc.I("pos"), OnFire: onFire}
	if n := sc.I("double"); n > 0 {
		first := fault.OnFire
		fault.OnFire = func() {
			first()
			k2 := wsproxy.RST
			if n == 2 {
				k2 = wsproxy.FIN
			}
			env.Px.Arm(&wsproxy.Fault{Kind: k2, Dir: wsproxy.S2C, Ordinal: 1, Pos: 2})
		}
	}

	// (i) a held call that is in flight when the fault strikes
	held := Tok("h")
	env.Svc.Hold(held)
	hc := &call{Kind: "echo", Timing: "inflight"}
	hc.Outcome = Go(held, func() (string, error) { return cl.Echo(context.Background(), held, "") })
	fr.add(hc)
	// ... and one through a field whose tag says retry:"false"
	heldN := Tok("h")
	env.Svc.Hold(heldN)
	hn := &call{Kind: "echoNR", Timing: "inflight"}
	hn.Outcome = Go(heldN, func() (string, error) { return cl.EchoNR(context.Background(), heldN, "") })
	fr.add(hn)
	env.Svc.WaitEntered(heldN, core.Grace)
	// contrast lane: a retry-tagged call in flight when the fault strikes must be re-sent by the library
	heldR := Tok("h")
	env.Svc.Hold(heldR)
	hr := &call{Kind: "echoR", Timing: "inflight", Retry: true}
	hr.Outcome = Go(heldR, func() (string, error) { return cl.EchoR(context.Background(), heldR, "") })
	fr.add(hr)
	env.Svc.WaitEntered(heldR, core.Grace)
	if !env.Svc.WaitEntered(held, core.Grace) {
		r3.Inconclusive("held call never reached its handler")
		r4.Inconclusive("held call never reached its handler")
		return
	}
	env.Px.Arm(fault)

	// sequential part of the workload
	seqKinds := []string{"echo", "bigreq", "big", "void", "note", "sub", "fail", "echo", "big"}
	stalled := false
	for _, k := range seqKinds {
		c := fr.issue(k, "seq")
		if !c.Wait(core.Grace) {
			stalled = true
			break
		}
	}
	posClass := fmt.Sprintf("pos%d", sc.I("pos"))
	if !fault.Fired() {
		// workload had fewer frames than the ordinal: strike while idle (held call still in flight)
		posClass = "idle"
		env.Px.KillAll(kind)
		onFire()
	}
	<-fired
	core.Log.Note("h.fault.fired", kind)

	// (iii) calls issued inside the reconnect window: the client is parked at the redial step
	inWindow := false
	if core.WaitCh(gate.Reached, 3*time.Second) {
		inWindow = true
		before := pol.Count("ws.req.accepted", 1)
		fr.issue("echo", "window")
		fr.issue("echoR", "window")
		fr.issue("big", "window")
		fr.issue("note", "window")
		pol.WaitPoint("ws.req.accepted", 1, before+2, 200*time.Millisecond)
	}
	gate.Release()

	// release the held handler, then establish health with probes
	env.Svc.ReleaseAll()
	healthy := false
	probeHang := false
	deadline := time.Now().Add(2 * core.Grace)
	probes := 0
	for time.Now().Before(deadline) {
		p := fr.issue("echo", "post")
		probes++
		if !p.Wait(core.Grace) {
			probeHang = true
			break
		}
		if p.Err == nil && p.Val == svc.Reply(p.Tok) {
			healthy = true
			break
		}
		time.Sleep(10 * time.Millisecond)
	}

	// ---- C03 oracle
	key := fmt.Sprintf("%s %s %s win=%v", kind, dir, posClass, inWindow)
	affected := 0
	fr.mu.Lock()
	calls := append([]*call(nil), fr.calls...)
	fr.mu.Unlock()
	if healthy {
		// everything issued before the successful probe must return within the scheduling grace
		for _, c := range calls {
			if !c.Wait(core.Grace) {
				running := false
				for _, t := range env.Svc.Running() {
					if t == c.Tok {
						running = true
					}
				}
				if running {
					continue // a handler is still working for it: not lost
				}
				r3.Violate("lost-call:"+c.Timing, "call %s (%s, issued %s) never returned although a later probe round-tripped on the same client; fault=%s dir=%s ord=%d pos=%d; events: %s",
					c.Tok, c.Kind, c.Timing, kind, dir, sc.I("ord"), sc.I("pos"), core.Log.Tail(40))
			}
		}
	} else if probeHang || stalled {
		r3.Violate("lost-call:probe", "a call issued after the fault neither returned nor failed within the grace period (stalled=%v probeHang=%v); fault=%s dir=%s ord=%d pos=%d; events: %s", stalled, probeHang, kind, dir, sc.I("ord"), sc.I("pos"), core.Log.Tail(40))
	} else {
		r3.Inconclusive("link never became healthy again within %v (probes=%d) - C05 territory", 2*core.Grace, probes)
	}
	for _, c := range calls {
		checkValue(c, r3)
		if c.Returned() && c.Err != nil && c.Timing != "post" {
			affected++
		}
	}
	r3.Key(key, affected > 0 || inWindow)
	r3.Obs("calls", int64(len(calls)))
	r3.Obs("calls_failed_by_fault", int64(affected))
	r3.Obs("window_entered", b2i(inWindow))
	r3.Obs("frames_seen", int64(len(env.Px.Frames())))
	r3.Obs("accepts", int64(env.Px.Accepts()))
	r3.Sig(core.Log.Signature())
	r3.Sample(map[string]interface{}{"fault": kind, "dir": dir.String(), "position": posClass, "ordinal": sc.I("ord"), "calls": len(calls), "failed_by_fault": affected, "window": inWindow, "healthy_again": healthy})

	// ---- C04 oracle
	// quiesce: give notifications time to land (bounded), then count
	core.Eventually(300*time.Millisecond, func() bool { return len(env.Svc.Running()) == 0 })
	frames := env.Px.Frames()
	reqFrames := map[string]int{}
	noteWithID := 0
	for _, f := range frames {
		if f.Dir == wsproxy.C2S && f.Msg != nil && f.Msg.Valid && f.Msg.Method != "" && f.Msg.Token != "" && strings.HasPrefix(f.Msg.Method, "S.") {
			reqFrames[f.Msg.Token]++
			if f.Msg.Method == "S.Note" && f.Msg.ID != "" && f.Msg.ID != "null" {
				noteWithID++
			}
		}
	}
	resends := 0
	for _, c := range calls {
		if !c.Returned() {
			continue
		}
		n := env.Svc.Enters(c.Tok)
		nf := reqFrames[c.Tok]
		if c.Retry {
			if nf >= 2 {
				resends++
			}
			if c.Err == nil && n < 1 {
				r4.Violate("retry-no-exec", "retry-tagged call %s returned a value but its handler never ran", c.Tok)
			}
			continue
		}
		if n > 1 {
			r4.Violate("multi-exec:"+c.Kind, "untagged call %s (%s/%s) executed %d times; request frames=%d", c.Tok, c.Kind, c.Timing, n, nf)
		}
		if nf > 1 {
			r4.Violate("resend:"+c.Kind, "library sent %d request frames for untagged call %s (%s/%s)", nf, c.Tok, c.Kind, c.Timing)
		}
		gotAnswer := false
		if c.Err == nil && (c.Kind == "echo" || c.Kind == "big" || c.Kind == "bigreq" || c.Kind == "echoNR") {
			gotAnswer = true
		}
		if c.Err != nil && strings.Contains(c.Err.Error(), svc.ErrText(c.Tok)) {
			gotAnswer = true
		}
		if gotAnswer && n != 1 {
			r4.Violate("answer-without-exec", "call %s (%s/%s) received an answer but its handler ran %d times", c.Tok, c.Kind, c.Timing, n)
		}
	}
	if noteWithID > 0 {
		r4.Violate("notify-with-id", "%d notification frames carried an id", noteWithID)
	}
	r4.Key(key, affected > 0 || inWindow)
	r4.Obs("calls", int64(len(calls)))
	r4.Obs("retry_resends_seen", int64(resends))
	r4.Obs("tokens_with_request_frames", int64(len(reqFrames)))
	r4.Obs("handler_entries", env.Svc.Total())
	r4.Sig(core.Log.Signature())
	r4.Sample(map[string]interface{}{"fault": kind, "dir": dir.String(), "position": posClass, "handler_entries": env.Svc.Total(), "request_frames_by_token": len(reqFrames), "retry_resends": resends})
}

func b2i(b bool) int64 {
	if b {
		return 1
	}
	return 0
}
