package props

import (
	"context"
	"encoding/json"
	"fmt"
	"github.com/gorilla/websocket"
	"net/http"
	"net/http/httptest"
	"strings"
	"sync"
	"sync/atomic"
	"time"

	jsonrpc "github.com/filecoin-project/go-jsonrpc"

	"vharness/core"
	"vharness/svc"
	"vharness/wsproxy"
)

// C17 – keepalive keeps healthy links up and detects silent peers in bounded time.

type c17 struct{}

func init() { core.Register(c17{}) }

func (c17) ID() string             { return "C17" }
func (c17) Level() string          { return "exploration" }
func (c17) Race() bool             { return false }
func (c17) MaxChildren(string) int { return 4 }
func (c17) Rule() string {
	return "client (ping, timeout) in {(100ms,500ms),(200ms,1s),(400ms,2s)} x server ping in {off, 50 ms, 5 s default, 3x client timeout}; healthy part: held calls of 0.1x/1x/3x/6x timeout, idle gaps of 3x/8x, a subscription open for 5x with sparse values, a 1 MiB response throttled by the proxy to take ~3x timeout (slow-read renewal interval set to 0.2x timeout); silent part: BLACKHOLE while idle / with a call in flight / with a subscription open. Distinct = (client cfg, server cfg, activity); non-trivial = lasted >= 2x timeout. Oracles: healthy - no call fails, the proxy's accept count stays 1, the stream is complete; silent - pending calls fail with an error and a redial reaches the proxy within 5x timeout + 2 s. Wall-clock by nature: plain binary, <= 4 children, and a failure only counts when it reproduces in 3/3 isolated re-executions at a doubled time scale (otherwise inconclusive)."
}
func (c17) Assumptions() []string {
	return []string{"time bounds are generous multiples of the configured timeout; anything not reproduced 3/3 at doubled scale is inconclusive", "default 30 s / 5 s settings are not exercised in the quick tier"}
}

var c17Cfg = [][2]time.Duration{{100 * time.Millisecond, 500 * time.Millisecond}, {200 * time.Millisecond, time.Second}, {400 * time.Millisecond, 2 * time.Second}}
var c17Act = []string{"idle3", "idle8", "call0.1", "call1", "call3", "call6", "sub5", "bigslow", "busyheld"}

func (c17) Plan(tier string, seed int64) []core.Scenario {
	var out []core.Scenario
	for cfg := 0; cfg < 3; cfg++ {
		for sp := 0; sp < 4; sp++ {
			for ai, act := range c17Act {
				if tier != "thorough" {
					if cfg > 0 && !(cfg == 1 && sp == 2 && act == "call3") {
						continue
					}
					if (sp+ai+int(seed))%2 == 1 && !(sp == 2 && (act == "idle3" || act == "call3" || act == "busyheld")) {
						continue
					}
				}
				out = append(out, core.Sc("healthy").WithN("cfg", cfg).WithN("sp", sp).WithS("act", act))
			}
		}
	}
	for cfg := 0; cfg < 3; cfg++ {
		for pt := 0; pt < 5; pt++ {
			if tier != "thorough" && cfg > 0 {
				continue
			}
			out = append(out, core.Sc("silent").WithN("cfg", cfg).WithN("pt", pt).WithN("sp", pt%2+1))
		}
		if tier == "thorough" || cfg == 0 {
			out = append(out, core.Sc("silent").WithN("cfg", cfg).WithN("pt", 5).WithN("sp", 0))
			out = append(out, core.Sc("silent").WithN("cfg", cfg).WithN("pt", 6).WithN("sp", 1))
		}
	}
	// the same healthy workloads on a link that was re-established once (keepalive must have been set up again)
	for cfg := 0; cfg < 3; cfg++ {
		for sp := 0; sp < 4; sp++ {
			for _, act := range []string{"idle3", "call3", "sub5"} {
				if tier != "thorough" && (cfg > 0 || (sp != 0 && sp != 2)) {
					continue
				}
				out = append(out, core.Sc("healthy").WithN("cfg", cfg).WithN("sp", sp).WithS("act", act).WithN("reconnect", 1))
			}
		}
	}
	// the peer falls silent (and stops reading) while a request larger than the socket buffers is being
	// written: the silence must still be acted on although a writer is blocked (shared with C03)
	out = append(out, core.Sc("stalled-write").WithN("mb", 32))
	// a healthy but slow link: a large response keeps the server's writer busy for seconds while pings and
	// pongs are due in both directions (shared with C14)
	out = append(out, core.Sc("slowpeer").WithN("mb", 24))
	// pings switched off: the read deadline alone has to notice a silent peer (shared with C03)
	out = append(out, core.Sc("noping-blackhole").WithN("inflight", 1))
	// a foreign peer that never answers our pings but sends pings of its own more often than the timeout:
	// its pings are activity
	out = append(out, core.Sc("pinging-peer").WithN("timeout_ms", 600), core.Sc("pinging-peer").WithN("timeout_ms", 900))
	for i := range out {
		out[i].Seed = seed*141650939 + int64(i)
	}
	return out
}

func (p c17) Run(sc core.Scenario) core.Result {
	r := core.NewR(sc)
	if sc.Kind == "noping-blackhole" {
		runNoPingBlackhole(sc, r)
		return r.Result()
	}
	if sc.Kind == "pinging-peer" {
		p.pingingPeer(sc, r)
		return r.Result()
	}
	if sc.Kind == "slowpeer" {
		c14{}.slowPeer(sc, r)
		return r.Result()
	}
	if sc.Kind == "stalled-write" {
		// bounded-progress verdict with a 32x margin (16 s against a 500 ms timeout): no rescaled confirmation
		runStalledWrite(sc, r)
		return r.Result()
	}
	fails, key, nontrivial, sample := p.once(sc, 1)
	r.Key(key, nontrivial)
	r.Sample(sample)
	r.Obs("executions", 1)
	if len(fails) == 0 {
		return r.Result()
	}
	// confirm: 3 isolated re-executions at a doubled time scale
	confirmed := 0
	var others []string
	for i := 0; i < 3; i++ {
		f2, k2, _, _ := p.once(sc, 2)
		r.Obs("executions", 1)
		same := false
		for _, a := range f2 {
			for _, b := range fails {
				if a.Finger == b.Finger {
					same = true
				}
			}
		}
		if same {
			confirmed++
		} else if len(f2) > 0 {
			others = append(others, f2[0].Finger)
		} else {
			others = append(others, "no failure ("+k2+")")
		}
	}
	if confirmed == 3 {
		for _, f := range fails {
			r.Violate(f.Finger, "%s (reproduced 3/3 at doubled time scale)", f.Msg)
		}
	} else {
		r.Inconclusive("timing observation not reproduced at doubled scale (%d/3; other outcomes: %v): %s", confirmed, others, fails[0].Msg)
	}
	return r.Result()
}

func (c17) once(sc core.Scenario, scale int) (fails []core.Violation, key string, nontrivial bool, sample interface{}) {
	cfg := c17Cfg[sc.I("cfg")]
	ping, timeout := cfg[0]*time.Duration(scale), cfg[1]*time.Duration(scale)
	var sping time.Duration
	switch sc.I("sp") {
	case 0:
		sping = 0
	case 1:
		sping = 50 * time.Millisecond
	case 2:
		sping = 5 * time.Second
	case 3:
		sping = 3 * timeout
	}
	fail := func(finger, f string, a ...interface{}) {
		fails = append(fails, core.Violation{Finger: finger, Msg: fmt.Sprintf(f, a...)})
	}
	env := NewEnv(EnvOpt{ServerOpts: []jsonrpc.ServerOption{jsonrpc.WithServerPingInterval(sping)}})
	defer env.Shutdown()
	cl, err := env.NewClient(ClientOpt{Opts: []jsonrpc.Option{jsonrpc.WithPingInterval(ping), jsonrpc.WithTimeout(timeout), jsonrpc.WithReconnectBackoff(10*time.Millisecond, 50*time.Millisecond)}})
	if err != nil {
		return nil, "setup-failed", false, nil
	}
	bg := context.Background()
	probe := func(what string) {
		t := Tok("p")
		o := Go(t, func() (string, error) { return cl.Echo(bg, t, "") })
		if !o.Wait(5*timeout + 2*time.Second) {
			fail("healthy-call-hang", "%s: call on a healthy link did not return", what)
		} else if o.Err != nil || o.Val != svc.Reply(t) {
			fail("healthy-call-failed", "%s: call on a healthy link failed: %v", what, o.Err)
		}
	}
	probe("warm-up")
	firstAccepts := 1
	if sc.I("reconnect") == 1 {
		// lose the link once and let the client re-establish it before the healthy part starts
		env.Px.KillAll(wsproxy.RST)
		ok := false
		for i := 0; i < 400 && !ok; i++ {
			t := Tok("p")
			o := Go(t, func() (string, error) { return cl.Echo(bg, t, "") })
			ok = o.Wait(5*timeout+2*time.Second) && o.Err == nil && o.Val == svc.Reply(t)
			if !ok {
				time.Sleep(10 * time.Millisecond)
			}
		}
		if !ok {
			return nil, "reconnect-failed", false, nil
		}
		firstAccepts = env.Px.Accepts()
	}
	if sc.Kind == "healthy" {
		act := sc.Str("act")
		key = fmt.Sprintf("healthy ping=%v timeout=%v serverping=%v %s reconnected=%d", cfg[0], cfg[1], []string{"off", "50ms", "5s", "3xtimeout"}[sc.I("sp")], act, sc.I("reconnect"))
		dur := time.Duration(0)
		switch {
		case strings.HasPrefix(act, "idle"):
			mult := 3
			if act == "idle8" {
				mult = 8
			}
			dur = time.Duration(mult) * timeout
			time.Sleep(dur)
			probe("after idling " + dur.String())
		case strings.HasPrefix(act, "call"):
			var f float64
			fmt.Sscanf(act, "call%g", &f)
			dur = time.Duration(f * float64(timeout))
			t := Tok("h")
			env.Svc.Hold(t)
			o := Go(t, func() (string, error) { return cl.Echo(bg, t, "") })
			env.Svc.WaitEntered(t, 5*time.Second)
			time.Sleep(dur)
			env.Svc.Release(t)
			if !o.Wait(5*timeout + 2*time.Second) {
				fail("healthy-call-hang", "call lasting %v (timeout %v) never returned", dur, timeout)
			} else if o.Err != nil || o.Val != svc.Reply(t) {
				fail("long-call-failed", "a call lasting %v on a healthy link (ping %v, timeout %v, server ping %v) failed: %v", dur, ping, timeout, sping, o.Err)
			}
		case act == "sub5":
			dur = 5 * timeout
			t := Tok("s")
			env.Svc.Hold(t)
			sctx, cancel := context.WithCancel(bg)
			defer cancel()
			ch, err := cl.Sub(sctx, t, 3, svc.SGoroutine)
			if err != nil {
				fail("healthy-call-failed", "subscribe failed: %v", err)
				break
			}
			g := drainItems(ch, 0, -1, nil)
			time.Sleep(dur) // subscription open and silent for 5x timeout
			env.Svc.Release(t)
			if !core.WaitCh(g.done, 5*timeout+2*time.Second) || g.n() != 3 {
				fail("subscription-broken", "a subscription open for %v on a healthy link delivered %d of 3 values / closed=%v", dur, g.n(), g.isClosed())
			}
		case act == "busyheld":
			// steady outgoing traffic (a new call every ping/2) whose answers all take longer than the timeout
			dur = 3 * timeout
			var held []*Outcome
			stopAt := time.Now().Add(dur)
			for time.Now().Before(stopAt) {
				t := Tok("h")
				env.Svc.Hold(t)
				held = append(held, Go(t, func() (string, error) { return cl.Echo(bg, t, "") }))
				time.Sleep(ping / 2)
			}
			env.Svc.ReleaseAll()
			bad := 0
			for _, o := range held {
				if !o.Wait(5*timeout+2*time.Second) || o.Err != nil || o.Val != svc.Reply(o.Tok) {
					bad++
				}
			}
			if bad > 0 {
				fail("long-call-failed", "%d of %d calls issued every %v and answered only after %v failed on a healthy link (ping %v, timeout %v, server ping %v)", bad, len(held), ping/2, dur, ping, timeout, sping)
			}
		case act == "bigslow":
			dur = 3 * timeout
			old := jsonrpc.VerifSetReadDeadlineResetInterval(timeout / 5)
			defer jsonrpc.VerifSetReadDeadlineResetInterval(old)
			size := 1 << 20
			env.Px.SetThrottle(wsproxy.S2C, int(float64(size)/dur.Seconds()))
			t := Tok("b")
			o := Go(t, func() (string, error) { return cl.Big(bg, t, size) })
			if !o.Wait(6*dur + 5*time.Second) {
				fail("healthy-call-hang", "throttled 1 MiB response never arrived")
			} else if o.Err != nil || len(o.Val) < size {
				fail("slow-read-failed", "a 1 MiB response taking ~%v to arrive (timeout %v) failed: %v", dur, timeout, o.Err)
			}
			env.Px.SetThrottle(wsproxy.S2C, 0)
		}
		if a := env.Px.Accepts(); a != firstAccepts {
			fail("healthy-link-dropped", "healthy link (ping %v < timeout/2 = %v, server ping %v, re-established before: %v) was dropped and redialled %d time(s) during '%s'", ping, timeout/2, sping, sc.I("reconnect") == 1, a-firstAccepts, act)
		}
		nontrivial = dur >= 2*timeout
		sample = map[string]interface{}{"client_ping": cfg[0].String(), "client_timeout": cfg[1].String(), "server_ping": sping.String(), "activity": act, "duration": dur.String(), "accepts": env.Px.Accepts(), "scale": scale}
		return
	}
	// ---- silent peer
	pt := sc.I("pt")
	key = fmt.Sprintf("silent ping=%v timeout=%v point=%d", cfg[0], cfg[1], pt)
	nontrivial = true
	var pending *Outcome
	var g *got
	if pt == 6 {
		env.Px.SetRefuse(true) // the peer stays unreachable: redials fail until the end of the scenario
		defer env.Px.SetRefuse(false)
	}
	switch pt {
	case 1, 6:
		t := Tok("h")
		env.Svc.Hold(t)
		pending = Go(t, func() (string, error) { return cl.Echo(bg, t, "") })
		env.Svc.WaitEntered(t, 5*time.Second)
	case 2:
		t := Tok("s")
		ch, err := cl.Sub(bg, t, 0, svc.SInfinite)
		if err == nil {
			g = drainItems(ch, time.Millisecond, -1, nil)
		}
	}
	if pt == 5 {
		// the link is lost and re-established, and the new connection is silent from the moment its handshake
		// completed - before any pong could arrive on it
		before := env.Px.Accepts()
		env.Px.BlackholeNext(1)
		env.Px.KillAll(wsproxy.RST)
		if !core.Eventually(5*timeout+2*time.Second, func() bool { return env.Px.Accepts() > before }) {
			return nil, "reconnect-failed", false, nil
		}
	}
	acc := env.Px.Accepts()
	t0 := time.Now()
	bound := 5*timeout + 2*time.Second
	if pt == 4 {
		// the peer falls silent in the middle of a frame of a large response (slow-read renewal interval
		// well below the timeout, as the defaults 5 s / 30 s are)
		old := jsonrpc.VerifSetReadDeadlineResetInterval(timeout / 6)
		defer jsonrpc.VerifSetReadDeadlineResetInterval(old)
		env.Px.Arm(&wsproxy.Fault{Kind: wsproxy.BLACKHOLE, Dir: wsproxy.S2C, Pos: 2, Match: func(fi wsproxy.FrameInfo) bool { return fi.Len > 100000 }})
		t := Tok("b")
		pending = Go(t, func() (string, error) { return cl.Big(bg, t, 1<<20) })
		if !pending.Wait(bound) {
			fail("silent-peer-undetected", "a call whose response stopped arriving in the middle of a frame did not fail within %v (timeout %v)", bound, timeout)
		} else if pending.Err == nil {
			fail("silent-peer-undetected", "call across a mid-frame blackhole returned a value of %d bytes (accepts %d -> %d, frames seen %d)", len(pending.Val), acc, env.Px.Accepts(), len(env.Px.Frames()))
		}
		pending = nil
	} else if pt != 5 {
		env.Px.KillAll(wsproxy.BLACKHOLE)
	}
	if pt == 3 || pt == 5 {
		// the application keeps issuing calls (one every timeout/4) while the peer is silent
		first := Go("first", func() (string, error) { t := Tok("c"); return cl.Echo(bg, t, "") })
		stop := make(chan struct{})
		defer close(stop)
		go func() {
			for {
				select {
				case <-stop:
					return
				case <-time.After(timeout / 4):
					t := Tok("c")
					go cl.Echo(bg, t, "")
				}
			}
		}()
		if !first.Wait(bound) {
			fail("silent-peer-undetected", "with calls issued every %v, the first call pending since the peer fell silent did not fail within %v (timeout %v)", timeout/4, bound, timeout)
		} else if first.Err == nil {
			fail("silent-peer-undetected", "call across a blackhole returned a value")
		}
	}
	if pending != nil {
		if !pending.Wait(bound) {
			fail("silent-peer-undetected", "call pending across a blackhole did not fail within %v (timeout %v)", bound, timeout)
		} else if pending.Err == nil {
			fail("silent-peer-undetected", "call pending across a blackhole returned a value")
		}
	}
	if g != nil && !core.WaitCh(g.done, bound) {
		fail("silent-peer-undetected", "subscription channel not closed within %v of the peer falling silent", bound)
	}
	if pt != 6 && !core.Eventually(bound, func() bool { return env.Px.Accepts() > acc }) {
		fail("silent-peer-no-redial", "no redial reached the proxy within %v of the peer falling silent (timeout %v)", bound, timeout)
	}
	sample = map[string]interface{}{"client_ping": cfg[0].String(), "client_timeout": cfg[1].String(), "blackhole_at": []string{"idle", "call in flight", "subscription open", "application keeps calling", "in the middle of a response frame", "from the handshake of a re-established connection on, application keeps calling", "call in flight, peer unreachable for redials too"}[pt], "detected_after": time.Since(t0).String(), "scale": scale}
	env.Svc.ReleaseAll()
	return
}

// pingingPeer: the peer is a foreign websocket server that ignores our pings (never pongs) but sends a ping
// every timeout/8 and answers requests. With ping interval < timeout/2 on our side the link is healthy by
// the property's terms (peer pings count as activity): an idle stretch of 4x the timeout and a call answered
// after 3x the timeout must leave the one connection in place. The margins are 8 peer pings per timeout.
func (p c17) pingingPeer(sc core.Scenario, r *core.R) {
	timeout := time.Duration(sc.I("timeout_ms")) * time.Millisecond
	fails, inconcl := p.pingingPeerOnce(timeout)
	confirmed := 0
	if len(fails) > 0 {
		// wall-clock verdict: believed only when it shows again three times out of three at doubled scale
		for i := 0; i < 3; i++ {
			if f, _ := p.pingingPeerOnce(2 * timeout); len(f) > 0 {
				confirmed++
			}
		}
		if confirmed == 3 {
			for _, f := range fails {
				r.Violate(f[0], "%s (shown again 3/3 at doubled scale)", f[1])
			}
		} else {
			inconcl = fmt.Sprintf("a keepalive failure at timeout %v was not reproduced at doubled scale (%d/3): %s", timeout, confirmed, fails[0][1])
		}
	}
	if inconcl != "" && len(fails) == 0 || (len(fails) > 0 && confirmed < 3) {
		r.Inconclusive("%s", inconcl)
	}
	r.Key(fmt.Sprintf("pinging-peer timeout=%v", timeout), true)
	r.Obs("executions", 1)
	r.Sample(map[string]interface{}{"scenario": "foreign peer that pings but never pongs", "timeout_ms": sc.I("timeout_ms"), "failed_first_run": len(fails) > 0})
}

func (c17) pingingPeerOnce(timeout time.Duration) (fails [][2]string, inconclusive string) {
	violate := func(fp, f string, a ...interface{}) { fails = append(fails, [2]string{fp, fmt.Sprintf(f, a...)}) }
	var conns int64
	up := websocket.Upgrader{}
	ts := httptest.NewServer(http.HandlerFunc(func(w http.ResponseWriter, q *http.Request) {
		c, err := up.Upgrade(w, q, nil)
		if err != nil {
			return
		}
		atomic.AddInt64(&conns, 1)
		defer c.Close()
		var wmu sync.Mutex
		c.SetPingHandler(func(string) error { return nil }) // never pongs
		stop := make(chan struct{})
		defer close(stop)
		go func() {
			t := time.NewTicker(timeout / 8)
			defer t.Stop()
			for {
				select {
				case <-stop:
					return
				case <-t.C:
					wmu.Lock()
					c.WriteControl(websocket.PingMessage, []byte("peer"), time.Now().Add(time.Second))
					wmu.Unlock()
				}
			}
		}()
		for {
			_, msg, err := c.ReadMessage()
			if err != nil {
				return
			}
			var rq struct {
				ID     json.RawMessage   `json:"id"`
				Method string            `json:"method"`
				Params []json.RawMessage `json:"params"`
			}
			if json.Unmarshal(msg, &rq) != nil || rq.ID == nil || len(rq.Params) < 1 {
				continue
			}
			var tok string
			json.Unmarshal(rq.Params[0], &tok)
			go func() {
				if strings.HasPrefix(tok, "Tslow") {
					time.Sleep(3 * timeout)
				}
				wmu.Lock()
				c.WriteMessage(websocket.TextMessage, []byte(fmt.Sprintf(`{"jsonrpc":"2.0","id":%s,"result":%q}`, rq.ID, svc.Reply(tok))))
				wmu.Unlock()
			}()
		}
	}))
	defer ts.Close()
	var cl Client
	closer, err := jsonrpc.NewMergeClient(context.Background(), "ws://"+ts.Listener.Addr().String(), "S", []interface{}{&cl.Client}, nil,
		jsonrpc.WithPingInterval(timeout/5), jsonrpc.WithTimeout(timeout), jsonrpc.WithReconnectBackoff(5*time.Millisecond, 20*time.Millisecond))
	if err != nil {
		return nil, fmt.Sprintf("client: %v", err)
	}
	defer closer()
	bg := context.Background()
	w := Tok("w")
	if v, err := cl.Echo(bg, w, ""); err != nil || v != svc.Reply(w) {
		return nil, fmt.Sprintf("warm-up call failed: %v", err)
	}
	time.Sleep(4 * timeout) // idle: only the peer's pings arrive
	if n := atomic.LoadInt64(&conns); n != 1 {
		violate("healthy-link-dropped", "peer pinging every timeout/8 (and not answering our pings): %d connections after an idle stretch of 4x the timeout (%v)", n, timeout)
	}
	st := "Tslow" + Tok("x")
	o := Go(st, func() (string, error) { return cl.Echo(bg, st, "") })
	if !o.Wait(3*timeout + core.Grace) {
		violate("long-call-failed", "a call answered after 3x the timeout by a peer that keeps pinging never returned")
	} else if o.Err != nil || o.Val != svc.Reply(st) {
		violate("long-call-failed", "a call answered after 3x the timeout (%v) by a peer that keeps pinging returned (%q, %v)", timeout, core.Trunc(o.Val, 40), o.Err)
	}
	if n := atomic.LoadInt64(&conns); n != 1 {
		violate("healthy-link-dropped", "peer pinging every timeout/8: %d connections at the end (timeout %v)", n, timeout)
	}
	return fails, ""
}
