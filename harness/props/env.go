// Package props contains one runner per property (cNN.go) plus the shared
// environment builder.
package props

import (
	"context"
	"fmt"
	"net/http"
	"net/http/httptest"
	"strings"
	"sync"
	"time"

	jsonrpc "github.com/filecoin-project/go-jsonrpc"

	"vharness/core"
	"vharness/svc"
	"vharness/wsproxy"
)

type EnvOpt struct {
	NoProxy    bool
	ServerOpts []jsonrpc.ServerOption
	Rev        bool // server gets WithReverseClient[svc.RevAPI]("R")
	NoSvc      bool
	Wrap       func(http.Handler) http.Handler // middleware in front of the RPC server (e.g. auth.Handler)
}

// Env is a server (+ optional hostile proxy) that clients can be attached to.
type Env struct {
	Svc *svc.Svc
	RPC *jsonrpc.RPCServer
	TS  *httptest.Server
	Px  *wsproxy.Proxy

	mu      sync.Mutex
	cancels []context.CancelFunc
	closers []func()
}

func NewEnv(o EnvOpt) *Env {
	e := &Env{Svc: svc.New()}
	opts := append([]jsonrpc.ServerOption{}, o.ServerOpts...)
	if o.Rev {
		opts = append(opts, jsonrpc.WithReverseClient[svc.RevAPI]("R"))
	}
	e.RPC = jsonrpc.NewServer(opts...)
	if !o.NoSvc {
		e.RPC.Register("S", e.Svc)
	}
	e.TS = httptest.NewServer(http.HandlerFunc(func(w http.ResponseWriter, r *http.Request) {
		ctx, cancel := context.WithCancel(r.Context())
		e.mu.Lock()
		e.cancels = append(e.cancels, cancel)
		e.mu.Unlock()
		var h http.Handler = e.RPC
		if o.Wrap != nil {
			h = o.Wrap(e.RPC)
		}
		h.ServeHTTP(w, r.WithContext(ctx))
	}))
	if !o.NoProxy {
		e.Px = wsproxy.New(e.TS.Listener.Addr().String())
	}
	return e
}

// CancelServerContexts cancels the context of every request accepted so far
// (the "server shuts the connection down" cause).
func (e *Env) CancelServerContexts() {
	e.mu.Lock()
	cs := e.cancels
	e.cancels = nil
	e.mu.Unlock()
	for _, c := range cs {
		c()
	}
}

func (e *Env) Addr(transport string) string {
	host := e.TS.Listener.Addr().String()
	if e.Px != nil {
		host = e.Px.Addr()
	}
	if transport == "http" {
		return "http://" + host
	}
	return "ws://" + host
}

type ClientOpt struct {
	Transport string
	Opts      []jsonrpc.Option
	RevIdent  string // non-empty: attach a reverse handler with this identity
	RevSvc    *svc.Svc
	RevAlias  map[string]string // client-side handler aliases; nil = {"R.AliasIdent": "R.Ident"}
	Direct    bool              // bypass the proxy
	Ctx       context.Context
	Header    http.Header // extra headers of the client's HTTP requests / websocket handshake
}

type Client struct {
	svc.Client
	Close  jsonrpc.ClientCloser
	RevSvc *svc.Svc
	closed bool
}

func (e *Env) NewClient(o ClientOpt) (*Client, error) {
	c := &Client{}
	opts := append([]jsonrpc.Option{}, o.Opts...)
	if o.RevIdent != "" {
		c.RevSvc = o.RevSvc
		if c.RevSvc == nil {
			c.RevSvc = svc.New()
		}
		opts = append(opts, jsonrpc.WithClientHandler("R", &svc.RevHandler{Identity: o.RevIdent, S: c.RevSvc, Fwd: &c.Client}))
		al := o.RevAlias
		if al == nil {
			al = map[string]string{"R.AliasIdent": "R.Ident"}
		}
		for k, v := range al {
			opts = append(opts, jsonrpc.WithClientHandlerAlias(k, v))
		}
	}
	tr := o.Transport
	if tr == "" {
		tr = "ws"
	}
	addr := e.Addr(tr)
	if o.Direct {
		addr = strings.Replace(addr, e.Px.Addr(), e.TS.Listener.Addr().String(), 1)
	}
	cctx := o.Ctx
	if cctx == nil {
		cctx = context.Background()
	}
	closer, err := jsonrpc.NewMergeClient(cctx, addr, "S", []interface{}{&c.Client}, o.Header, opts...)
	if err != nil {
		return nil, err
	}
	var once sync.Once
	c.Close = func() { once.Do(closer) }
	e.mu.Lock()
	e.closers = append(e.closers, func() {
		done := make(chan struct{})
		go func() { c.Close(); close(done) }()
		select {
		case <-done:
		case <-time.After(3 * time.Second):
		}
	})
	e.mu.Unlock()
	return c, nil
}

// Shutdown tears everything down (best effort, bounded).
func (e *Env) Shutdown() {
	e.Svc.ReleaseAll()
	e.mu.Lock()
	cl := e.closers
	e.closers = nil
	e.mu.Unlock()
	for _, c := range cl {
		go c()
	}
	time.Sleep(5 * time.Millisecond)
	if e.Px != nil {
		e.Px.Close()
	}
	e.CancelServerContexts()
	done := make(chan struct{})
	go func() {
		e.TS.CloseClientConnections()
		e.TS.Close()
		close(done)
	}()
	select {
	case <-done:
	case <-time.After(3 * time.Second):
	}
}

// Call result captured from a goroutine.
type Outcome struct {
	Tok  string
	Val  string
	Err  error
	Done chan struct{}
	T0   time.Time
	T1   time.Time
}

func Go(tok string, f func() (string, error)) *Outcome {
	o := &Outcome{Tok: tok, Done: make(chan struct{}), T0: time.Now()}
	go func() {
		o.Val, o.Err = f()
		o.T1 = time.Now()
		close(o.Done)
	}()
	return o
}
func (o *Outcome) Returned() bool {
	select {
	case <-o.Done:
		return true
	default:
		return false
	}
}
func (o *Outcome) Wait(d time.Duration) bool { return core.WaitCh(o.Done, d) }

var tokCtr int64
var tokMu sync.Mutex

// Tok mints a fresh token in the proxy-recognisable form T<lane>x<n>.
func Tok(lane string) string {
	tokMu.Lock()
	defer tokMu.Unlock()
	tokCtr++
	return fmt.Sprintf("T%sx%d", lane, tokCtr)
}

func errStr(err error) string {
	if err == nil {
		return "<nil>"
	}
	return err.Error()
}
