package props

import (
	"context"
	"fmt"
	"strconv"
	"strings"
	"sync"
	"sync/atomic"
	"time"

	jsonrpc "github.com/filecoin-project/go-jsonrpc"

	"vharness/core"
	"vharness/svc"
	"vharness/wsproxy"
)

// C07 – channel streams: order, no loss, no duplicates, isolation.

type c07 struct{}

func init() { core.Register(c07{}) }

func (c07) ID() string    { return "C07" }
func (c07) Level() string { return "exploration" }
func (c07) Race() bool    { return true }
func (c07) Rule() string {
	return "S in 1..8 concurrent subscriptions on one healthy connection, lengths from {0,1,2,31,32,33,255,256,257,1000,5000} (around the sink buffer 32 and the frame queue 256, which a verif setter also shrinks to 4), element types struct/int/string/[]byte/pointer, producers {prefilled channel, goroutine, bursty, slow}, consumers {attentive, slow, stalled-then-drained}, unary probes and new subscriptions interleaved with forwarding, seeded hook delays at ws.chan.reg/fwd, cl.sink.deliver, ws.exec.frame and window W6 (value forward parked while another channel registers). Distinct = (S, length classes, producer, consumer, element type, queue size, signature); non-trivial = at least one value was in flight while another stream or call was active. Oracles: exact per-stream sequence equality with unique (stream, seq) values, close only after the last value, wire order (response announcing a channel precedes its first xrpc.ch.val) from the proxy's frame log, no foreign values, progress of other streams/calls while one consumer is stalled."
}
func (c07) Assumptions() []string {
	return []string{"healthy connection only (termination under faults is C08)", "stalled-consumer progress is judged logically: the other operations completed while the stalled stream still had unread values"}
}

var c07Lens = []int{0, 1, 2, 31, 32, 33, 255, 256, 257, 1000, 5000}

func (c07) Plan(tier string, seed int64) []core.Scenario {
	n := 220
	if tier == "thorough" {
		n = 3500
	}
	rng := core.Scenario{Seed: seed}.Rand()
	var out []core.Scenario
	for i := 0; i < n; i++ {
		s := 1 + rng.Intn(8)
		if i%7 == 0 {
			s = 1
		}
		sc := core.Sc("streams").WithN("s", s).WithN("prod", rng.Intn(4)).WithN("cons", rng.Intn(3)).WithN("etype", i%5).WithN("noise", i%3).WithN("q", []int{0, 0, 4}[rng.Intn(3)])
		lens := make([]int, s)
		for j := range lens {
			lens[j] = c07Lens[rng.Intn(len(c07Lens))]
			if tier != "thorough" && lens[j] > 1000 && i%10 != 0 {
				lens[j] = 257
			}
		}
		out = append(out, sc.WithL(lens))
	}
	// every length at least once alone and with a stalled sibling
	for _, l := range c07Lens {
		out = append(out, core.Sc("streams").WithN("s", 1).WithN("prod", 0).WithN("cons", 0).WithN("etype", 0).WithN("noise", 1).WithL([]int{l}))
		out = append(out, core.Sc("streams").WithN("s", 2).WithN("prod", 1).WithN("cons", 2).WithN("etype", 0).WithN("noise", 2).WithL([]int{l, 300}))
	}
	// a consumer that stops reading for a long stretch (tens of thousands of queued values)
	big := []int{20000}
	if tier == "thorough" {
		big = []int{20000, 50000, 120000}
	}
	for _, l := range big {
		out = append(out, core.Sc("streams").WithN("s", 2).WithN("prod", 1).WithN("cons", 2).WithN("etype", 1).WithN("noise", 0).WithL([]int{l, 50}))
		out = append(out, core.Sc("streams").WithN("s", 3).WithN("prod", 0).WithN("cons", 2).WithN("etype", 0).WithN("noise", 1).WithL([]int{l, 300, 2}))
	}
	ncs := 6
	if tier == "thorough" {
		ncs = 60
	}
	for i := 0; i < ncs; i++ {
		out = append(out, core.Sc("cancel-sibling").WithN("pre", 1+i%4).WithN("subs", 2+i%3).WithN("noise", i%3))
	}
	nw := 12
	if tier == "thorough" {
		nw = 200
	}
	for i := 0; i < nw; i++ {
		out = append(out, core.Sc("w6").WithN("variant", i%4).WithN("noise", i%3))
	}
	for i := 0; i < 2; i++ {
		out = append(out, core.Sc("mixed-sizes").WithN("kb", []int{1200, 2100}[i]).WithN("noise", i))
		out = append(out, core.Sc("sub-behind-big").WithN("mb", 24).WithN("subs", 4+4*i).WithN("noise", i))
	}
	for i := 0; i < 3; i++ {
		out = append(out, core.Sc("unencodable").WithN("at", []int{0, 5, 11}[i]).WithN("noise", i%3))
		out = append(out, core.Sc("revsub-reconnect").WithN("pre", i%2).WithN("noise", i%3))
	}
	for i := range out {
		out[i].Seed = seed*32452843 + int64(i)
	}
	// streams of several connections of one process forwarded at the same time, next to unary traffic
	for i := 0; i < 2; i++ {
		out = append(out, core.Sc("multi-conn").WithN("conns", 4+4*i).WithN("len", 3000).WithN("noise", i))
	}
	// single-stall pair enumeration on a healthy connection (streams judged here, calls in C02); the quick
	// sample differs from C02's
	out = append(out, planStallPairs(tier, seed+1000003, "streams")...)
	return out
}

func (p c07) Run(sc core.Scenario) core.Result {
	r := core.NewR(sc)
	switch sc.Kind {
	case "streams":
		p.streams(sc, r)
	case "w6":
		p.w6(sc, r)
	case "cancel-sibling":
		p.cancelSibling(sc, r)
	case "unencodable":
		p.unencodable(sc, r)
	case "revsub-reconnect":
		p.revSubReconnect(sc, r)
	case "mixed-sizes":
		p.mixedSizes(sc, r)
	case "sub-behind-big":
		p.subBehindBig(sc, r)
	case "stallpair":
		runStallPair(sc, r)
	case "multi-conn":
		p.multiConn(sc, r)
	}
	return r.Result()
}

// got is what a consumer observed on one client channel.
type got struct {
	mu     sync.Mutex
	keys   []string // "<tok>:<seq>" per received value
	closed bool
	done   chan struct{}
}

func newGot() *got { return &got{done: make(chan struct{})} }
func (g *got) add(k string) {
	g.mu.Lock()
	g.keys = append(g.keys, k)
	g.mu.Unlock()
}
func (g *got) isClosed() bool {
	g.mu.Lock()
	defer g.mu.Unlock()
	return g.closed
}
func (g *got) n() int {
	g.mu.Lock()
	defer g.mu.Unlock()
	return len(g.keys)
}
func (g *got) snapshot() []string {
	g.mu.Lock()
	defer g.mu.Unlock()
	return append([]string(nil), g.keys...)
}

// subscribe opens one stream of the given element type and returns a drain function.
func subscribe(ctx context.Context, cl *svc.Client, etype int, tok string, n, mode int) (start func(delay time.Duration, gate <-chan struct{}) *got, err error) {
	run := func(next func() (string, bool)) func(time.Duration, <-chan struct{}) *got {
		return func(delay time.Duration, gate <-chan struct{}) *got {
			g := newGot()
			go func() {
				if gate != nil {
					<-gate
				}
				for {
					k, ok := next()
					if !ok {
						g.mu.Lock()
						g.closed = true
						g.mu.Unlock()
						close(g.done)
						return
					}
					g.add(k)
					if delay > 0 {
						time.Sleep(delay)
					}
				}
			}()
			return g
		}
	}
	switch etype {
	case 1:
		ch, e := cl.SubInt(ctx, tok, n, mode)
		if e != nil {
			return nil, e
		}
		return run(func() (string, bool) { v, ok := <-ch; return tok + ":" + strconv.Itoa(v), ok }), nil
	case 2:
		ch, e := cl.SubStr(ctx, tok, n, mode)
		if e != nil {
			return nil, e
		}
		return run(func() (string, bool) { v, ok := <-ch; return v, ok }), nil
	case 3:
		ch, e := cl.SubBytes(ctx, tok, n, mode)
		if e != nil {
			return nil, e
		}
		return run(func() (string, bool) { v, ok := <-ch; return string(v), ok }), nil
	case 4:
		ch, e := cl.SubPtr(ctx, tok, n, mode)
		if e != nil {
			return nil, e
		}
		return run(func() (string, bool) {
			v, ok := <-ch
			if !ok {
				return "", false
			}
			if v == nil {
				return "NILPTR", true
			}
			return v.Tok + ":" + strconv.Itoa(v.Seq), true
		}), nil
	default:
		ch, e := cl.Sub(ctx, tok, n, mode)
		if e != nil {
			return nil, e
		}
		return run(func() (string, bool) { v, ok := <-ch; return v.Tok + ":" + strconv.Itoa(v.Seq), ok }), nil
	}
}

func checkSeq(r *core.R, what, tok string, keys []string, n int, exact bool) {
	for i, k := range keys {
		want := tok + ":" + strconv.Itoa(i)
		if k != want {
			kind := "stream-reordered-or-lost"
			if !strings.HasPrefix(k, tok+":") {
				kind = "stream-foreign-value"
			}
			r.Violate(kind, "%s %s: value #%d is %q, expected %q (received %d of %d sent)", what, tok, i, k, want, len(keys), n)
			return
		}
	}
	if exact && len(keys) != n {
		r.Violate("stream-truncated", "%s %s: channel closed after %d values, handler sent %d before closing", what, tok, len(keys), n)
	}
	if len(keys) > n {
		r.Violate("stream-invented", "%s %s: received %d values, handler sent only %d", what, tok, len(keys), n)
	}
}

// wireOrder: per connection, the response announcing channel c precedes the first xrpc.ch.val for c.
func wireOrder(px *wsproxy.Proxy, r *core.R) {
	type key struct {
		conn int
		ch   string
	}
	announced := map[key]bool{}
	subReq := map[string]bool{} // "conn:id" of Sub* requests
	vals := 0
	for _, f := range px.Frames() {
		if f.Msg == nil || !f.Msg.Valid {
			continue
		}
		if f.Dir == wsproxy.C2S && strings.HasPrefix(f.Msg.Method, "S.Sub") {
			subReq[fmt.Sprintf("%d:%s", f.ConnN, f.Msg.ID)] = true
		}
		if f.Dir != wsproxy.S2C {
			continue
		}
		if f.Msg.Method == "" && f.Msg.HasResult && subReq[fmt.Sprintf("%d:%s", f.ConnN, f.Msg.ID)] {
			announced[key{f.ConnN, strings.TrimSpace(f.Msg.Result)}] = true
		}
		if f.Msg.Method == "xrpc.ch.val" || f.Msg.Method == "xrpc.ch.close" {
			p := strings.TrimPrefix(strings.TrimSpace(f.Msg.Params), "[")
			ch := p
			if i := strings.IndexAny(p, ",]"); i >= 0 {
				ch = p[:i]
			}
			vals++
			if !announced[key{f.ConnN, ch}] {
				r.Violate("wire-order", "conn %d: %s for channel %s was put on the wire before the response announcing that channel", f.ConnN, f.Msg.Method, ch)
				return
			}
		}
	}
	r.Obs("chan_frames_checked", int64(vals))
}

func (c07) streams(sc core.Scenario, r *core.R) {
	S := sc.I("s")
	prod, cons, etype := sc.I("prod"), sc.I("cons"), sc.I("etype")
	if q := sc.I("q"); q > 0 {
		old := jsonrpc.VerifSetMaxQueuedFrames(q)
		defer jsonrpc.VerifSetMaxQueuedFrames(old)
	}
	env := NewEnv(EnvOpt{})
	defer env.Shutdown()
	pol := noisePolicy(sc)
	defer pol.Install()()
	c, err := env.NewClient(ClientOpt{})
	if err != nil {
		r.Inconclusive("client: %v", err)
		return
	}
	cl := &c.Client
	ctx, cancel := context.WithCancel(context.Background())
	defer cancel()
	toks := make([]string, S)
	gots := make([]*got, S)
	stallGate := make(chan struct{})
	stalledIdx := -1
	if cons == 2 {
		stalledIdx = 0
	}
	mode := prod
	if etype != 0 && mode > 1 {
		mode = 1 // typed streams support prefilled/goroutine only
	}
	var probesOK int64
	var pw sync.WaitGroup
	// half of the scenarios open all subscriptions at the same moment (the calls overlap), the rest one by one
	type subRes struct {
		start func(time.Duration, <-chan struct{}) *got
		err   error
	}
	pre := make([]chan subRes, S)
	for i := 0; i < S; i++ {
		toks[i] = Tok("s")
	}
	if sc.Seed%2 == 0 && S > 1 {
		for i := 0; i < S; i++ {
			i := i
			pre[i] = make(chan subRes, 1)
			go func() {
				st, err := subscribe(ctx, cl, etype, toks[i], sc.L[i], mode)
				pre[i] <- subRes{st, err}
			}()
		}
	}
	for i := 0; i < S; i++ {
		var start func(time.Duration, <-chan struct{}) *got
		var err error
		if pre[i] != nil {
			select {
			case sr := <-pre[i]:
				start, err = sr.start, sr.err
			case <-time.After(2 * core.Grace):
				r.Violate("stream-not-closed", "subscribe call %d of %d concurrent ones never returned on a healthy link; events: %s", i, S, core.Log.Tail(30))
				return
			}
		} else {
			start, err = subscribe(ctx, cl, etype, toks[i], sc.L[i], mode)
		}
		if err != nil {
			r.Violate("subscribe-failed", "subscription %d of %d failed on a healthy link: %v", i, S, err)
			return
		}
		delay := time.Duration(0)
		if cons == 1 && i%2 == 0 {
			delay = 50 * time.Microsecond
		}
		var gate <-chan struct{}
		if i == stalledIdx {
			gate = stallGate
		}
		gots[i] = start(delay, gate)
		// unary calls interleaved with forwarding
		pw.Add(1)
		go func() {
			defer pw.Done()
			for j := 0; j < 6; j++ {
				t := Tok("p")
				if v, err := cl.Echo(ctx, t, ""); err == nil && v == svc.Reply(t) {
					atomic.AddInt64(&probesOK, 1)
				} else {
					r.Violate("probe-failed", "unary call interleaved with streaming failed: (%q, %v)", v, err)
				}
			}
		}()
	}
	pdone := make(chan struct{})
	go func() { pw.Wait(); close(pdone) }()
	if !core.WaitCh(pdone, 3*core.Grace) {
		r.Violate("stalled-subscriber-blocks", "unary calls did not complete while %d streams were being forwarded (stalled consumer: %v); events: %s", S, stalledIdx >= 0, core.Log.Tail(30))
	}
	// all non-stalled streams must complete while the stalled one is not being read
	inFlight := false
	for i := 0; i < S; i++ {
		if i == stalledIdx {
			continue
		}
		if i := i; !core.WaitProgress(gots[i].done, 2*core.Grace, func() int64 { return int64(gots[i].n()) }) {
			r.Violate("stream-not-closed", "stream %d/%d (%s, len %d, etype %d) did not complete: received %d, handler sent %d closed=%v; stalled sibling=%v; events: %s",
				i, S, toks[i], sc.L[i], etype, gots[i].n(), env.Svc.Get(toks[i]).Sent, env.Svc.Get(toks[i]).Closed, stalledIdx >= 0, core.Log.Tail(30))
		}
		if sc.L[i] > 0 {
			inFlight = true
		}
	}
	if stalledIdx >= 0 {
		if sc.L[stalledIdx] > 0 && gots[stalledIdx].n() == 0 {
			inFlight = true
		}
		// the handler of the unread stream must be able to hand over everything (the client buffers it),
		// and the connection must keep serving calls and new subscriptions while all of it sits unread
		st := toks[stalledIdx]
		if etype == 0 || mode == svc.SPrefilled {
			if !core.EventuallyProgress(3*core.Grace, func() int64 { return int64(env.Svc.Get(st).Sent) }, func() bool { return int(env.Svc.Get(st).Sent) >= sc.L[stalledIdx] }) {
				r.Violate("stalled-subscriber-blocks", "the handler of the unread stream could hand over only %d of %d values: the connection stopped forwarding", env.Svc.Get(st).Sent, sc.L[stalledIdx])
			}
		} else {
			core.EventuallyProgress(3*core.Grace, func() int64 { return int64(env.Svc.Get(st).Sent) }, func() bool { return int(env.Svc.Get(st).Sent) >= sc.L[stalledIdx] })
		}
		for j := 0; j < 4; j++ {
			t := Tok("p")
			o := Go(t, func() (string, error) { return cl.Echo(ctx, t, "") })
			if !o.Wait(core.Grace) || o.Err != nil || o.Val != svc.Reply(t) {
				r.Violate("stalled-subscriber-blocks", "with %d values of a subscription unread (%d handed over by the handler), an ordinary call on the same connection got (%q, %v) / blocked; events: %s", sc.L[stalledIdx], env.Svc.Get(st).Sent, o.Val, o.Err, core.Log.Tail(20))
				break
			}
		}
		if !r.Violated() {
			t := Tok("s")
			if start, err := subscribe(ctx, cl, 0, t, 20, svc.SGoroutine); err != nil {
				r.Violate("stalled-subscriber-blocks", "new subscription while another one is unread failed: %v", err)
			} else {
				g := start(0, nil)
				if !core.WaitCh(g.done, core.Grace) {
					r.Violate("stalled-subscriber-blocks", "a new subscription made no progress while another one is unread (%d of 20)", g.n())
				}
			}
		}
		close(stallGate)
		if !core.WaitProgress(gots[stalledIdx].done, 2*core.Grace, func() int64 { return int64(gots[stalledIdx].n()) }) {
			r.Violate("stream-not-closed", "previously stalled stream (len %d) did not complete after draining: received %d", sc.L[stalledIdx], gots[stalledIdx].n())
		}
	}
	for i := 0; i < S; i++ {
		checkSeq(r, "stream", toks[i], gots[i].snapshot(), sc.L[i], true)
		r.Obs("values_received", int64(gots[i].n()))
	}
	wireOrder(env.Px, r)
	lc := ""
	for _, l := range sc.L {
		switch {
		case l == 0:
			lc += "0"
		case l <= 2:
			lc += "s"
		case l <= 33:
			lc += "b"
		case l <= 257:
			lc += "q"
		default:
			lc += "L"
		}
	}
	r.Key(fmt.Sprintf("S=%d len=%s prod=%d cons=%d et=%d q=%d sig=%s", S, lc, mode, cons, etype, sc.I("q"), core.Log.Signature()[:8]), inFlight && (S > 1 || atomic.LoadInt64(&probesOK) > 0))
	r.Obs("streams", int64(S))
	r.Sig(core.Log.Signature())
	r.Sample(map[string]interface{}{"subscriptions": S, "lengths": sc.L, "producer": []string{"prefilled", "goroutine", "bursty", "slow"}[mode], "consumer": []string{"attentive", "slow", "one stalled then drained"}[cons], "element": []string{"struct", "int", "string", "[]byte", "*struct"}[etype], "frame_queue": sc.I("q")})
}

// cancelSibling: after some ordinary calls (request ids and channel ids have diverged) several endless
// subscriptions are open; one subscriber cancels. The others keep receiving, in order, and stay open.
func (c07) cancelSibling(sc core.Scenario, r *core.R) {
	env := NewEnv(EnvOpt{})
	defer env.Shutdown()
	pol := noisePolicy(sc)
	defer pol.Install()()
	c, err := env.NewClient(ClientOpt{})
	if err != nil {
		r.Inconclusive("client: %v", err)
		return
	}
	bg := context.Background()
	for i := 0; i < sc.I("pre"); i++ {
		t := Tok("p")
		c.Echo(bg, t, "")
	}
	n := sc.I("subs")
	toks := make([]string, n)
	gots := make([]*got, n)
	cancels := make([]context.CancelFunc, n)
	for i := 0; i < n; i++ {
		ctx, cancel := context.WithCancel(bg)
		defer cancel()
		cancels[i] = cancel
		toks[i] = Tok("s")
		ch, err := c.Sub(ctx, toks[i], 0, svc.SInfinite)
		if err != nil {
			r.Violate("subscribe-failed", "%v", err)
			return
		}
		gots[i] = drainItems(ch, 20*time.Microsecond, -1, nil)
	}
	core.Eventually(core.Grace, func() bool { return gots[0].n() > 20 })
	victim := n - 1
	cancels[victim]()
	if !core.WaitCh(gots[victim].done, core.Grace) {
		r.Violate("stream-not-closed", "the cancelled subscription did not close")
	}
	// a round trip, then every surviving stream must still be open and make progress
	p := Tok("p")
	c.Echo(bg, p, "")
	for i := 0; i < victim; i++ {
		before := gots[i].n()
		if gots[i].isClosed() || !core.Eventually(core.Grace, func() bool { return gots[i].n() > before+50 || gots[i].isClosed() }) || gots[i].isClosed() {
			r.Violate("stream-truncated", "subscription %d of %d ended (or stopped delivering) after ANOTHER subscription's context was cancelled: closed=%v received=%d; %d ordinary calls preceded the subscriptions", i, n, gots[i].isClosed(), gots[i].n(), sc.I("pre"))
		}
		if env.Svc.Get(toks[i]).Ctx.Err() != nil {
			r.Violate("stream-truncated", "the handler context of subscription %d was cancelled by the cancel of subscription %d", i, victim)
		}
	}
	for i := 0; i < victim; i++ {
		cancels[i]()
		core.WaitCh(gots[i].done, core.Grace)
		checkSeq(r, "cancel-sibling", toks[i], gots[i].snapshot(), int(env.Svc.Get(toks[i]).Sent)+1, false)
	}
	r.Key(fmt.Sprintf("cancel-sibling pre=%d subs=%d", sc.I("pre"), n), true)
	r.Obs("streams", int64(n))
	r.Sig(core.Log.Signature())
	r.Sample(map[string]interface{}{"scenario": "one of several endless subscriptions is cancelled", "ordinary_calls_before": sc.I("pre"), "subscriptions": n})
}

// w6: a value forward is parked (ws.chan.fwd) while another channel registers and sends its first value.
func (c07) w6(sc core.Scenario, r *core.R) {
	env := NewEnv(EnvOpt{})
	defer env.Shutdown()
	pol := noisePolicy(sc)
	v := sc.I("variant")
	switch v {
	case 0:
		pol.Rules = append(pol.Rules, &core.Rule{Point: "ws.chan.fwd", Side: 2, Occ: 3, Do: pol.StallUntil("ws.chan.reg", 2, 100*time.Millisecond)})
	case 1:
		pol.Rules = append(pol.Rules, &core.Rule{Point: "ws.chan.reg", Side: 2, Occ: 2, Do: func(jsonrpc.VerifEvent) { time.Sleep(5 * time.Millisecond) }})
	case 2:
		pol.Rules = append(pol.Rules, &core.Rule{Point: "cl.sink.deliver", Occ: 2, Do: pol.StallUntil("ws.exec.frame", 1, 50*time.Millisecond)})
	case 3:
		pol.Rules = append(pol.Rules, &core.Rule{Point: "ws.resp.lookup", Side: 1, Occ: 2, Do: func(jsonrpc.VerifEvent) { time.Sleep(3 * time.Millisecond) }})
	}
	defer pol.Install()()
	c, err := env.NewClient(ClientOpt{})
	if err != nil {
		r.Inconclusive("client: %v", err)
		return
	}
	ctx, cancel := context.WithCancel(context.Background())
	defer cancel()
	t1, t2 := Tok("s"), Tok("s")
	s1, err := subscribe(ctx, &c.Client, 0, t1, 40, svc.SGoroutine)
	if err != nil {
		r.Violate("subscribe-failed", "w6: %v", err)
		return
	}
	g1 := s1(0, nil)
	s2, err := subscribe(ctx, &c.Client, 0, t2, 40, svc.SPrefilled)
	if err != nil {
		r.Violate("subscribe-failed", "w6: %v", err)
		return
	}
	g2 := s2(0, nil)
	for i, g := range []*got{g1, g2} {
		if !core.WaitCh(g.done, 2*core.Grace) {
			r.Violate("stream-not-closed", "w6: stream %d did not complete (received %d of 40)", i, g.n())
		}
	}
	checkSeq(r, "w6", t1, g1.snapshot(), 40, true)
	checkSeq(r, "w6", t2, g2.snapshot(), 40, true)
	wireOrder(env.Px, r)
	r.Key(fmt.Sprintf("w6 v%d sig=%s", v, core.Log.Signature()[:8]), true)
	r.Obs("streams", 2)
	r.Obs("values_received", int64(g1.n()+g2.n()))
	r.Sig(core.Log.Signature())
	r.Sample(map[string]interface{}{"window": "value forward parked while another channel registers", "variant": v})
}

// multiConn: several websocket connections to one server in one process; on each, two streams are forwarded
// while unary calls keep the connection's writer busy. Every stream must be complete, in order, free of
// values of any other stream (of this or another connection), and closed.
func (c07) multiConn(sc core.Scenario, r *core.R) {
	env := NewEnv(EnvOpt{NoProxy: true})
	defer env.Shutdown()
	defer noisePolicy(sc).Install()()
	nc, ln := sc.I("conns"), sc.I("len")
	bg := context.Background()
	type st struct {
		tok string
		g   *got
	}
	var mu sync.Mutex
	var all []st
	var wg sync.WaitGroup
	var stop int32
	var echoes, echoBad int64
	for c := 0; c < nc; c++ {
		cl, err := env.NewClient(ClientOpt{})
		if err != nil {
			r.Inconclusive("client: %v", err)
			return
		}
		for k := 0; k < 2; k++ {
			t := Tok(fmt.Sprintf("m%d", c%10))
			var ch <-chan svc.Item
			so := Go(t, func() (string, error) {
				var err error
				ch, err = cl.Sub(bg, t, ln, svc.SGoroutine)
				return "", err
			})
			if !so.Wait(core.Grace) {
				atomic.StoreInt32(&stop, 1)
				r.Violate("stream-not-closed", "connection %d of %d: a subscribing call never returned while streams of other connections were being forwarded", c, nc)
				return
			}
			if so.Err != nil {
				atomic.StoreInt32(&stop, 1)
				r.Violate("subscribe-failed", "connection %d: %v", c, so.Err)
				return
			}
			mu.Lock()
			all = append(all, st{t, drainItems(ch, 0, -1, nil)})
			mu.Unlock()
		}
		wg.Add(1)
		go func(cl *Client) {
			defer wg.Done()
			for atomic.LoadInt32(&stop) == 0 {
				t := Tok("e")
				eo := Go(t, func() (string, error) { return cl.Echo(bg, t, "pad-pad-pad-pad-pad-pad-pad-pad") })
				atomic.AddInt64(&echoes, 1)
				if !eo.Wait(core.Grace) {
					atomic.AddInt64(&echoBad, 1)
					return
				}
				if eo.Err != nil || eo.Val != svc.Reply(t) {
					atomic.AddInt64(&echoBad, 1)
				}
			}
		}(cl)
	}
	stalled := 0
	for i, s := range all {
		s := s
		wait := core.Grace
		if stalled >= 2 {
			wait = 300 * time.Millisecond // the verdict is established; do not spend the grace on every further stream
		}
		if !core.WaitProgress(s.g.done, wait, func() int64 { return int64(s.g.n()) }) {
			stalled++
			r.Violate("stream-not-closed", "stream %d (%s) of %d on %d connections stalled after %d of %d values", i, s.tok, len(all), nc, s.g.n(), ln)
			continue
		}
		checkSeq(r, "multi-conn", s.tok, s.g.snapshot(), ln, true)
	}
	atomic.StoreInt32(&stop, 1)
	done := make(chan struct{})
	go func() { wg.Wait(); close(done) }()
	if stalled == 0 {
		core.WaitCh(done, core.Grace)
	} else {
		core.WaitCh(done, 300*time.Millisecond)
	}
	if b := atomic.LoadInt64(&echoBad); b > 0 {
		r.Violate("unary-disturbed", "%d of %d unary calls made next to the streams failed or returned a foreign value", b, atomic.LoadInt64(&echoes))
	}
	r.Key(fmt.Sprintf("multi-conn conns=%d", nc), true)
	r.Obs("values_received", int64(len(all)*ln))
	r.Obs("calls", atomic.LoadInt64(&echoes))
	r.Sample(map[string]interface{}{"scenario": "streams on several connections at once", "connections": nc, "streams": len(all), "values_per_stream": ln, "unary_calls_meanwhile": atomic.LoadInt64(&echoes)})
}
