package props

import (
	"bufio"
	"bytes"
	"context"
	"fmt"
	"io"
	"net/http"
	"net/http/httptest"
	"os"
	"os/exec"
	"path/filepath"
	"reflect"
	"regexp"
	"strings"
	"sync"
	"sync/atomic"
	"time"

	jsonrpc "github.com/filecoin-project/go-jsonrpc"

	"vharness/core"
	"vharness/svc"
)

// Host processes: endpoints that a remote peer must not be able to crash live in
// their own process; the attacker observes exit status and probe answers.

func init() {
	core.RegisterHost("server", hostServer)
	core.RegisterHost("client", hostClient)
}

// hostServer: RPC server with the svc handlers (+ reverse client option); prints "ADDR <addr>".
func hostServer(args []string) int {
	s := svc.New()
	opts := []jsonrpc.ServerOption{jsonrpc.WithReverseClient[svc.RevAPI]("R"), jsonrpc.WithServerPingInterval(200 * time.Millisecond),
		jsonrpc.WithParamDecoder(new(svc.Handle), svc.HandleDecoder)}
	if len(args) > 0 && args[0] == "tracer" {
		var traced int64
		opts = append(opts, jsonrpc.WithTracer(func(method string, params []reflect.Value, results []reflect.Value, err error) {
			atomic.AddInt64(&traced, 1)
		}))
	}
	rpc := jsonrpc.NewServer(opts...)
	rpc.Register("S", s)
	ts := httptest.NewServer(rpc)
	fmt.Printf("ADDR %s\n", ts.Listener.Addr().String())
	io.Copy(io.Discard, os.Stdin) // parent closes stdin to stop us
	return 0
}

// hostClient: a library ws client (with a reverse handler) connected to the address in args[0].
// It opens a subscription and a plain call so that live channel / in-flight ids exist, then idles.
func hostClient(args []string) int {
	rs := svc.New()
	var cl svc.Client
	opts := []jsonrpc.Option{jsonrpc.WithNoReconnect()}
	if len(args) < 2 || args[1] != "plain" {
		opts = append(opts, jsonrpc.WithClientHandler("R", &svc.RevHandler{Identity: "H", S: rs}))
	}
	closer, err := jsonrpc.NewMergeClient(context.Background(), "ws://"+args[0], "S", []interface{}{&cl}, nil, opts...)
	if err != nil {
		fmt.Println("DIALFAIL", err)
		return 3
	}
	fmt.Println("READY")
	go func() {
		ch, err := cl.Sub(context.Background(), "Thx1", 3, 0)
		if err == nil && ch != nil {
			for range ch {
			}
		}
	}()
	go cl.Echo(context.Background(), "Thx2", "")
	io.Copy(io.Discard, os.Stdin)
	_ = closer
	return 0
}

type Host struct {
	cmd    *exec.Cmd
	stdin  io.WriteCloser
	out    *bufio.Reader
	errBuf *syncBuf
	Addr   string
	done   chan struct{}
	exit   error
}

type syncBuf struct {
	mu sync.Mutex
	b  bytes.Buffer
}

func (s *syncBuf) Write(p []byte) (int, error) {
	s.mu.Lock()
	defer s.mu.Unlock()
	if s.b.Len() < 1<<20 {
		s.b.Write(p)
	}
	return len(p), nil
}
func (s *syncBuf) String() string {
	s.mu.Lock()
	defer s.mu.Unlock()
	return s.b.String()
}

func StartHost(mode string, args ...string) (*Host, error) {
	exe := core.SelfExe
	if exe == "" {
		exe, _ = os.Executable()
	}
	h := &Host{errBuf: &syncBuf{}, done: make(chan struct{})}
	h.cmd = exec.Command(exe, append([]string{"host", mode}, args...)...)
	h.cmd.Env = append(os.Environ(), "GOLOG_LOG_LEVEL=fatal", "GORACE=halt_on_error=0 log_path="+filepath.Join(os.Getenv("VERIF_WORK"), "race"))
	h.cmd.Stderr = h.errBuf
	var err error
	h.stdin, err = h.cmd.StdinPipe()
	if err != nil {
		return nil, err
	}
	so, err := h.cmd.StdoutPipe()
	if err != nil {
		return nil, err
	}
	if err := h.cmd.Start(); err != nil {
		return nil, err
	}
	h.out = bufio.NewReader(so)
	go func() {
		h.exit = h.cmd.Wait()
		close(h.done)
	}()
	line := make(chan string, 1)
	go func() {
		l, _ := h.out.ReadString('\n')
		line <- l
		io.Copy(io.Discard, h.out)
	}()
	select {
	case l := <-line:
		l = strings.TrimSpace(l)
		if strings.HasPrefix(l, "ADDR ") {
			h.Addr = strings.TrimPrefix(l, "ADDR ")
		} else if l != "READY" {
			h.Kill()
			return nil, fmt.Errorf("host said %q; stderr %s", l, core.Trunc(h.errBuf.String(), 300))
		}
	case <-time.After(20 * time.Second):
		h.Kill()
		return nil, fmt.Errorf("host did not start")
	}
	return h, nil
}

func (h *Host) Alive() bool {
	select {
	case <-h.done:
		return false
	default:
		return true
	}
}
func (h *Host) Kill() {
	h.stdin.Close()
	select {
	case <-h.done:
	case <-time.After(2 * time.Second):
		h.cmd.Process.Kill()
		<-h.done
	}
}

// Stop closes stdin and returns whether the host exited cleanly.
func (h *Host) Stop() (clean bool, detail string) {
	h.stdin.Close()
	select {
	case <-h.done:
	case <-time.After(5 * time.Second):
		h.cmd.Process.Kill()
		<-h.done
		return false, "host did not exit after stdin closed (wedged)"
	}
	if h.exit != nil {
		return false, fmt.Sprintf("%v", h.exit)
	}
	return true, ""
}
func (h *Host) Stderr() string { return h.errBuf.String() }

var panicRe = regexp.MustCompile(`(?m)^(panic: [^\n]{0,100}|fatal error: [^\n]{0,100})`)
var libFrameRe = regexp.MustCompile(`(?m)^github\.com/filecoin-project/go-jsonrpc[\w./]*(?:\(\*?\w+\))?[\w.]*`)

// CrashSite: stable fingerprint of a crash from the host's stderr.
func CrashSite(stderr string) string {
	m := panicRe.FindString(stderr)
	if m == "" {
		return "exit"
	}
	m = regexp.MustCompile(`0x[0-9a-f]+|\d+`).ReplaceAllString(m, "N")
	m = strings.ReplaceAll(m, " ", "_")
	if len(m) > 70 {
		m = m[:70]
	}
	if f := libFrameRe.FindString(stderr); f != "" {
		parts := strings.Split(f, "/")
		m += "@" + parts[len(parts)-1]
	}
	return m
}

var _ = http.StatusOK
