package props

import (
	"bytes"
	"context"
	"encoding/json"
	"fmt"
	"io"
	"net/http"
	"net/http/httptest"
	"strings"
	"sync"
	"time"

	"github.com/anishathalye/porcupine"
	jsonrpc "github.com/filecoin-project/go-jsonrpc"

	"vharness/core"
	"vharness/svc"
	"vharness/wsproxy"
)

// C02 – per-call correlation under concurrency.

type c02 struct{}

func init() { core.Register(c02{}) }

func (c02) ID() string    { return "C02" }
func (c02) Level() string { return "exploration" }
func (c02) Race() bool    { return true }
func (c02) Rule() string {
	return "N concurrent callers with unique tokens on one client; handlers are held and released by the harness in a chosen completion order: every permutation for N<=4 (quick) / N<=6 (thorough), seeded random permutations up to N=64; outcomes mix values, handler errors, void and multi-frame results; ws and http; seeded hook noise and targeted stalls at enqueue/registration/write/lookup/delivery; confused-server variants for http/custom; plus KV histories (Put/Get/Append/CAS, few keys, unique values) checked for linearizability per key with porcupine. Distinct = (transport, N, completion order as released, interleaving signature) resp. history hash; non-trivial = N>=2 with overlapping calls."
}
func (c02) Assumptions() []string {
	return []string{"completion orders are exhaustive only for small N; interleavings are sampled (distinct signatures reported)", "porcupine checker timeout (60 s) would be reported as inconclusive"}
}

func (c02) Plan(tier string, seed int64) []core.Scenario {
	var out []core.Scenario
	maxN, seeds, nRand, nKV := 4, 3, 30, 120
	if tier == "thorough" {
		maxN, seeds, nRand, nKV = 6, 6, 400, 3000
	}
	for n := 2; n <= maxN; n++ {
		for _, perm := range core.Perms(n) {
			for _, tr := range []string{"ws", "http"} {
				for s := 0; s < seeds; s++ {
					if n >= 5 && s >= 2 {
						continue
					}
					out = append(out, core.Sc("perm").WithS("transport", tr).WithN("n", n).WithN("noise", s%3).WithN("stall", s).WithL(perm))
				}
			}
		}
	}
	rng := core.Scenario{Seed: seed}.Rand()
	for i := 0; i < nRand; i++ {
		n := 8 + rng.Intn(57)
		if i%3 == 0 {
			n = 32
		}
		tr := "ws"
		if i%4 == 3 {
			tr = "http"
		}
		out = append(out, core.Sc("perm").WithS("transport", tr).WithN("n", n).WithN("noise", 1+i%2).WithN("stall", i%4).WithL(rng.Perm(n)))
	}
	// well beyond any plausible internal bound on simultaneously running handlers
	bigN := []int{129, 200, 300}
	if tier == "thorough" {
		bigN = []int{129, 130, 200, 257, 300, 513, 1000}
	}
	for i, n := range bigN {
		tr := "ws"
		if i%3 == 2 {
			tr = "http"
		}
		perm := rng.Perm(n)
		if i%2 == 0 { // reverse completion order: the last request finishes first
			for j := range perm {
				perm[j] = n - 1 - j
			}
		}
		out = append(out, core.Sc("perm").WithS("transport", tr).WithN("n", n).WithN("noise", 0).WithN("stall", 0).WithL(perm))
	}
	nx := 4
	if tier == "thorough" {
		nx = 60
	}
	for i := 0; i < nx; i++ {
		out = append(out, core.Sc("across-reconnect").WithN("workers", 4+i%5).WithN("fk", i%2).WithN("noise", i%3))
	}
	for i := 0; i < nKV; i++ {
		tr := "ws"
		if i%5 == 4 {
			tr = "http"
		}
		out = append(out, core.Sc("kv").WithS("transport", tr).WithN("g", 3+i%5).WithN("ops", 6+i%7).WithN("noise", i%3))
	}
	for i := 0; i < 12; i++ {
		out = append(out, core.Sc("confused").WithN("variant", i))
	}
	// a cancelled call whose handler ignores the cancellation for a while and answers late
	nc := 3
	if tier == "thorough" {
		nc = 24
	}
	for i := 0; i < nc; i++ {
		out = append(out, core.Sc("cancel-late").WithN("waitms", []int{2600, 500, 3500}[i%3]).WithN("others", 2+i%3).WithN("noise", i%3))
	}
	// concurrent calls whose arguments and results are tens to hundreds of kilobytes, all different
	nbm := 4
	if tier == "thorough" {
		nbm = 40
	}
	for i := 0; i < nbm; i++ {
		out = append(out, core.Sc("bigmix").WithS("transport", []string{"ws", "ws", "http"}[i%3]).WithN("workers", 4+4*(i%3)).WithN("same", i%2).WithN("noise", i%3))
	}
	for i := range out {
		out[i].Seed = seed*999983 + int64(i)
	}
	// reverse calls are calls too: answers of handlers that belong to an old connection must not resolve the
	// reverse calls of the re-established one (ids restart per connection); with and without keepalive
	for i := 0; i < 4; i++ {
		out = append(out, core.Scenario{Kind: "stale-reverse-answer", Seed: seed*999983 + 5000 + int64(i), N: map[string]int{"fk": i % 2, "old": 1 + i%3, "noping": i / 2}, S: map[string]string{}})
	}
	// every call gets an outcome of its own also when its context is already done while the link is down
	for i := 0; i < 2; i++ {
		out = append(out, core.Scenario{Kind: "done-ctx-outage", Seed: seed*999983 + 6000 + int64(i), N: map[string]int{"fk": i % 2, "noise": 1 + i, "n": 12}, S: map[string]string{}})
	}
	// single-stall pair enumeration on a healthy connection (calls judged here, streams in C07)
	out = append(out, planStallPairs(tier, seed, "calls")...)
	return out
}

func (p c02) Run(sc core.Scenario) core.Result {
	r := core.NewR(sc)
	switch sc.Kind {
	case "perm":
		p.perm(sc, r)
	case "kv":
		p.kv(sc, r)
	case "confused":
		p.confused(sc, r)
	case "cancel-late":
		p.cancelLate(sc, r)
	case "across-reconnect":
		p.acrossReconnect(sc, r)
	case "bigmix":
		p.bigMix(sc, r)
	case "stallpair":
		runStallPair(sc, r)
	case "stale-reverse-answer":
		c16{}.staleReverseAnswer(sc, r)
	case "done-ctx-outage":
		runDoneCtxOutage(sc, r)
	}
	return r.Result()
}

func noisePolicy(sc core.Scenario) *core.Policy {
	pol := &core.Policy{Seed: sc.Seed}
	switch sc.I("noise") {
	case 1:
		pol.NoiseP, pol.MaxDelay = 0.25, 200*time.Microsecond
	case 2:
		pol.NoiseP, pol.MaxDelay = 0.5, 1500*time.Microsecond
	}
	return pol
}

func (c02) perm(sc core.Scenario, r *core.R) {
	n := sc.I("n")
	tr := sc.Str("transport")
	env := NewEnv(EnvOpt{})
	defer env.Shutdown()
	pol := noisePolicy(sc)
	switch sc.I("stall") {
	case 1: // registration of the k-th request overtaken by a response lookup
		pol.Rules = append(pol.Rules, &core.Rule{Point: "ws.req.registered", Side: 1, Occ: 2 + int(sc.Seed%3), Do: pol.StallUntil("ws.resp.lookup", 1, 30*time.Millisecond)})
	case 2: // a delivery parked until another request was written
		pol.Rules = append(pol.Rules, &core.Rule{Point: "ws.resp.deliver.before", Side: 1, Occ: 1 + int(sc.Seed%3), Do: pol.StallUntil("ws.req.written", 1, 30*time.Millisecond)})
	case 3:
		pol.Rules = append(pol.Rules, &core.Rule{Point: "ws.resp.lookup", Side: 1, Occ: 1, Do: pol.StallUntil("cl.enqueue.after", 0, 30*time.Millisecond)})
	}
	defer pol.Install()()
	cl, err := env.NewClient(ClientOpt{Transport: tr})
	if err != nil {
		r.Inconclusive("client: %v", err)
		return
	}
	ctx := context.Background()
	toks := make([]string, n)
	outs := make([]*Outcome, n)
	kinds := make([]string, n)
	for i := 0; i < n; i++ {
		t := Tok("c")
		toks[i] = t
		env.Svc.Hold(t)
	}
	for i := 0; i < n; i++ {
		t := toks[i]
		switch i % 4 {
		case 0:
			kinds[i] = "echo"
			outs[i] = Go(t, func() (string, error) { return cl.Echo(ctx, t, "") })
		case 1:
			kinds[i] = "fail"
			outs[i] = Go(t, func() (string, error) { return cl.Fail(ctx, t) })
		case 2:
			kinds[i] = "big"
			outs[i] = Go(t, func() (string, error) { return cl.Big(ctx, t, 13000) })
		case 3:
			kinds[i] = "void"
			outs[i] = Go(t, func() (string, error) { cl.Void(ctx, t); return "", nil })
		}
	}
	for i := 0; i < n; i++ {
		if !env.Svc.WaitEntered(toks[i], core.Grace) {
			r.Violate("call-never-dispatched", "%s: call %d/%d (%s) never reached its handler on a healthy link", tr, i, n, toks[i])
			return
		}
	}
	overlapped := n >= 2 // all n calls are in flight at the same time here
	released := make(map[string]time.Time)
	var relMu sync.Mutex
	for _, idx := range sc.L {
		t := toks[idx]
		// no call may have returned before its own handler was released
		relMu.Lock()
		released[t] = time.Now()
		relMu.Unlock()
		env.Svc.Release(t)
		select {
		case <-env.Svc.ExitedCh(t):
		case <-time.After(core.Grace):
		}
	}
	for i, o := range outs {
		if !o.Wait(core.Grace) {
			r.Violate("response-dropped", "%s: call %s (%s) did not return although its handler completed and its response was due; events: %s", tr, o.Tok, kinds[i], core.Log.Tail(30))
			continue
		}
		if o.T1.Before(released[o.Tok]) {
			r.Violate("early-return", "%s: call %s returned before its handler was released: it consumed another call's response (val=%q err=%v)", tr, o.Tok, core.Trunc(o.Val, 60), o.Err)
		}
		switch kinds[i] {
		case "echo":
			if o.Err != nil || o.Val != svc.Reply(o.Tok) {
				r.Violate("wrong-response", "%s: call %s (echo) got (%q, %v), expected its own token", tr, o.Tok, core.Trunc(o.Val, 60), o.Err)
			}
		case "big":
			if o.Err != nil || !strings.HasPrefix(o.Val, svc.Reply(o.Tok)+":") || len(o.Val) != len(svc.Reply(o.Tok))+1+13000 {
				r.Violate("wrong-response", "%s: call %s (big) got (%q len %d, %v)", tr, o.Tok, core.Trunc(o.Val, 60), len(o.Val), o.Err)
			}
		case "fail":
			if o.Err == nil || !strings.Contains(o.Err.Error(), svc.ErrText(o.Tok)) || o.Val != "" {
				r.Violate("wrong-response", "%s: call %s (fail) got (%q, %v), expected its own handler error", tr, o.Tok, core.Trunc(o.Val, 60), o.Err)
			}
		}
		if e := env.Svc.Enters(o.Tok); e != 1 {
			r.Violate("exec-count", "%s: call %s executed %d times", tr, o.Tok, e)
		}
	}
	if tr == "ws" {
		checkFrameCorrelation(env.Px, r)
	}
	r.Key(fmt.Sprintf("%s n=%d order=%s sig=%s", tr, n, core.Hash(fmt.Sprint(sc.L))[:8], core.Log.Signature()[:8]), overlapped)
	r.Obs("calls", int64(n))
	r.Sig(core.Log.Signature())
	if n <= 6 {
		r.Sample(map[string]interface{}{"transport": tr, "n": n, "release_order": sc.L, "kinds": kinds})
	}
}

// acrossReconnect: several goroutines keep calling while the connection is lost once and re-established;
// every call must return exactly once - its own result or an error - and none may stay blocked once a later
// probe has round-tripped.
func (c02) acrossReconnect(sc core.Scenario, r *core.R) {
	env := NewEnv(EnvOpt{})
	defer env.Shutdown()
	pol := noisePolicy(sc)
	defer pol.Install()()
	cl, err := env.NewClient(ClientOpt{Opts: []jsonrpc.Option{jsonrpc.WithReconnectBackoff(10*time.Millisecond, 30*time.Millisecond)}})
	if err != nil {
		r.Inconclusive("client: %v", err)
		return
	}
	bg := context.Background()
	var mu sync.Mutex
	var outs, retried []*Outcome
	stop := make(chan struct{})
	var wg sync.WaitGroup
	for w := 0; w < sc.I("workers"); w++ {
		wg.Add(1)
		go func() {
			defer wg.Done()
			for {
				select {
				case <-stop:
					return
				default:
				}
				t := Tok("x")
				o := Go(t, func() (string, error) { return cl.Echo(bg, t, "") })
				t2 := Tok("y")
				o2 := Go(t2, func() (string, error) { return cl.EchoR(bg, t2, "") }) // retry-tagged: must come back with its own result
				mu.Lock()
				outs = append(outs, o)
				retried = append(retried, o2)
				mu.Unlock()
				o.Wait(300 * time.Millisecond) // keep issuing even if one call is stuck
				time.Sleep(time.Millisecond)
			}
		}()
	}
	time.Sleep(30 * time.Millisecond)
	env.Px.KillAll([]string{wsproxy.RST, wsproxy.FIN}[sc.I("fk")])
	time.Sleep(120 * time.Millisecond)
	close(stop)
	wg.Wait()
	if !probeUntilHealthy(cl, r, 2*core.Grace) {
		r.Inconclusive("link never healthy again")
		return
	}
	mu.Lock()
	all := append([]*Outcome(nil), outs...)
	mu.Unlock()
	failed := 0
	for _, o := range all {
		if !o.Wait(core.Grace) {
			r.Violate("response-dropped", "call %s issued around a reconnect never returned although a later probe round-tripped on the same client; events: %s", o.Tok, core.Log.Tail(30))
			break
		}
		if o.Err != nil {
			failed++
		} else if o.Val != svc.Reply(o.Tok) {
			r.Violate("wrong-response", "call %s got %q", o.Tok, o.Val)
		}
		if e := env.Svc.Enters(o.Tok); e > 1 {
			r.Violate("exec-count", "call %s executed %d times", o.Tok, e)
		}
	}
	mu.Lock()
	rs := append([]*Outcome(nil), retried...)
	mu.Unlock()
	for _, o := range rs {
		if !o.Wait(2 * core.Grace) {
			r.Violate("response-dropped", "retry-tagged call %s issued around a reconnect never returned although the link is healthy again; events: %s", o.Tok, core.Log.Tail(30))
			break
		}
		if o.Err != nil || o.Val != svc.Reply(o.Tok) {
			r.Violate("wrong-response", "retry-tagged call %s got (%q, %v) instead of its own result", o.Tok, o.Val, o.Err)
		}
	}
	r.Key(fmt.Sprintf("across-reconnect w=%d fk=%d sig=%s", sc.I("workers"), sc.I("fk"), core.Log.Signature()[:6]), failed > 0)
	r.Obs("calls", int64(len(all)))
	r.Sig(core.Log.Signature())
	r.Sample(map[string]interface{}{"scenario": "concurrent callers across one reconnect", "calls": len(all), "failed_by_the_loss": failed})
}

// cancelLate: call A is cancelled but its handler keeps running; other calls are issued; then A's
// handler answers late. Every call must still get exactly its own response.
func (c02) cancelLate(sc core.Scenario, r *core.R) {
	env := NewEnv(EnvOpt{})
	defer env.Shutdown()
	pol := noisePolicy(sc)
	defer pol.Install()()
	cl, err := env.NewClient(ClientOpt{})
	if err != nil {
		r.Inconclusive("client: %v", err)
		return
	}
	bg := context.Background()
	actx, cancel := context.WithCancel(bg)
	defer cancel()
	ta := Tok("a")
	env.Svc.Hold(ta)
	a := Go(ta, func() (string, error) { return cl.HoldHard(actx, ta, "") }) // this handler ignores its context
	if !env.Svc.WaitEntered(ta, core.Grace) {
		r.Inconclusive("handler not entered")
		return
	}
	cancel()
	// the library may or may not give up on a cancelled call early; both are fine
	a.Wait(time.Duration(sc.I("waitms")) * time.Millisecond)
	gaveUp := a.Returned()
	var others []*Outcome
	for i := 0; i < sc.I("others"); i++ {
		t := Tok("o")
		env.Svc.Hold(t)
		others = append(others, Go(t, func() (string, error) { return cl.Echo(bg, t, "") }))
		env.Svc.WaitEntered(t, core.Grace)
	}
	env.Svc.Release(ta) // A's late response goes onto the wire now
	select {
	case <-env.Svc.ExitedCh(ta):
	case <-time.After(core.Grace):
	}
	// give a misrouted response the chance to land: one round trip on the same connection
	p := Tok("p")
	if v, err := cl.Echo(bg, p, ""); err != nil || v != svc.Reply(p) {
		r.Violate("wrong-response", "cancel-late: probe after the late response got (%q, %v)", v, err)
	}
	for _, o := range others {
		if o.Returned() {
			r.Violate("early-return", "cancel-late: call %s returned (%q, %v) while its handler is still held: it consumed the late response of the cancelled call", o.Tok, core.Trunc(o.Val, 60), o.Err)
		}
	}
	for _, o := range others {
		env.Svc.Release(o.Tok)
		if !o.Wait(core.Grace) {
			r.Violate("response-dropped", "cancel-late: call %s never returned", o.Tok)
		} else if o.Err != nil || o.Val != svc.Reply(o.Tok) {
			r.Violate("wrong-response", "cancel-late: call %s got (%q, %v) instead of its own response", o.Tok, core.Trunc(o.Val, 60), o.Err)
		}
	}
	if !a.Wait(core.Grace) {
		r.Violate("response-dropped", "cancel-late: the cancelled call never returned although its handler answered")
	} else if a.Err == nil && a.Val != svc.Reply(ta) {
		r.Violate("wrong-response", "cancel-late: the cancelled call returned %q", a.Val)
	}
	for i := 0; i < 5; i++ {
		t := Tok("f")
		if v, err := cl.Echo(bg, t, ""); err != nil || v != svc.Reply(t) {
			r.Violate("wrong-response", "cancel-late: follow-up call %d got (%q, %v)", i, v, err)
			break
		}
	}
	r.Key(fmt.Sprintf("cancel-late wait=%d others=%d gaveup=%v", sc.I("waitms"), len(others), gaveUp), true)
	r.Obs("calls", int64(len(others)+7))
	r.Sig(core.Log.Signature())
	r.Sample(map[string]interface{}{"scenario": "cancelled call answered late", "caller_gave_up_early": gaveUp, "concurrent_calls": len(others)})
}

// checkFrameCorrelation: the multiset of response ids equals the multiset of id-bearing request ids.
func checkFrameCorrelation(px *wsproxy.Proxy, r *core.R) {
	req := map[string]int{}
	resp := map[string]int{}
	for _, f := range px.Frames() {
		if f.Msg == nil || !f.Msg.Valid {
			continue
		}
		key := fmt.Sprintf("c%d:%s", f.ConnN, f.Msg.ID)
		if f.Dir == wsproxy.C2S && f.Msg.Method != "" && f.Msg.ID != "" && f.Msg.ID != "null" {
			req[key]++
		}
		if f.Dir == wsproxy.S2C && f.Msg.Method == "" {
			resp[key]++
		}
	}
	for k, n := range resp {
		if req[k] == 0 {
			r.Violate("response-unknown-id", "response frame for id %s that no request carried", k)
		} else if n > req[k] {
			r.Violate("response-duplicated", "%d response frames for id %s (%d requests)", n, k, req[k])
		}
	}
	for k, n := range req {
		if resp[k] < n {
			r.Violate("response-missing", "request id %s got %d response frames for %d requests", k, resp[k], n)
		}
	}
	r.Obs("request_frames", int64(len(req)))
	r.Obs("response_frames", int64(len(resp)))
}

// ---- KV + porcupine --------------------------------------------------------

type KV struct {
	mu sync.Mutex
	m  map[string]string
}

func (k *KV) Put(key, val string) string {
	k.mu.Lock()
	defer k.mu.Unlock()
	k.m[key] = val
	return "ok"
}
func (k *KV) Get(key string) string {
	k.mu.Lock()
	defer k.mu.Unlock()
	return k.m[key]
}
func (k *KV) Append(key, val string) string {
	k.mu.Lock()
	defer k.mu.Unlock()
	k.m[key] += val
	return k.m[key]
}
func (k *KV) CAS(key, old, nw string) bool {
	k.mu.Lock()
	defer k.mu.Unlock()
	if k.m[key] == old {
		k.m[key] = nw
		return true
	}
	return false
}

type KVClient struct {
	Put    func(key, val string) (string, error)
	Get    func(key string) (string, error)
	Append func(key, val string) (string, error)
	CAS    func(key, old, nw string) (bool, error)
}

type kvIn struct {
	Op       string
	Key      string
	Val, Old string
}
type kvOut struct {
	S  string
	B  bool
	Er bool
}

var kvModel = porcupine.Model{
	Partition: func(history []porcupine.Operation) [][]porcupine.Operation {
		m := map[string][]porcupine.Operation{}
		for _, op := range history {
			k := op.Input.(kvIn).Key
			m[k] = append(m[k], op)
		}
		var out [][]porcupine.Operation
		for _, v := range m {
			out = append(out, v)
		}
		return out
	},
	Init: func() interface{} { return "" },
	Step: func(state, input, output interface{}) (bool, interface{}) {
		st := state.(string)
		in := input.(kvIn)
		out := output.(kvOut)
		switch in.Op {
		case "put":
			return out.S == "ok", in.Val
		case "get":
			return out.S == st, st
		case "append":
			return out.S == st+in.Val, st + in.Val
		case "cas":
			if st == in.Old {
				return out.B, in.Val
			}
			return !out.B, st
		}
		return false, st
	},
	DescribeOperation: func(input, output interface{}) string {
		return fmt.Sprintf("%+v -> %+v", input, output)
	},
}

func (c02) kv(sc core.Scenario, r *core.R) {
	tr := sc.Str("transport")
	env := NewEnv(EnvOpt{})
	defer env.Shutdown()
	kv := &KV{m: map[string]string{}}
	env.RPC.Register("KV", kv)
	pol := noisePolicy(sc)
	defer pol.Install()()
	var kc KVClient
	closer, err := jsonrpc.NewMergeClient(context.Background(), env.Addr(tr), "KV", []interface{}{&kc}, nil)
	if err != nil {
		r.Inconclusive("client: %v", err)
		return
	}
	defer closer()
	g, nops := sc.I("g"), sc.I("ops")
	var mu sync.Mutex
	var ops []porcupine.Operation
	start := time.Now()
	var wg sync.WaitGroup
	errs := 0
	for gi := 0; gi < g; gi++ {
		gi := gi
		wg.Add(1)
		go func() {
			defer wg.Done()
			rng := core.Scenario{Seed: sc.Seed + int64(gi)*7919}.Rand()
			for j := 0; j < nops; j++ {
				key := fmt.Sprintf("k%d", rng.Intn(2))
				uniq := fmt.Sprintf("<%d.%d>", gi, j)
				in := kvIn{Key: key}
				var out kvOut
				t0 := int64(time.Since(start))
				var err error
				switch rng.Intn(4) {
				case 0:
					in.Op, in.Val = "put", uniq
					out.S, err = kc.Put(key, uniq)
				case 1:
					in.Op = "get"
					out.S, err = kc.Get(key)
				case 2:
					in.Op, in.Val = "append", uniq
					out.S, err = kc.Append(key, uniq)
				case 3:
					in.Op, in.Val = "cas", uniq
					// guess the old value from a fresh read half of the time
					if rng.Intn(2) == 0 {
						in.Old, _ = kc.Get(key)
						// that read is part of the history as well
						mu.Lock()
						ops = append(ops, porcupine.Operation{ClientId: gi, Input: kvIn{Op: "get", Key: key}, Call: t0, Output: kvOut{S: in.Old}, Return: int64(time.Since(start))})
						mu.Unlock()
						t0 = int64(time.Since(start))
					}
					out.B, err = kc.CAS(key, in.Old, uniq)
				}
				t1 := int64(time.Since(start))
				mu.Lock()
				if err != nil {
					errs++
				} else {
					ops = append(ops, porcupine.Operation{ClientId: gi, Input: in, Call: t0, Output: out, Return: t1})
				}
				mu.Unlock()
			}
		}()
	}
	done := make(chan struct{})
	go func() { wg.Wait(); close(done) }()
	if !core.WaitProgress(done, 2*core.Grace, func() int64 { mu.Lock(); defer mu.Unlock(); return int64(len(ops) + errs) }) {
		r.Violate("response-dropped", "%s: KV workload did not complete: some call never returned; events: %s", tr, core.Log.Tail(30))
		return
	}
	if errs > 0 {
		r.Violate("unexpected-error", "%s: %d KV calls failed on a healthy link", tr, errs)
	}
	res, info := porcupine.CheckOperationsVerbose(kvModel, ops, 60*time.Second)
	_ = info
	switch res {
	case porcupine.Illegal:
		var sb strings.Builder
		for _, o := range ops {
			fmt.Fprintf(&sb, "[c%d %d-%d %+v -> %+v] ", o.ClientId, o.Call/1000, o.Return/1000, o.Input, o.Output)
		}
		r.Violate("not-linearizable", "%s: KV history through one client is not linearizable (a response reached the wrong caller or was duplicated): %s", tr, core.Trunc(sb.String(), 3000))
	case porcupine.Unknown:
		r.Inconclusive("porcupine timed out on %d ops", len(ops))
	}
	b, _ := json.Marshal(len(ops))
	r.Key(fmt.Sprintf("kv %s g=%d ops=%d sig=%s", tr, g, nops, core.Log.Signature()[:10]), g >= 2 && len(ops) > 4)
	r.Obs("kv_ops", int64(len(ops)))
	r.Obs("kv_histories_checked", 1)
	r.Sig(core.Log.Signature())
	r.Sample(map[string]interface{}{"transport": tr, "goroutines": g, "ops_recorded": json.RawMessage(b), "porcupine": string(res)})
}

// ---- confused peers: a reply with a foreign id must not be accepted ---------

func (c02) confused(sc core.Scenario, r *core.R) {
	v := sc.I("variant")
	var cl svc.Client
	var closer jsonrpc.ClientCloser
	var err error
	mutate := func(body []byte) []byte {
		var req map[string]interface{}
		json.Unmarshal(body, &req)
		id, _ := req["id"].(float64)
		var otherID interface{} = id + 1000
		switch v % 3 {
		case 1:
			otherID = fmt.Sprint(id)
		case 2:
			otherID = nil
		}
		resp := map[string]interface{}{"jsonrpc": "2.0", "id": otherID, "result": "R:FOREIGN"}
		if v >= 6 {
			// the crossed-over reply is an error object produced for another call
			resp = map[string]interface{}{"jsonrpc": "2.0", "id": otherID, "error": map[string]interface{}{"code": 1, "message": "FOREIGN-FAILURE"}}
		}
		b, _ := json.Marshal(resp)
		return b
	}
	if v%6 < 3 {
		closer, err = jsonrpc.NewCustomClient("S", []interface{}{&cl}, func(ctx context.Context, body []byte) (io.ReadCloser, error) {
			return io.NopCloser(bytes.NewReader(mutate(body))), nil
		})
	} else {
		ts := httptest.NewServer(http.HandlerFunc(func(w http.ResponseWriter, rq *http.Request) {
			b, _ := io.ReadAll(rq.Body)
			w.Write(mutate(b))
		}))
		defer ts.Close()
		closer, err = jsonrpc.NewMergeClient(context.Background(), "http://"+ts.Listener.Addr().String(), "S", []interface{}{&cl}, nil)
	}
	if err != nil {
		r.Inconclusive("client: %v", err)
		return
	}
	defer closer()
	t := Tok("x")
	val, cerr := cl.Echo(context.Background(), t, "")
	if cerr == nil {
		r.Violate("foreign-id-accepted", "variant %d: a reply carrying a different id was accepted: value %q returned without error", v, val)
	}
	if val != "" {
		r.Violate("foreign-id-accepted", "variant %d: a reply carrying a different id leaked its value %q to the caller (err=%v)", v, val, cerr)
	}
	if cerr != nil && strings.Contains(cerr.Error(), "FOREIGN-FAILURE") {
		r.Violate("foreign-id-accepted", "variant %d: an error reply carrying a different id was delivered to the caller as its own error: %v", v, cerr)
	}
	r.Key(fmt.Sprintf("confused v%d", v), true)
	r.Obs("confused_replies", 1)
	r.Sample(map[string]interface{}{"transport": map[bool]string{true: "custom", false: "http"}[v%6 < 3], "reply_kind": map[bool]string{true: "error object", false: "result"}[v >= 6], "reply_id": []string{"other number", "string spelling of the number", "null"}[v%3], "caller_error": errStr(cerr)})
}

// bigMix: several goroutines call concurrently with arguments and results between 64 KiB and a few hundred
// KiB, every payload derived from the call's own token, first one large warm-up call, then rounds of
// small and large calls back to back. Each call must return the mirror of its own argument, and its
// handler must have run exactly once with exactly that argument.
func (c02) bigMix(sc core.Scenario, r *core.R) {
	tr := sc.Str("transport")
	env := NewEnv(EnvOpt{})
	defer env.Shutdown()
	pol := noisePolicy(sc)
	defer pol.Install()()
	cl, err := env.NewClient(ClientOpt{Transport: tr})
	if err != nil {
		r.Inconclusive("client: %v", err)
		return
	}
	bg := context.Background()
	mkPad := func(tok string, n int) string {
		unit := tok + "|"
		return strings.Repeat(unit, n/len(unit)+1)[:n]
	}
	w := Tok("w")
	if v, err := cl.Mirror(bg, w, mkPad(w, 200<<10)); err != nil || v != svc.MirrorOf(w, mkPad(w, 200<<10)) {
		r.Violate("wrong-result:big", "%s: warm-up call with a 200 KiB argument returned a wrong value (len %d, err %v)", tr, len(v), err)
		return
	}
	workers := sc.I("workers")
	sizes := []int{70 << 10, 70 << 10, 100, 130 << 10, 70 << 10, 3, 65 << 10, 300 << 10}
	var wg sync.WaitGroup
	var mu sync.Mutex
	bad := 0
	calls := 0
	for g := 0; g < workers; g++ {
		g := g
		wg.Add(1)
		go func() {
			defer wg.Done()
			for round := 0; round < 6; round++ {
				n := sizes[(g+round)%len(sizes)]
				if sc.I("same") == 1 && round%2 == 0 {
					n = 70 << 10 // all workers use the same size in this round
				}
				t := Tok("m")
				pad := mkPad(t, n)
				v, err := cl.Mirror(bg, t, pad)
				want := svc.MirrorOf(t, pad)
				mu.Lock()
				calls++
				if err != nil || v != want {
					bad++
					if bad <= 3 {
						got := core.Trunc(v, 60)
						if len(v) == len(want) && err == nil {
							for i := range v {
								if v[i] != want[i] {
									lo := i - 20
									if lo < 0 {
										lo = 0
									}
									got = fmt.Sprintf("same length, first difference at byte %d: got ...%q, want ...%q", i, core.Trunc(v[lo:], 50), core.Trunc(want[lo:], 50))
									break
								}
							}
						}
						r.Violate("wrong-result:big", "%s: call %s with a %d-byte argument, %d callers at once: returned (len %d, err %v), expected the mirror of its own argument (len %d): %s", tr, t, n, workers, len(v), err, len(want), got)
					}
				}
				mu.Unlock()
				if e := env.Svc.Enters(t); e != 1 {
					r.Violate("handler-run-count:big", "%s: handler of call %s (%d-byte argument) ran %d times", tr, t, n, e)
				}
			}
		}()
	}
	done := make(chan struct{})
	go func() { wg.Wait(); close(done) }()
	if !core.WaitProgress(done, 2*core.Grace, func() int64 { mu.Lock(); defer mu.Unlock(); return int64(calls) }) {
		r.Violate("response-dropped", "%s: concurrent large calls did not complete (%d done)", tr, calls)
	}
	r.Key(fmt.Sprintf("bigmix %s workers=%d same=%d", tr, workers, sc.I("same")), true)
	r.Obs("calls", int64(calls))
	r.Obs("big_calls", int64(calls))
	r.Sig(core.Log.Signature())
	r.Sample(map[string]interface{}{"transport": tr, "scenario": "concurrent calls with 64-300 KiB arguments and results", "workers": workers, "calls": calls, "wrong": bad})
}
