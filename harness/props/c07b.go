package props

import (
	"context"
	"fmt"
	"time"

	jsonrpc "github.com/filecoin-project/go-jsonrpc"

	"vharness/core"
	"vharness/svc"
	"vharness/wsproxy"
)

// unencodable: one stream yields a value that encoding/json cannot encode (NaN) while other streams run on
// the same connection. The other streams, and subscriptions opened afterwards, must be unaffected.
func (c07) unencodable(sc core.Scenario, r *core.R) {
	env := NewEnv(EnvOpt{})
	defer env.Shutdown()
	pol := noisePolicy(sc)
	defer pol.Install()()
	cl, err := env.NewClient(ClientOpt{})
	if err != nil {
		r.Inconclusive("client: %v", err)
		return
	}
	bg := context.Background()
	t1, t2, tf := Tok("s"), Tok("s"), Tok("f")
	ch1, err1 := cl.Sub(bg, t1, 400, svc.SSlow)
	ch2, err2 := cl.Sub(bg, t2, 60, svc.SBursty)
	if err1 != nil || err2 != nil {
		r.Inconclusive("subscribe: %v %v", err1, err2)
		return
	}
	g1, g2 := drainItems(ch1, 0, -1, nil), drainItems(ch2, 0, -1, nil)
	nanAt := sc.I("at")
	chf, errf := cl.SubFloat(bg, tf, 12, nanAt)
	if errf != nil {
		r.Inconclusive("subscribe float: %v", errf)
		return
	}
	var floats []float64
	fdone := make(chan struct{})
	go func() {
		for v := range chf {
			floats = append(floats, v)
		}
		close(fdone)
	}()
	for i, g := range []*got{g1, g2} {
		g := g
		if !core.WaitProgress(g.done, core.Grace, func() int64 { return int64(g.n()) }) {
			r.Violate("stream-not-closed", "a stream that shares its connection with a stream yielding an unencodable value (NaN at index %d) stopped after %d values", nanAt, g.n())
		}
		checkSeq(r, "sibling-of-unencodable", []string{t1, t2}[i], g.snapshot(), []int{400, 60}[i], true)
	}
	t3 := Tok("s")
	ch3, err3 := cl.Sub(bg, t3, 30, svc.SGoroutine)
	if err3 != nil || ch3 == nil {
		r.Violate("stream-not-closed", "a subscription opened after another stream yielded an unencodable value failed: %v", err3)
	} else {
		g := drainItems(ch3, 0, -1, nil)
		if !core.WaitCh(g.done, core.Grace) {
			r.Violate("stream-not-closed", "a subscription opened after another stream yielded an unencodable value made no progress (%d of 30)", g.n())
		} else {
			checkSeq(r, "after-unencodable", t3, g.snapshot(), 30, true)
		}
	}
	nf := 0
	if core.WaitCh(fdone, core.Grace) {
		// the encodable values of the float stream arrive in order
		nf = len(floats)
		prev := -1.0
		for _, v := range floats {
			if v <= prev {
				r.Violate("stream-reordered-or-lost", "float stream delivered %v", floats)
				break
			}
			prev = v
		}
	} else {
		r.Violate("stream-not-closed", "the stream with one unencodable value never closed")
	}
	r.Key(fmt.Sprintf("unencodable at=%d", nanAt), true)
	r.Obs("streams", 4)
	r.Sig(core.Log.Signature())
	r.Sample(map[string]interface{}{"scenario": "NaN in one stream, siblings on the same connection", "nan_index": nanAt, "float_values_received": nf})
}

// revSubReconnect: the server subscribes to a stream served by the client (reverse direction). The connection
// breaks while that stream is idle and is re-established; the client-side handler notices late and closes its
// channel only after a new reverse subscription has started on the new connection. The new stream must deliver
// all of its values.
func (c07) revSubReconnect(sc core.Scenario, r *core.R) {
	env := NewEnv(EnvOpt{Rev: true})
	defer env.Shutdown()
	pol := noisePolicy(sc)
	defer pol.Install()()
	c, err := env.NewClient(ClientOpt{RevIdent: "A", Opts: []jsonrpc.Option{jsonrpc.WithReconnectBackoff(5*time.Millisecond, 20*time.Millisecond)}})
	if err != nil {
		r.Inconclusive("client: %v", err)
		return
	}
	bg := context.Background()
	pre := sc.I("pre")
	var olds []*Outcome
	for i := 0; i <= pre; i++ {
		tA := Tok("a")
		olds = append(olds, Go(tA, func() (string, error) { return c.RevSubN(bg, tA, 100000, 40, 250) }))
		if !core.Eventually(core.Grace, func() bool { return env.Svc.Get(tA).Sent >= 1 }) {
			r.Inconclusive("the first reverse stream never delivered a value")
			return
		}
	}
	env.Px.KillAll(wsproxy.RST)
	if !probeUntilHealthy(c, r, 2*core.Grace) {
		r.Inconclusive("link never healthy again")
		return
	}
	tB := Tok("b")
	oB := Go(tB, func() (string, error) { return c.RevSubN(bg, tB, 300, 2, 0) })
	if !oB.Wait(2 * core.Grace) {
		r.Violate("stream-not-closed", "a reverse subscription opened after a reconnect never completed")
	} else if oB.Err != nil || oB.Val != "got 300 ordered=true" {
		r.Violate("stream-truncated", "a reverse subscription (server reading a stream served by the client) opened after a reconnect, while %d stream(s) of the old connection were being wound up late, ended with (%q, %v), expected all 300 values in order", pre+1, oB.Val, oB.Err)
	}
	for _, o := range olds {
		o.Wait(core.Grace)
	}
	r.Key(fmt.Sprintf("revsub-reconnect pre=%d", pre), true)
	r.Obs("streams", int64(pre+2))
	r.Sig(core.Log.Signature())
	r.Sample(map[string]interface{}{"scenario": "reverse subscription across a reconnect with late close of the old stream", "old_streams": pre + 1, "new_stream": oB.Val})
}
