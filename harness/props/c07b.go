package props

import (
	"context"
	"fmt"
	"strings"
	"time"

	jsonrpc "github.com/filecoin-project/go-jsonrpc"

	"vharness/core"
	"vharness/svc"
	"vharness/wsproxy"
)

// unencodable: one stream yields a value that encoding/json cannot encode (NaN) while other streams run on
// the same connection. The other streams, and subscriptions opened afterwards, must be unaffected.
func (c07) unencodable(sc core.Scenario, r *core.R) {
	env := NewEnv(EnvOpt{})
	defer env.Shutdown()
	pol := noisePolicy(sc)
	defer pol.Install()()
	cl, err := env.NewClient(ClientOpt{})
	if err != nil {
		r.Inconclusive("client: %v", err)
		return
	}
	bg := context.Background()
	t1, t2, tf := Tok("s"), Tok("s"), Tok("f")
	ch1, err1 := cl.Sub(bg, t1, 400, svc.SSlow)
	ch2, err2 := cl.Sub(bg, t2, 60, svc.SBursty)
	if err1 != nil || err2 != nil {
		r.Inconclusive("subscribe: %v %v", err1, err2)
		return
	}
	g1, g2 := drainItems(ch1, 0, -1, nil), drainItems(ch2, 0, -1, nil)
	nanAt := sc.I("at")
	chf, errf := cl.SubFloat(bg, tf, 12, nanAt)
	if errf != nil {
		r.Inconclusive("subscribe float: %v", errf)
		return
	}
	var floats []float64
	fdone := make(chan struct{})
	go func() {
		for v := range chf {
			floats = append(floats, v)
		}
		close(fdone)
	}()
	for i, g := range []*got{g1, g2} {
		g := g
		if !core.WaitProgress(g.done, core.Grace, func() int64 { return int64(g.n()) }) {
			r.Violate("stream-not-closed", "a stream that shares its connection with a stream yielding an unencodable value (NaN at index %d) stopped after %d values", nanAt, g.n())
		}
		checkSeq(r, "sibling-of-unencodable", []string{t1, t2}[i], g.snapshot(), []int{400, 60}[i], true)
	}
	t3 := Tok("s")
	ch3, err3 := cl.Sub(bg, t3, 30, svc.SGoroutine)
	if err3 != nil || ch3 == nil {
		r.Violate("stream-not-closed", "a subscription opened after another stream yielded an unencodable value failed: %v", err3)
	} else {
		g := drainItems(ch3, 0, -1, nil)
		if !core.WaitCh(g.done, core.Grace) {
			r.Violate("stream-not-closed", "a subscription opened after another stream yielded an unencodable value made no progress (%d of 30)", g.n())
		} else {
			checkSeq(r, "after-unencodable", t3, g.snapshot(), 30, true)
		}
	}
	nf := 0
	if core.WaitCh(fdone, core.Grace) {
		// the encodable values of the float stream arrive in order
		nf = len(floats)
		prev := -1.0
		for _, v := range floats {
			if v <= prev {
				r.Violate("stream-reordered-or-lost", "float stream delivered %v", floats)
				break
			}
			prev = v
		}
	} else {
		r.Violate("stream-not-closed", "the stream with one unencodable value never closed")
	}
	r.Key(fmt.Sprintf("unencodable at=%d", nanAt), true)
	r.Obs("streams", 4)
	r.Sig(core.Log.Signature())
	r.Sample(map[string]interface{}{"scenario": "NaN in one stream, siblings on the same connection", "nan_index": nanAt, "float_values_received": nf})
}

// revSubReconnect: the server subscribes to a stream served by the client (reverse direction). The connection
// breaks while that stream is idle and is re-established; the client-side handler notices late and closes its
// channel only after a new reverse subscription has started on the new connection. The new stream must deliver
// all of its values.
func (c07) revSubReconnect(sc core.Scenario, r *core.R) {
	env := NewEnv(EnvOpt{Rev: true})
	defer env.Shutdown()
	pol := noisePolicy(sc)
	defer pol.Install()()
	c, err := env.NewClient(ClientOpt{RevIdent: "A", Opts: []jsonrpc.Option{jsonrpc.WithReconnectBackoff(5*time.Millisecond, 20*time.Millisecond)}})
	if err != nil {
		r.Inconclusive("client: %v", err)
		return
	}
	bg := context.Background()
	pre := sc.I("pre")
	var olds []*Outcome
	for i := 0; i <= pre; i++ {
		tA := Tok("a")
		olds = append(olds, Go(tA, func() (string, error) { return c.RevSubN(bg, tA, 100000, 40, 250) }))
		if !core.Eventually(core.Grace, func() bool { return env.Svc.Get(tA).Sent >= 1 }) {
			r.Inconclusive("the first reverse stream never delivered a value")
			return
		}
	}
	env.Px.KillAll(wsproxy.RST)
	if !probeUntilHealthy(c, r, 2*core.Grace) {
		r.Inconclusive("link never healthy again")
		return
	}
	tB := Tok("b")
	oB := Go(tB, func() (string, error) { return c.RevSubN(bg, tB, 300, 2, 0) })
	if !oB.Wait(2 * core.Grace) {
		r.Violate("stream-not-closed", "a reverse subscription opened after a reconnect never completed")
	} else if oB.Err != nil || oB.Val != "got 300 ordered=true" {
		r.Violate("stream-truncated", "a reverse subscription (server reading a stream served by the client) opened after a reconnect, while %d stream(s) of the old connection were being wound up late, ended with (%q, %v), expected all 300 values in order", pre+1, oB.Val, oB.Err)
	}
	for _, o := range olds {
		o.Wait(core.Grace)
	}
	r.Key(fmt.Sprintf("revsub-reconnect pre=%d", pre), true)
	r.Obs("streams", int64(pre+2))
	r.Sig(core.Log.Signature())
	r.Sample(map[string]interface{}{"scenario": "reverse subscription across a reconnect with late close of the old stream", "old_streams": pre + 1, "new_stream": oB.Val})
}

// mixedSizes: one stream whose elements alternate between a few bytes and more than a mebibyte, ending with
// a large one right before the close. Order and completeness as for any stream.
func (c07) mixedSizes(sc core.Scenario, r *core.R) {
	env := NewEnv(EnvOpt{})
	defer env.Shutdown()
	pol := noisePolicy(sc)
	defer pol.Install()()
	cl, err := env.NewClient(ClientOpt{})
	if err != nil {
		r.Inconclusive("client: %v", err)
		return
	}
	bg := context.Background()
	n, big := 16, sc.I("kb")<<10
	t := Tok("x")
	ch, err := cl.SubMixed(bg, t, n, big)
	if err != nil || ch == nil {
		r.Inconclusive("subscribe: %v", err)
		return
	}
	var idx []int
	done := make(chan struct{})
	go func() {
		for v := range ch {
			var i int
			fmt.Sscanf(strings.TrimPrefix(v, t+":"), "%d", &i)
			if !strings.HasPrefix(v, t+":") {
				i = -1
			}
			if i%4 == 3 && len(v) < big {
				i = -2 // truncated big element
			}
			idx = append(idx, i)
		}
		close(done)
	}()
	if !core.WaitCh(done, 3*core.Grace) {
		r.Violate("stream-not-closed", "a stream of %d elements alternating between a few bytes and %d KiB did not complete", n, sc.I("kb"))
		return
	}
	ok := len(idx) == n
	for i, v := range idx {
		if v != i {
			ok = false
		}
	}
	if !ok {
		r.Violate("stream-reordered-or-lost", "a stream of %d elements alternating between a few bytes and %d KiB (every fourth, incl. the last) arrived as indices %v", n, sc.I("kb"), idx)
	}
	r.Key(fmt.Sprintf("mixed-sizes kb=%d", sc.I("kb")), true)
	r.Obs("streams", 1)
	r.Obs("values_received", int64(len(idx)))
	r.Sig(core.Log.Signature())
	r.Sample(map[string]interface{}{"scenario": "elements of mixed size in one stream", "big_element_kib": sc.I("kb"), "received": len(idx)})
}

// subBehindBig: subscriptions whose channels are ready at once are set up while a response of many write
// buffers is being written on the same connection. Every stream is complete from its first value on.
func (c07) subBehindBig(sc core.Scenario, r *core.R) {
	env := NewEnv(EnvOpt{})
	defer env.Shutdown()
	pol := noisePolicy(sc)
	defer pol.Install()()
	cl, err := env.NewClient(ClientOpt{})
	if err != nil {
		r.Inconclusive("client: %v", err)
		return
	}
	bg := context.Background()
	rounds, per := 6, sc.I("subs")
	bad := 0
	for round := 0; round < rounds; round++ {
		bt := Tok("b")
		big := Go(bt, func() (string, error) { return cl.Big(bg, bt, sc.I("mb")<<20) })
		env.Svc.WaitEntered(bt, core.Grace)
		type st struct {
			tok string
			g   *got
		}
		var sts []st
		for i := 0; i < per; i++ {
			t := Tok("s")
			ch, err := cl.Sub(bg, t, 40, svc.SPrefilled)
			if err != nil || ch == nil {
				r.Violate("subscribe-failed", "subscription set up while a %d MiB response is being written failed: %v", sc.I("mb"), err)
				continue
			}
			sts = append(sts, st{t, drainItems(ch, 0, -1, nil)})
		}
		for _, x := range sts {
			if !core.WaitCh(x.g.done, 2*core.Grace) {
				bad++
				r.Violate("stream-not-closed", "a prefilled stream subscribed while a %d MiB response was being written never closed (received %d of 40)", sc.I("mb"), x.g.n())
				continue
			}
			before := r.Violated()
			checkSeq(r, "sub-behind-big", x.tok, x.g.snapshot(), 40, true)
			if r.Violated() && !before {
				bad++
			}
		}
		if !big.Wait(3*core.Grace) || big.Err != nil {
			r.Violate("response-dropped", "the %d MiB response did not arrive: %v", sc.I("mb"), big.Err)
		}
		if bad > 0 {
			break
		}
	}
	r.Key(fmt.Sprintf("sub-behind-big mb=%d subs=%d", sc.I("mb"), per), true)
	r.Obs("streams", int64(rounds*per))
	r.Sig(core.Log.Signature())
	r.Sample(map[string]interface{}{"scenario": "prefilled subscriptions set up while a large response is being written", "rounds": rounds, "subscriptions_per_round": per})
}
