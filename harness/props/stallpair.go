package props

import (
	"context"
	"fmt"
	"strings"
	"sync"
	"time"

	jsonrpc "github.com/filecoin-project/go-jsonrpc"

	"vharness/core"
	"vharness/svc"
)

// Single-stall pair enumeration (layer 3 of DESIGN.md section 1.2): on a healthy connection, the occ-th
// firing of hook point p is parked until point q fires next (bounded escape), i.e. "p overtaken by q",
// for every ordered pair of the points a mixed workload passes through. Nothing is injected: whatever the
// schedule, every call must come back with its own answer, every handler must have run exactly once,
// every stream must be complete and in order.
type stallPoint struct {
	pt   string
	side int // the side on which the forward-only workload reaches the point (0: not connection-bound)
	max  int // occurrences the workload certainly produces
}

var stallPoints = []stallPoint{
	{"cl.enqueue.before", 0, 8}, {"cl.enqueue.after", 0, 8}, {"cl.cancel.before", 0, 1}, {"cl.sink.deliver", 0, 8},
	{"ws.req.accepted", 1, 8}, {"ws.req.registered", 1, 8}, {"ws.req.written", 1, 8},
	{"ws.resp.lookup", 1, 8}, {"ws.resp.deliver.before", 1, 8}, {"ws.resp.deliver.after", 1, 8},
	{"ws.subcancel.before", 1, 1}, {"ws.writer.locked", 1, 8}, {"ws.exec.frame", 1, 8}, {"ws.read.frame", 1, 8},
	{"ws.writer.locked", 2, 8}, {"ws.exec.frame", 2, 8}, {"ws.read.frame", 2, 8},
	{"ws.chan.reg", 2, 4}, {"ws.chan.fwd", 2, 8}, {"ws.chan.close", 2, 2},
	{"ws.cancel.recv", 2, 1}, {"ws.call.dispatch", 2, 8}, {"h.lazy.acquire", 2, 8},
}

// planStallPairs: thorough = every ordered pair of (point, side) x occurrence {1,2,4,7}; quick = a seeded
// stratified sample in which every (point, side) appears once as p and once as q.
func planStallPairs(tier string, seed int64, judge string) []core.Scenario {
	var out []core.Scenario
	rng := core.Scenario{Seed: seed ^ 0x57a11}.Rand()
	n := len(stallPoints)
	shift := 1 + int(uint64(seed)%uint64(n-1))
	for pi, p := range stallPoints {
		for qi, q := range stallPoints {
			for oi, occ := range []int{1, 2, 4, 7} {
				if occ > p.max {
					continue
				}
				if tier != "thorough" {
					want := (pi + int(seed)) % 4
					for []int{1, 2, 4, 7}[want] > p.max {
						want--
					}
					if qi != (pi+shift)%n || oi != want {
						continue
					}
				}
				out = append(out, core.Scenario{Kind: "stallpair", Seed: seed*7727 + int64(len(out)),
					N: map[string]int{"occ": occ, "pside": p.side, "qside": q.side, "noise": rng.Intn(3)},
					S: map[string]string{"p": p.pt, "q": q.pt, "judge": judge}})
			}
		}
	}
	return out
}

func runStallPair(sc core.Scenario, r *core.R) {
	p, q, occ, pside := sc.Str("p"), sc.Str("q"), sc.I("occ"), sc.I("pside")
	judge := sc.Str("judge") // "calls" (C02) or "streams" (C07): which half of the oracle reports
	callV := func(fp, f string, a ...interface{}) {
		if judge != "streams" {
			r.Violate(fp, f, a...)
		}
	}
	streamV := func(fp, f string, a ...interface{}) {
		if judge != "calls" {
			r.Violate(fp, f, a...)
		}
	}
	env := NewEnv(EnvOpt{})
	defer env.Shutdown()
	pol := noisePolicy(sc)
	hside, qside := pside, sc.I("qside")
	var stalled, overtaken int64
	var smu sync.Mutex
	pol.Rules = append(pol.Rules, &core.Rule{Point: p, Side: hside, Occ: occ, Do: func(jsonrpc.VerifEvent) {
		cur := pol.Count(q, qside)
		core.Log.Note("h.stall", fmt.Sprintf("%s#%d until %s", p, occ, q))
		ok := pol.WaitPoint(q, qside, cur, 60*time.Millisecond)
		smu.Lock()
		stalled++
		if ok {
			overtaken++
		}
		smu.Unlock()
	}})
	defer pol.Install()()
	cl, err := env.NewClient(ClientOpt{})
	if err != nil {
		r.Inconclusive("client: %v", err)
		return
	}
	bg := context.Background()
	var mu sync.Mutex
	var outs []*Outcome
	type sub struct {
		tok    string
		g      *got
		cancel context.CancelFunc
		finite int
	}
	var subs []*sub
	add := func(o *Outcome) *Outcome {
		mu.Lock()
		outs = append(outs, o)
		mu.Unlock()
		return o
	}
	echo := func(lane string) *Outcome {
		t := Tok(lane)
		return add(Go(t, func() (string, error) { return cl.Echo(bg, t, "") }))
	}
	subErr := map[string]error{}
	subscribe := func(n int, mode int) *Outcome {
		t := Tok("s")
		ctx, cancel := context.WithCancel(bg)
		return Go(t, func() (string, error) {
			ch, err := cl.Sub(ctx, t, n, mode)
			if err != nil || ch == nil {
				cancel()
				mu.Lock()
				subErr[t] = err
				mu.Unlock()
				return "", err
			}
			g := drainItems(ch, 20*time.Microsecond, -1, nil)
			fin := -1
			if mode != svc.SInfinite {
				fin = n
			}
			mu.Lock()
			subs = append(subs, &sub{t, g, cancel, fin})
			mu.Unlock()
			return "", nil
		})
	}
	// ---- workload: overlapping plain calls, a held call, a cancelled call, finite and endless streams
	var subOuts []*Outcome
	e1, e2 := echo("q"), echo("q")
	h1 := Tok("h")
	env.Svc.Hold(h1)
	add(Go(h1, func() (string, error) { return cl.Echo(bg, h1, "") }))
	subOuts = append(subOuts, subscribe(0, svc.SInfinite))
	bt := Tok("b")
	add(Go(bt, func() (string, error) { return cl.Big(bg, bt, 20000) }))
	subOuts = append(subOuts, subscribe(40, svc.SGoroutine))
	e1.Wait(core.Grace)
	e2.Wait(core.Grace)
	cctx, ccancel := context.WithCancel(bg)
	ct := Tok("c")
	env.Svc.Hold(ct)
	co := Go(ct, func() (string, error) { return cl.Echo(cctx, ct, "") })
	entered := env.Svc.WaitEntered(ct, core.Grace)
	ccancel()
	subOuts = append(subOuts, subscribe(33, svc.SPrefilled))
	echo("a")
	echo("a")
	echo("a")
	subOuts = append(subOuts, subscribe(0, svc.SInfinite))
	env.Svc.WaitEntered(h1, core.Grace)
	env.Svc.Release(h1)
	echo("z")
	// ---- oracle
	where := fmt.Sprintf("%s#%d (side %d) parked until %s", p, occ, pside, q)
	for _, o := range subOuts {
		if !o.Wait(core.Grace) {
			callV("call-hang:stallpair", "%s: subscribing call %s never returned on a healthy connection; events: %s", where, o.Tok, core.Log.Tail(30))
		} else if o.Err != nil {
			callV("call-failed:stallpair", "%s: subscribing call %s failed on a healthy connection: %v", where, o.Tok, o.Err)
		}
	}
	if !co.Wait(core.Grace) {
		callV("cancelled-call-hang:stallpair", "%s: cancelled call %s never returned; events: %s", where, ct, core.Log.Tail(30))
	} else if co.Err == nil && co.Val != svc.Reply(ct) {
		callV("foreign-result", "%s: cancelled call %s returned %q", where, ct, core.Trunc(co.Val, 80))
	}
	if entered {
		select {
		case <-env.Svc.ExitedCh(ct):
		case <-time.After(core.Grace):
			callV("cancel-not-delivered:stallpair", "%s: the handler of the cancelled call %s is still running (its context was never cancelled); events: %s", where, ct, core.Log.Tail(30))
		}
	}
	if n := env.Svc.Enters(ct); n > 1 {
		callV("executed-twice", "%s: the handler of call %s ran %d times", where, ct, n)
	}
	mu.Lock()
	allOuts := append([]*Outcome(nil), outs...)
	allSubs := append([]*sub(nil), subs...)
	mu.Unlock()
	blocked := 0
	for _, o := range allOuts {
		if blocked >= 2 && !o.Returned() {
			continue
		}
		if !o.Wait(core.Grace) {
			blocked++
			callV("call-hang:stallpair", "%s: call %s never returned on a healthy connection; events: %s", where, o.Tok, core.Log.Tail(30))
			continue
		}
		if o.Err != nil {
			callV("call-failed:stallpair", "%s: call %s failed on a healthy connection: %v", where, o.Tok, o.Err)
			continue
		}
		if !strings.HasPrefix(o.Val, svc.Reply(o.Tok)) {
			callV("foreign-result", "%s: call %s returned %q", where, o.Tok, core.Trunc(o.Val, 80))
		}
		if n := env.Svc.Enters(o.Tok); n != 1 {
			callV("exec-count", "%s: the handler of call %s ran %d times", where, o.Tok, n)
		}
	}
	// the held call's handler context must not have been cancelled by the sibling's cancel
	if rec := env.Svc.Get(h1); rec.Exits == 1 && rec.CtxErrAtExit != nil {
		callV("cancel-hit-bystander:stallpair", "%s: the context of the uncancelled call %s was cancelled (%v)", where, h1, rec.CtxErrAtExit)
	}
	// finite streams end by themselves with every value; endless ones end when their context is cancelled
	for i, s := range allSubs {
		if s.finite < 0 {
			continue
		}
		if !core.WaitCh(s.g.done, core.Grace) {
			streamV("stream-not-closed", "%s: finite stream %d (%s, %d values) was not closed on a healthy connection (received %d); events: %s", where, i, s.tok, s.finite, s.g.n(), core.Log.Tail(30))
			continue
		}
		if judge != "calls" {
			checkSeq(r, "stallpair", s.tok, s.g.snapshot(), s.finite, true)
		}
	}
	for _, s := range allSubs {
		if s.finite < 0 && s.g.n() == 0 {
			// an endless stream must be flowing before it is cancelled
			deadline := time.Now().Add(core.Grace)
			for s.g.n() == 0 && time.Now().Before(deadline) {
				time.Sleep(time.Millisecond)
			}
			if s.g.n() == 0 {
				streamV("stream-stuck", "%s: endless stream %s delivered nothing on a healthy connection; events: %s", where, s.tok, core.Log.Tail(30))
			}
		}
		s.cancel()
	}
	for i, s := range allSubs {
		if s.finite >= 0 {
			continue
		}
		if !core.WaitCh(s.g.done, core.Grace) {
			streamV("stream-not-closed", "%s: endless stream %d (%s) is still open after its context was cancelled (received %d); events: %s", where, i, s.tok, s.g.n(), core.Log.Tail(30))
			continue
		}
		if judge != "calls" {
			checkSeq(r, "stallpair", s.tok, s.g.snapshot(), int(env.Svc.Get(s.tok).Sent)+1, false)
		}
	}
	// a probe after everything: the connection is still the first one and usable
	pt := Tok("p")
	po := Go(pt, func() (string, error) { return cl.Echo(bg, pt, "") })
	if !po.Wait(core.Grace) || po.Err != nil || po.Val != svc.Reply(pt) {
		callV("client-broken:stallpair", "%s: probe after the workload: returned=%v err=%v val=%q", where, po.Returned(), po.Err, core.Trunc(po.Val, 40))
	}
	// judged on this scenario's own proxy (hook counters also see stragglers of the previous scenario's client)
	if n := env.Px.Accepts(); n != 1 {
		callV("spurious-reconnect", "%s: the proxy accepted %d connections from the one client although nothing was injected; events: %s", where, n, core.Log.Tail(30))
	}
	smu.Lock()
	formed, ov := stalled > 0, overtaken > 0
	smu.Unlock()
	r.Key(fmt.Sprintf("stallpair %s>%s#%d side=%d overtaken=%v", p, q, occ, pside, ov), ov)
	r.Obs("stallpair_formed", b2i(formed))
	r.Obs("stallpair_overtaken", b2i(ov))
	r.Obs("calls", int64(len(allOuts)+len(subOuts)+1))
	r.Sig(core.Log.Signature())
	r.Sample(map[string]interface{}{"window": "p parked until q fires", "p": p, "q": q, "occurrence": occ, "p_side": []string{"", "client", "server"}[pside], "stalled": formed, "q_fired_during_stall": ov, "calls": len(allOuts) + len(subOuts) + 1, "streams": len(allSubs)})
}
