package props

import (
	"bytes"
	"context"
	"encoding/json"
	"errors"
	"fmt"
	"io"
	"math/rand"
	"net/http"
	"net/http/httptest"
	"strings"
	"sync/atomic"
	"time"

	"github.com/gorilla/websocket"

	jsonrpc "github.com/filecoin-project/go-jsonrpc"

	"vharness/core"
)

// C09 – JSON-RPC 2.0 conformance of replies, single and batch, http and ws.

type c09 struct{}

func init() { core.Register(c09{}) }

func (c09) ID() string    { return "C09" }
func (c09) Level() string { return "exploration" }
func (c09) Race() bool    { return false }
func (c09) Rule() string {
	return "request bodies from a JSON-RPC grammar: single / batch (1-6) / empty / whitespace-padded; element kinds {valid call to methods returning value / error / both / nothing, notification, unknown method, aliased method, wrong arity, wrong types, invalid id type, failing notification}; ids: strings (escapes, unicode, empty), integers up to 2^53, negatives, fractions k/2^n, 1e2 spellings, null, absent, bool/array/object; params absent / null / [] / object; byte-level mutations (truncate, insert, flip, duplicate, trailing bytes); exhaustive sub-run over every batch of length <= 3 (quick) / <= 4 (thorough) of six element kinds; the same element stream is sent as ws frames. Distinct = canonical form of the input body/frame; non-trivial = not an empty body. Oracle: reference model written against the property text with explicit latitude (codes asserted only for the four named situations; id:null treated as notification or answered with null; failing notification may yield an error object with id null; all-notification batch answers empty or []; invalid id types may be echoed or nulled), strict structure (exactly one JSON value, jsonrpc 2.0, id present, result XOR error), ids compared by JSON type and value, handler counters for 'ran iff valid'."
}
func (c09) Assumptions() []string {
	return []string{"grammar-built requests use canonical member names once each, ids valid UTF-8 and numbers inside float64's exact range", "byte-mutated bodies get the full verdict only when they are not json.Valid; mutants that stay valid JSON are judged structurally", "HTTP status codes are recorded, not judged"}
}

// ---- served object -------------------------------------------------------------

type J struct{ n int64 }

func (j *J) Add(a, b int) int             { atomic.AddInt64(&j.n, 1); return a + b }
func (j *J) Val(x int) (int, error)       { atomic.AddInt64(&j.n, 1); return x + 1, nil }
func (j *J) Err(x int) error              { atomic.AddInt64(&j.n, 1); return errors.New("bad x") }
func (j *J) Both(x int) (int, error)      { atomic.AddInt64(&j.n, 1); return 7, errors.New("both") }
func (j *J) Nop()                         { atomic.AddInt64(&j.n, 1) }
func (j *J) Str(s string) (string, error) { atomic.AddInt64(&j.n, 1); return s, nil }

// Ticks returns a channel that delivers n values and is closed (ws only).
func (j *J) Ticks(ctx context.Context, n int) (<-chan int, error) {
	atomic.AddInt64(&j.n, 1)
	ch := make(chan int, n)
	for i := 0; i < n; i++ {
		ch <- i
	}
	close(ch)
	return ch, nil
}

type elem struct {
	Raw    string
	Kind   string
	IDRaw  string // "" absent
	IDKind string // absent null string number invalid
	Runs   int    // handler executions expected
	Expect string // "result" "error" "none" "optional-error"
	Code   int    // expected error code, 0 = any
	Result string // expected result JSON ("" = don't care)
}

var idStrings = []string{`"a"`, `""`, `"é\n\"q\""`, `"😀"`, `"123"`, `"null"`, `"with space"`, `" "`}
var idNumbers = []string{`0`, `1`, `-1`, `42`, `9007199254740992`, `-9007199254740991`, `1.5`, `0.25`, `-3.125`, `1e2`, `1E2`, `12e-1`, `100`, `2.0`, `9223372036854775807`, `9223372036854775808`, `18446744073709551616`, `1e19`, `1e22`, `-9223372036854775809`, `1267650600228229401496703205376`}
var idInvalid = []string{`true`, `false`, `[]`, `[1]`, `{}`, `{"a":1}`}

func genID(rng *rand.Rand) (raw, kind string) {
	switch rng.Intn(10) {
	case 0, 1, 2, 3:
		return idNumbers[rng.Intn(len(idNumbers))], "number"
	case 4, 5, 6:
		return idStrings[rng.Intn(len(idStrings))], "string"
	default:
		return fmt.Sprint(rng.Intn(100000)), "number"
	}
}

func mkElem(kind string, rng *rand.Rand) elem {
	e := elem{Kind: kind}
	e.IDRaw, e.IDKind = genID(rng)
	method, params := "J.Val", "[41]"
	e.Expect, e.Runs = "result", 1
	switch kind {
	case "call-ok":
		switch rng.Intn(5) {
		case 0:
			method, params, e.Result = "J.Add", "[2,3]", "5"
		case 1:
			method, params, e.Result = "J.Val", "[41]", "42"
		case 2:
			method, e.Result = "J.Nop", "null"
			params = []string{"[]", "null", ""}[rng.Intn(3)]
		case 3:
			method, params, e.Result = "J.Str", `["<&é"]`, `"<&é"`
		case 4:
			method, params, e.Result = "J.Alias", "[1]", "2"
		}
	case "call-err":
		if rng.Intn(2) == 0 {
			method, params = "J.Err", "[1]"
		} else {
			method, params = "J.Both", "[1]"
		}
		e.Expect = "error"
	case "notif":
		e.IDRaw, e.IDKind = "", "absent"
		e.Expect = "none"
		if rng.Intn(3) == 0 {
			method, params = "J.Nop", "[]"
		}
	case "notif-null-id":
		e.IDRaw, e.IDKind = "null", "null"
		e.Expect = "optional" // treated as a notification or answered with id null
	case "notif-fail":
		e.IDRaw, e.IDKind = "", "absent"
		method, params = "J.Err", "[1]"
		e.Expect = "optional-error"
	case "unknown":
		method = []string{"J.Nope", "Val", "j.val", "J.", "", "X.Val", "J.Val ", "J.Dangling", "J.Missing", "J.Größe", "服务.方法", "J.Val\t", "J.\x7f", "J." + strings.Repeat("v", 300)}[rng.Intn(14)]
		e.Expect, e.Code, e.Runs = "error", -32601, 0
		if method == "" {
			e.Code = 0 // an empty method name is not a well-formed request: any error
		}
	case "arity":
		params = []string{"[]", "[1,2]", "[1,2,3]"}[rng.Intn(3)]
		switch rng.Intn(3) {
		case 0:
			method = "J.Add"
			params = []string{"[1]", "[]", "[1,2,3]"}[rng.Intn(3)]
		case 1: // a method declared without parameters called with some
			method = "J.Nop"
			params = []string{"[1]", "[1,2]", `["x"]`, "[null]"}[rng.Intn(4)]
		}
		e.Expect, e.Code, e.Runs = "error", -32602, 0
	case "types":
		params = []string{`["x"]`, `[1.5]`, `[{}]`, `[[1]]`, `[true]`, `{"x":1}`, `"str"`, `5`}[rng.Intn(8)]
		if rng.Intn(5) == 0 {
			method = "J.Nop" // non-list params for a parameterless method
			params = []string{`{"force":true}`, `"str"`, `5`}[rng.Intn(3)]
		}
		e.Expect, e.Code, e.Runs = "error", 0, 0
	case "badid":
		e.IDRaw, e.IDKind = idInvalid[rng.Intn(len(idInvalid))], "invalid"
		e.Expect, e.Code, e.Runs = "lenient", 0, -1
	case "unknown-notif":
		e.IDRaw, e.IDKind = "", "absent"
		method = "J.Nope"
		e.Expect, e.Runs = "optional-error", 0
	}
	var sb strings.Builder
	sb.WriteString(`{"jsonrpc":"2.0"`)
	if e.IDRaw != "" {
		sb.WriteString(`,"id":` + e.IDRaw)
	}
	mb, _ := json.Marshal(method)
	sb.WriteString(`,"method":` + string(mb))
	if params != "" {
		sb.WriteString(`,"params":` + params)
	}
	sb.WriteString("}")
	e.Raw = sb.String()
	return e
}

var c09Kinds = []string{"call-ok", "call-err", "notif", "unknown", "arity", "badid", "types", "notif-null-id", "notif-fail", "unknown-notif"}

func (c09) Plan(tier string, seed int64) []core.Scenario {
	n, per := 300, 100
	maxB := 3
	if tier == "thorough" {
		n, per, maxB = 1500, 200, 4
	}
	var out []core.Scenario
	for i := 0; i < n; i++ {
		out = append(out, core.Scenario{Kind: "http", Seed: seed*198491317 + int64(i), N: map[string]int{"n": per, "via": i % 3}, S: map[string]string{}})
	}
	// exhaustive batches over six element kinds
	var rec func(prefix []int)
	rec = func(prefix []int) {
		if len(prefix) > 0 {
			out = append(out, core.Scenario{Kind: "batch-exh", Seed: seed + int64(len(out)), L: append([]int(nil), prefix...), N: map[string]int{}, S: map[string]string{}})
		}
		if len(prefix) == maxB {
			return
		}
		for k := 0; k < 6; k++ {
			rec(append(prefix, k))
		}
	}
	rec(nil)
	nw := 12
	if tier == "thorough" {
		nw = 300
	}
	for i := 0; i < nw; i++ {
		out = append(out, core.Scenario{Kind: "ws", Seed: seed*217645177 + int64(i), N: map[string]int{"n": 60}, S: map[string]string{}})
	}
	for i := 0; i < 2; i++ {
		out = append(out, core.Scenario{Kind: "ws-noparams", Seed: seed*217645177 + 7100 + int64(i), N: map[string]int{"conns": 1 + i}, S: map[string]string{}})
	}
	for i := 0; i < 4; i++ {
		out = append(out, core.Scenario{Kind: "ws-idreuse", Seed: seed*217645177 + 7000 + int64(i), N: map[string]int{"idkind": i % 2, "first": i / 2}, S: map[string]string{}})
	}
	return out
}

type c09Srv struct {
	j   *J
	rpc *jsonrpc.RPCServer
}

func newC09Srv(opts ...jsonrpc.ServerOption) *c09Srv {
	s := &c09Srv{j: &J{}, rpc: jsonrpc.NewServer(opts...)}
	s.rpc.Register("J", s.j)
	s.rpc.AliasMethod("J.Alias", "J.Val")
	s.rpc.AliasMethod("J.Dangling", "J.Missing") // an alias whose original was never registered
	return s
}

func (s *c09Srv) post(body string, via int) (string, int) {
	if via == 2 {
		var buf bytes.Buffer
		s.rpc.HandleRequest(context.Background(), strings.NewReader(body), &buf)
		return buf.String(), 0
	}
	rec := httptest.NewRecorder()
	req := httptest.NewRequest("POST", "/rpc", strings.NewReader(body))
	s.rpc.ServeHTTP(rec, req)
	return rec.Body.String(), rec.Code
}

type respObj struct {
	raw    map[string]json.RawMessage
	id     string
	hasRes bool
	hasErr bool
	code   int
	result string
}

// parseResp checks the structural rules for one response object.
func parseResp(raw json.RawMessage) (*respObj, string) {
	var m map[string]json.RawMessage
	if err := json.Unmarshal(raw, &m); err != nil {
		return nil, "response is not a JSON object: " + core.Trunc(string(raw), 120)
	}
	o := &respObj{raw: m}
	var v string
	if err := json.Unmarshal(m["jsonrpc"], &v); err != nil || v != "2.0" {
		return nil, `response lacks "jsonrpc":"2.0": ` + core.Trunc(string(raw), 120)
	}
	id, ok := m["id"]
	if !ok {
		return nil, "response lacks the id member: " + core.Trunc(string(raw), 120)
	}
	o.id = strings.TrimSpace(string(id))
	_, o.hasRes = m["result"]
	_, o.hasErr = m["error"]
	if o.hasRes == o.hasErr {
		return nil, fmt.Sprintf("response must carry exactly one of result/error (result=%v error=%v): %s", o.hasRes, o.hasErr, core.Trunc(string(raw), 160))
	}
	if o.hasErr {
		var e struct {
			Code    *int    `json:"code"`
			Message *string `json:"message"`
		}
		if err := json.Unmarshal(m["error"], &e); err != nil || e.Code == nil || e.Message == nil {
			return nil, "error object lacks integer code / string message: " + core.Trunc(string(raw), 160)
		}
		o.code = *e.Code
	} else {
		o.result = string(m["result"])
	}
	return o, ""
}

// idMatches: same JSON type and value.
func idMatches(reqRaw, reqKind, respRaw string) bool {
	switch reqKind {
	case "string":
		var a, b string
		if !strings.HasPrefix(respRaw, `"`) || json.Unmarshal([]byte(reqRaw), &a) != nil || json.Unmarshal([]byte(respRaw), &b) != nil {
			return false
		}
		return a == b
	case "number":
		var a, b float64
		if respRaw == "" || !strings.ContainsAny(respRaw[:1], "-0123456789") || json.Unmarshal([]byte(reqRaw), &a) != nil || json.Unmarshal([]byte(respRaw), &b) != nil {
			return false
		}
		return a == b
	case "null", "absent":
		return respRaw == "null"
	case "invalid":
		// an id that is neither string nor number cannot be determined: JSON-RPC 2.0 requires null
		return respRaw == "null"
	}
	return false
}

// checkElemResp compares one response object against the model for e.
func checkElemResp(e elem, o *respObj, r *core.R, where string) {
	if !idMatches(e.IDRaw, e.IDKind, o.id) {
		r.Violate("id-not-echoed", "%s: request id %s (%s) answered with id %s", where, e.IDRaw, e.IDKind, o.id)
	}
	switch e.Expect {
	case "result":
		if !o.hasRes {
			r.Violate("error-instead-of-result", "%s: valid request %s answered with error %d", where, e.Raw, o.code)
		} else if e.Result != "" && !semEq(e.Result, o.result) {
			r.Violate("wrong-result", "%s: request %s answered with result %s, expected %s", where, e.Raw, core.Trunc(o.result, 80), e.Result)
		}
	case "error", "optional-error":
		if !o.hasErr {
			r.Violate("result-instead-of-error", "%s: request %s must be answered with an error, got result %s", where, e.Raw, core.Trunc(o.result, 80))
		} else if e.Code != 0 && o.code != e.Code {
			r.Violate(fmt.Sprintf("wrong-code:%d", e.Code), "%s: request %s answered with code %d, expected %d", where, e.Raw, o.code, e.Code)
		}
	}
}

func (p c09) Run(sc core.Scenario) core.Result {
	r := core.NewR(sc)
	switch sc.Kind {
	case "http":
		p.http(sc, r)
	case "batch-exh":
		p.batchExh(sc, r)
	case "ws":
		p.ws(sc, r)
	case "ws-idreuse":
		p.wsIDReuse(sc, r)
	case "ws-noparams":
		p.wsNoParams(sc, r)
	}
	return r.Result()
}

// judgeBody applies the model to one reply. elems == nil means "not grammar-built": structural only.
func judgeBody(body string, isBatch bool, elems []elem, reply string, ranDelta int64, r *core.R) {
	where := "body " + core.Trunc(body, 240)
	trim := strings.TrimSpace(reply)
	// structural: empty or exactly one JSON value
	var top json.RawMessage
	if trim != "" {
		dec := json.NewDecoder(strings.NewReader(trim))
		if err := dec.Decode(&top); err != nil {
			r.Violate("reply-not-json", "%s: reply is not well-formed JSON: %s", where, core.Trunc(reply, 200))
			return
		}
		if dec.More() {
			r.Violate("reply-not-json", "%s: reply holds more than one JSON value: %s", where, core.Trunc(reply, 200))
			return
		}
	}
	var objs []*respObj
	replyIsArray := strings.HasPrefix(trim, "[")
	if trim != "" {
		if replyIsArray {
			var arr []json.RawMessage
			json.Unmarshal(top, &arr)
			for _, a := range arr {
				o, msg := parseResp(a)
				if o == nil {
					r.Violate("malformed-response-object", "%s: %s", where, msg)
					return
				}
				objs = append(objs, o)
			}
		} else {
			o, msg := parseResp(top)
			if o == nil {
				r.Violate("malformed-response-object", "%s: %s", where, msg)
				return
			}
			objs = append(objs, o)
		}
	}
	if elems == nil {
		return
	}
	// expected runs
	wantRuns, lenientRuns := int64(0), false
	hasBadID := false
	for _, e := range elems {
		if e.Runs < 0 {
			lenientRuns = true
			hasBadID = true
		} else {
			wantRuns += int64(e.Runs)
		}
	}
	if hasBadID && isBatch {
		// the property does not say how a batch with an undeterminable id is answered: one error for the
		// whole batch, or per-element answers. Structure was checked above; responses that are present must
		// match their requests, in order.
		idx := 0
		for _, o := range objs {
			if o.id == "null" {
				continue // answer to a notification error or to the element whose id could not be determined
			}
			j := idx
			for j < len(elems) && !((elems[j].IDKind == "number" || elems[j].IDKind == "string") && idMatches(elems[j].IDRaw, elems[j].IDKind, o.id)) {
				j++
			}
			if j == len(elems) {
				if len(objs) == 1 && o.hasErr {
					continue // one error for the whole batch
				}
				r.Violate("batch-order", "%s: response with id %s does not belong to any remaining request of the batch; reply %s", where, o.id, core.Trunc(reply, 240))
				return
			}
			checkElemResp(elems[j], o, r, where)
			idx = j + 1
		}
		return
	}
	if !lenientRuns {
		// failing notifications still run their handler
		if ranDelta != wantRuns {
			r.Violate("handler-run-count", "%s: handlers ran %d times, the requests warrant exactly %d (a handler must run iff its request is valid)", where, ranDelta, wantRuns)
		}
	}
	// which elements must / may be answered
	var must []elem
	for _, e := range elems {
		switch e.Expect {
		case "result", "error", "lenient":
			must = append(must, e)
		}
	}
	if !isBatch {
		e := elems[0]
		switch e.Expect {
		case "none":
			if trim != "" {
				r.Violate("notification-answered", "%s: a notification must not be answered, got %s", where, core.Trunc(reply, 160))
			}
		case "optional", "optional-error":
			if len(objs) == 1 {
				if objs[0].id != "null" {
					r.Violate("id-not-echoed", "%s: reply to a request without determinable id must carry id null, got %s", where, objs[0].id)
				}
				if e.Expect == "optional-error" && !objs[0].hasErr {
					r.Violate("notification-answered", "%s: a notification was answered with a result: %s", where, core.Trunc(reply, 160))
				}
			}
		default:
			if len(objs) != 1 || replyIsArray {
				r.Violate("single-reply-shape", "%s: a single request must be answered with exactly one response object, got %s", where, core.Trunc(reply, 200))
				return
			}
			if e.Expect != "lenient" {
				checkElemResp(e, objs[0], r, where)
			} else {
				if !objs[0].hasErr {
					r.Violate("invalid-id-accepted", "%s: a request with an id of invalid type must be rejected with an error", where)
				}
				if objs[0].id != "null" {
					r.Violate("id-not-echoed", "%s: the id %s is neither string nor number, it cannot be determined: the reply must carry id null, not %s", where, e.IDRaw, objs[0].id)
				}
			}
		}
		return
	}
	// batch
	if len(must) == 0 {
		// solely notifications (or optional ones): empty, [] or only id-null error objects
		for _, o := range objs {
			if o.id != "null" || !o.hasErr {
				r.Violate("notification-answered", "%s: batch of notifications answered with %s", where, core.Trunc(reply, 200))
			}
		}
		return
	}
	if !replyIsArray {
		r.Violate("batch-reply-shape", "%s: a batch with id-bearing requests must be answered with an array, got %s", where, core.Trunc(reply, 200))
		return
	}
	// match must-elements in order; id-null error objects for optional elements may be interspersed
	mi := 0
	for _, o := range objs {
		if mi < len(must) && idMatches(must[mi].IDRaw, must[mi].IDKind, o.id) {
			checkElemResp(must[mi], o, r, where)
			mi++
			continue
		}
		if o.id == "null" && o.hasErr {
			continue // answer to a failing notification / null-id request
		}
		r.Violate("batch-order", "%s: unexpected response object with id %s at this position (expected id %s); reply %s", where, o.id, func() string {
			if mi < len(must) {
				return must[mi].IDRaw
			}
			return "<none left>"
		}(), core.Trunc(reply, 240))
		return
	}
	if mi != len(must) {
		r.Violate("batch-missing-response", "%s: %d of %d id-bearing requests were not answered; reply %s", where, len(must)-mi, len(must), core.Trunc(reply, 240))
	}
}

// normID: a key under which a request id and its echo compare equal iff they have the same JSON type and value.
func normID(raw string) string {
	raw = strings.TrimSpace(raw)
	if strings.HasPrefix(raw, `"`) {
		var s string
		if json.Unmarshal([]byte(raw), &s) == nil {
			return "s:" + s
		}
	}
	var f float64
	if raw != "" && strings.ContainsAny(raw[:1], "-0123456789") && json.Unmarshal([]byte(raw), &f) == nil {
		return fmt.Sprintf("n:%v", f)
	}
	return "x:" + raw
}

type failingReader struct{}

func (failingReader) Read([]byte) (int, error) { return 0, errors.New("transfer failed") }

func pad(rng *rand.Rand) string {
	return []string{"", "", " ", "\n", "\t \r\n"}[rng.Intn(5)]
}

func (c09) http(sc core.Scenario, r *core.R) {
	rng := sc.Rand()
	s := newC09Srv()
	limited := sc.Seed%2 == 0
	if limited {
		s = newC09Srv(jsonrpc.WithMaxRequestSize(8192))
	}
	via := sc.I("via")
	var sample interface{}
	for i := 0; i < sc.I("n"); i++ {
		if limited && rng.Intn(12) == 0 {
			// a request the server rejects before parsing (oversize, or a body whose transfer fails part-way);
			// whatever it answers, the following requests must be judged as usual
			before := atomic.LoadInt64(&s.j.n)
			if rng.Intn(2) == 0 {
				e := mkElem("call-ok", rng)
				reply, _ := s.post(e.Raw+strings.Repeat(" ", 9000), via)
				judgeBody("oversize", false, nil, reply, 0, r)
				if !strings.Contains(reply, `"error"`) {
					r.Violate("oversize-not-rejected", "a 9 kB body against an 8 kB limit was answered with %s", core.Trunc(reply, 120))
				}
			} else {
				e := mkElem("call-ok", rng)
				var buf bytes.Buffer
				s.rpc.HandleRequest(context.Background(), io.MultiReader(strings.NewReader(e.Raw[:len(e.Raw)/2]), failingReader{}), &buf)
				judgeBody("broken-transfer", false, nil, buf.String(), 0, r)
			}
			if atomic.LoadInt64(&s.j.n) != before {
				r.Violate("handler-run-count", "a request rejected before parsing ran a handler")
			}
			r.Obs("rejected_before_parsing", 1)
		}
		var body string
		var elems []elem
		isBatch := false
		mode := rng.Intn(10)
		switch {
		case mode < 4: // single
			e := mkElem(c09Kinds[rng.Intn(len(c09Kinds))], rng)
			elems = []elem{e}
			body = pad(rng) + e.Raw + pad(rng)
		case mode < 8: // batch
			isBatch = true
			n := 1 + rng.Intn(6)
			var parts []string
			seenNum := map[float64]bool{}
			seenStr := map[string]bool{}
			for k := 0; k < n; k++ {
				e := mkElem(c09Kinds[rng.Intn(len(c09Kinds))], rng)
				// ids are unique within a batch so that responses can be attributed
				switch e.IDKind {
				case "number":
					var f float64
					json.Unmarshal([]byte(e.IDRaw), &f)
					if seenNum[f] {
						nid := fmt.Sprint(500000 + i*10 + k)
						e.Raw = strings.Replace(e.Raw, `"id":`+e.IDRaw, `"id":`+nid, 1)
						e.IDRaw = nid
						json.Unmarshal([]byte(nid), &f)
					}
					seenNum[f] = true
				case "string":
					var str string
					json.Unmarshal([]byte(e.IDRaw), &str)
					if seenStr[str] {
						nid := fmt.Sprintf(`"dup%d"`, k)
						e.Raw = strings.Replace(e.Raw, `"id":`+e.IDRaw, `"id":`+nid, 1)
						e.IDRaw = nid
						str = fmt.Sprintf("dup%d", k)
					}
					seenStr[str] = true
				}
				elems = append(elems, e)
				parts = append(parts, e.Raw)
			}
			body = pad(rng) + "[" + pad(rng) + strings.Join(parts, pad(rng)+","+pad(rng)) + pad(rng) + "]" + pad(rng)
		case mode == 8: // empty-ish
			body = []string{"", " ", "\n\t", "[]", " [ ] ", "[\n]"}[rng.Intn(6)]
			before := atomic.LoadInt64(&s.j.n)
			reply, _ := s.post(body, via)
			r.Obs("bodies", 1)
			r.AddKey(core.Hash("empty", body))
			judgeBody(body, false, nil, reply, 0, r)
			var o *respObj
			if strings.TrimSpace(reply) != "" {
				o, _ = parseResp(json.RawMessage(strings.TrimSpace(reply)))
			}
			if o == nil || !o.hasErr || o.code != -32600 || o.id != "null" {
				r.Violate("wrong-code:-32600", "empty request %q must be answered with one error object code -32600 id null, got %s", body, core.Trunc(reply, 160))
			}
			if atomic.LoadInt64(&s.j.n) != before {
				r.Violate("handler-run-count", "empty request ran a handler")
			}
			continue
		default: // byte-level mutation of a valid body
			e := mkElem([]string{"call-ok", "call-err", "arity"}[rng.Intn(3)], rng)
			b := []byte(e.Raw)
			if rng.Intn(2) == 0 {
				e2 := mkElem("call-ok", rng)
				b = []byte("[" + e.Raw + "," + e2.Raw + "]")
			}
			switch rng.Intn(6) {
			case 0:
				b = b[:rng.Intn(len(b))]
			case 1:
				p := rng.Intn(len(b))
				b = append(b[:p:p], append([]byte{[]byte(`{}[]",:x0 `)[rng.Intn(10)]}, b[p:]...)...)
			case 2:
				b[rng.Intn(len(b))] ^= byte(1 << uint(rng.Intn(7)))
			case 3:
				p := rng.Intn(len(b))
				q := p + rng.Intn(len(b)-p)
				b = append(b[:q:q], append(append([]byte(nil), b[p:q]...), b[q:]...)...)
			case 4:
				b = append(b, []byte([]string{"x", "}", "]", " {}", ",", "\"", " 1", "null"}[rng.Intn(8)])...)
			case 5:
				b = append([]byte([]string{"x", ",", "}", "1 ", "\""}[rng.Intn(5)]), b...)
			}
			body = string(b)
			before := atomic.LoadInt64(&s.j.n)
			reply, _ := s.post(body, via)
			ran := atomic.LoadInt64(&s.j.n) - before
			r.Obs("bodies", 1)
			r.Obs("mutated_bodies", 1)
			r.AddKey(core.Hash("mut", body))
			judgeBody(body, false, nil, reply, 0, r)
			if !json.Valid([]byte(strings.TrimSpace(body))) && strings.TrimSpace(body) != "" {
				r.Obs("mutated_invalid_json", 1)
				var o *respObj
				if t := strings.TrimSpace(reply); t != "" && !strings.HasPrefix(t, "[") {
					o, _ = parseResp(json.RawMessage(t))
				}
				if o == nil || !o.hasErr || o.code != -32700 || o.id != "null" {
					r.Violate("wrong-code:-32700", "malformed JSON body %q must be answered with one error object code -32700 id null, got %s", core.Trunc(body, 200), core.Trunc(reply, 200))
				}
				if ran != 0 {
					r.Violate("handler-run-on-malformed", "malformed JSON body %q ran %d handler(s)", core.Trunc(body, 200), ran)
				}
			}
			continue
		}
		before := atomic.LoadInt64(&s.j.n)
		reply, status := s.post(body, via)
		ran := atomic.LoadInt64(&s.j.n) - before
		r.Obs("bodies", 1)
		r.AddKey(core.Hash("g", body))
		judgeBody(body, isBatch, elems, reply, ran, r)
		if sample == nil && isBatch && len(elems) > 2 {
			sample = map[string]interface{}{"body": core.Trunc(body, 400), "reply": core.Trunc(reply, 400), "http_status": status, "handlers_ran": ran}
		}
	}
	r.Key(fmt.Sprintf("http via=%d seed=%d", via, sc.Seed), true)
	r.Sample(sample)
}

func (c09) batchExh(sc core.Scenario, r *core.R) {
	rng := sc.Rand()
	s := newC09Srv()
	six := []string{"call-ok", "call-err", "notif", "unknown", "arity", "badid"}
	var elems []elem
	var parts []string
	for i, k := range sc.L {
		e := mkElem(six[k], rng)
		if e.IDKind == "number" || e.IDKind == "string" {
			e.Raw = strings.Replace(e.Raw, `"id":`+e.IDRaw, fmt.Sprintf(`"id":%d`, 100+i), 1)
			e.IDRaw, e.IDKind = fmt.Sprint(100+i), "number"
		}
		elems = append(elems, e)
		parts = append(parts, e.Raw)
	}
	body := "[" + strings.Join(parts, ",") + "]"
	before := atomic.LoadInt64(&s.j.n)
	reply, status := s.post(body, 0)
	ran := atomic.LoadInt64(&s.j.n) - before
	judgeBody(body, true, elems, reply, ran, r)
	var ks []string
	for _, k := range sc.L {
		ks = append(ks, six[k])
	}
	r.Key("batch "+strings.Join(ks, ","), true)
	r.Obs("bodies", 1)
	r.Obs("exhaustive_batches", 1)
	r.Sample(map[string]interface{}{"batch_kinds": ks, "reply": core.Trunc(reply, 300), "http_status": status, "handlers_ran": ran})
}

// ws: every frame with a valid id gets exactly one response frame, notifications none.
func (c09) ws(sc core.Scenario, r *core.R) {
	rng := sc.Rand()
	s := newC09Srv()
	ts := httptest.NewServer(s.rpc)
	defer ts.Close()
	conn, _, err := websocket.DefaultDialer.Dial("ws://"+ts.Listener.Addr().String(), http.Header{})
	if err != nil {
		r.Inconclusive("dial: %v", err)
		return
	}
	defer conn.Close()
	type want struct {
		e elem
		n int
	}
	wants := map[string]*want{}
	usedIDs := map[string]bool{}
	n := sc.I("n")
	sent := 0
	invalidIDFrames := 0
	for i := 0; i < n; i++ {
		e := mkElem(c09Kinds[rng.Intn(len(c09Kinds))], rng)
		if strings.Contains(e.Raw, `"method":""`) {
			continue // on ws a frame without a method name is a response frame, not a request
		}
		if e.IDKind == "number" || e.IDKind == "string" {
			// ids must be unique on the connection so that responses can be attributed: the first use of a
			// pool id (0, "", 1.5, 1e2, ...) is kept as it is, later ones are replaced
			normal := e.IDRaw
			if e.IDKind == "number" {
				var f float64
				json.Unmarshal([]byte(e.IDRaw), &f)
				normal = fmt.Sprint(f)
			}
			if usedIDs[e.IDKind+normal] {
				nid := fmt.Sprintf(`"u%d"`, i)
				kind := "string"
				if i%2 == 0 {
					nid, kind = fmt.Sprint(1000+i), "number"
				}
				e.Raw = strings.Replace(e.Raw, `"id":`+e.IDRaw, `"id":`+nid, 1)
				e.IDRaw, e.IDKind = nid, kind
				normal = nid
				if kind == "number" {
					normal = fmt.Sprint(float64(1000 + i))
				}
			}
			usedIDs[e.IDKind+normal] = true
			wants[normID(e.IDRaw)] = &want{e: e}
		}
		if e.IDKind == "invalid" {
			invalidIDFrames++ // the id "could not be determined": such a frame may be answered with id null
		}
		if err := conn.WriteMessage(websocket.TextMessage, []byte(e.Raw)); err != nil {
			r.Inconclusive("write: %v", err)
			return
		}
		sent++
	}
	// two sentinels: everything answered before the second one returns has been seen
	for k := 0; k < 2; k++ {
		conn.WriteMessage(websocket.TextMessage, []byte(fmt.Sprintf(`{"jsonrpc":"2.0","id":"sentinel%d","method":"J.Val","params":[1]}`, k)))
	}
	sentinels := 0
	extra := 0
	allIn := func() bool {
		if sentinels < 2 {
			return false
		}
		for _, w := range wants {
			if w.n < 1 {
				return false
			}
		}
		return true
	}
	conn.SetReadDeadline(time.Now().Add(2 * core.Grace))
	lingering := false
	for {
		if !lingering && allIn() {
			// everything expected has arrived: linger briefly to catch duplicates / unexpected frames
			lingering = true
			conn.SetReadDeadline(time.Now().Add(40 * time.Millisecond))
		}
		_, msg, err := conn.ReadMessage()
		if err != nil {
			break
		}
		o, bad := parseResp(msg)
		if o == nil {
			var probe struct {
				Method string `json:"method"`
			}
			if json.Unmarshal(msg, &probe) == nil && probe.Method != "" {
				continue
			}
			r.Violate("malformed-response-object", "ws frame: %s", bad)
			continue
		}
		if strings.HasPrefix(o.id, `"sentinel`) {
			sentinels++
			continue
		}
		w, ok := wants[normID(o.id)]
		if !ok {
			if o.id == "null" && o.hasErr {
				// only a frame whose id could not be determined may be answered with id null; a notification
				// (id absent or null) gets no frame at all, failing or not
				extra++
				if extra > invalidIDFrames {
					r.Violate("ws-notification-answered", "%d response frames with id null but only %d request frames carried an id of invalid type: a notification was answered: %s", extra, invalidIDFrames, core.Trunc(string(msg), 160))
				}
				continue
			}
			r.Violate("ws-unexpected-response", "response frame with id %s that no request frame carried: %s", o.id, core.Trunc(string(msg), 160))
			continue
		}
		w.n++
		checkElemResp(w.e, o, r, "ws frame "+core.Trunc(w.e.Raw, 160))
	}
	if sentinels != 2 {
		r.Violate("ws-response-count", "%d of 2 sentinel requests answered", sentinels)
	}
	for id, w := range wants {
		if w.n != 1 {
			r.Violate("ws-response-count", "request frame with valid id %s (%s) got %d response frames, expected exactly 1", id, core.Trunc(w.e.Raw, 120), w.n)
		}
	}
	r.Key(fmt.Sprintf("ws seed=%d", sc.Seed), true)
	r.Obs("ws_frames_sent", int64(sent))
	r.Obs("ws_valid_id_frames", int64(len(wants)))
	r.Sample(map[string]interface{}{"transport": "ws", "frames": sent, "valid_id_frames": len(wants), "id_null_error_frames": extra})
}

// wsIDReuse: one id is used again and again on a connection, each time after the previous request with
// that id has been answered completely (for a channel-returning call: after its close notification).
// Every request frame must get exactly one response frame with that id.
func (c09) wsIDReuse(sc core.Scenario, r *core.R) {
	s := newC09Srv()
	ts := httptest.NewServer(s.rpc)
	defer ts.Close()
	conn, _, err := websocket.DefaultDialer.Dial("ws://"+ts.Listener.Addr().String(), http.Header{})
	if err != nil {
		r.Inconclusive("dial: %v", err)
		return
	}
	defer conn.Close()
	id := []string{`5`, `"again"`}[sc.I("idkind")]
	steps := []struct{ method, params, expect string }{
		{"J.Ticks", "[2]", "chan"}, {"J.Val", "[1]", "2"}, {"J.Err", "[1]", "error"}, {"J.Ticks", "[0]", "chan"}, {"J.Val", "[41]", "42"}, {"J.Nope", "[]", "error"}, {"J.Val", "[2]", "3"},
	}
	if sc.I("first") == 1 {
		steps = append(steps[1:3], steps...)
	}
	for i, st := range steps {
		req := fmt.Sprintf(`{"jsonrpc":"2.0","id":%s,"method":%q,"params":%s}`, id, st.method, st.params)
		if err := conn.WriteMessage(websocket.TextMessage, []byte(req)); err != nil {
			r.Inconclusive("write: %v", err)
			return
		}
		r.Obs("ws_frames_sent", 1)
		where := fmt.Sprintf("step %d of a connection that reuses id %s for every request (after the previous one completed): %s", i, id, req)
		answered, closed := false, st.expect != "chan"
		conn.SetReadDeadline(time.Now().Add(core.Grace))
		for !answered || !closed {
			_, msg, err := conn.ReadMessage()
			if err != nil {
				r.Violate("ws-response-count", "%s: got no response frame (answered=%v, stream closed=%v): %v", where, answered, closed, err)
				return
			}
			var f struct {
				ID     json.RawMessage `json:"id"`
				Method string          `json:"method"`
				Result json.RawMessage `json:"result"`
				Error  json.RawMessage `json:"error"`
			}
			if json.Unmarshal(msg, &f) != nil {
				r.Violate("malformed-response-object", "%s: frame %s", where, core.Trunc(string(msg), 120))
				return
			}
			switch {
			case f.Method == "xrpc.ch.close":
				closed = true
			case f.Method != "":
			case normID(string(f.ID)) != normID(id):
				r.Violate("ws-unexpected-response", "%s: response frame with id %s", where, string(f.ID))
			case answered:
				r.Violate("ws-response-count", "%s: second response frame %s", where, core.Trunc(string(msg), 120))
			default:
				answered = true
				switch st.expect {
				case "error":
					if f.Error == nil {
						r.Violate("wrong-outcome", "%s: expected an error response, got %s", where, core.Trunc(string(msg), 120))
					}
				case "chan":
					if f.Error != nil || f.Result == nil {
						r.Violate("wrong-outcome", "%s: expected a channel id, got %s", where, core.Trunc(string(msg), 120))
						closed = true
					}
				default:
					if string(f.Result) != st.expect {
						r.Violate("wrong-outcome", "%s: expected result %s, got %s", where, st.expect, core.Trunc(string(msg), 120))
					}
				}
			}
		}
	}
	r.Key(fmt.Sprintf("ws-idreuse id=%s first=%d", id, sc.I("first")), true)
	r.Sample(map[string]interface{}{"transport": "ws", "scenario": "one id reused by consecutive requests incl. channel-returning ones", "id": id, "requests": len(steps)})
}

// wsNoParams: requests that omit the params member altogether (legal JSON-RPC, never produced by this
// library's client) interleaved with requests that carry params, on one or two connections. A method with
// parameters called without params is an arity error and its handler does not run; a parameterless method
// called without params runs.
func (c09) wsNoParams(sc core.Scenario, r *core.R) {
	s := newC09Srv()
	ts := httptest.NewServer(s.rpc)
	defer ts.Close()
	var conns []*websocket.Conn
	for i := 0; i < sc.I("conns"); i++ {
		conn, _, err := websocket.DefaultDialer.Dial("ws://"+ts.Listener.Addr().String(), http.Header{})
		if err != nil {
			r.Inconclusive("dial: %v", err)
			return
		}
		defer conn.Close()
		conns = append(conns, conn)
	}
	type step struct {
		frame  string
		expect string // result JSON, "error:<code>", "" = notification (no reply)
		runs   int64
	}
	steps := []step{
		{`"method":"J.Val","params":[41]`, "42", 1},
		{`"method":"J.Val"`, "error:-32602", 0},
		{`"method":"J.Add","params":[5,100]`, "105", 1},
		{`"method":"J.Add"`, "error:-32602", 0},
		{`"method":"J.Nop"`, "null", 1},
		{`"method":"J.Str","params":["x"]`, `"x"`, 1},
		{`"method":"J.Nop"`, "null", 1},
		{`"method":"J.Str"`, "error:-32602", 0},
		{`"method":"J.Val","params":[1]`, "2", 1},
		{`"method":"J.Val","params":[]`, "error:-32602", 0},
	}
	for round := 0; round < 20; round++ {
		for i, st := range steps {
			conn := conns[(round+i)%len(conns)]
			id := 1000*round + i
			before := atomic.LoadInt64(&s.j.n)
			req := fmt.Sprintf(`{"jsonrpc":"2.0","id":%d,%s}`, id, st.frame)
			if err := conn.WriteMessage(websocket.TextMessage, []byte(req)); err != nil {
				r.Inconclusive("write: %v", err)
				return
			}
			r.Obs("ws_frames_sent", 1)
			conn.SetReadDeadline(time.Now().Add(core.Grace))
			_, msg, err := conn.ReadMessage()
			where := fmt.Sprintf("round %d: request %s (sent after %q)", round, req, steps[(i+len(steps)-1)%len(steps)].frame)
			if err != nil {
				r.Violate("ws-response-count", "%s: no response frame: %v", where, err)
				return
			}
			var f struct {
				ID     int             `json:"id"`
				Result json.RawMessage `json:"result"`
				Error  *struct {
					Code int `json:"code"`
				} `json:"error"`
			}
			if json.Unmarshal(msg, &f) != nil || f.ID != id {
				r.Violate("malformed-response-object", "%s: answered with %s", where, core.Trunc(string(msg), 120))
				continue
			}
			got := string(f.Result)
			if f.Error != nil {
				got = fmt.Sprintf("error:%d", f.Error.Code)
			}
			ran := atomic.LoadInt64(&s.j.n) - before
			if got != st.expect {
				r.Violate("wrong-outcome", "%s: expected %s, got %s", where, st.expect, core.Trunc(string(msg), 120))
			}
			if ran != st.runs {
				r.Violate("handler-run-count", "%s: the handler ran %d times, expected %d", where, ran, st.runs)
			}
		}
	}
	r.Key(fmt.Sprintf("ws-noparams conns=%d", sc.I("conns")), true)
	r.Sample(map[string]interface{}{"transport": "ws", "scenario": "requests without a params member interleaved with requests that carry params", "connections": len(conns)})
}
