package props

import (
	"context"
	"errors"
	"fmt"
	"net/http"
	"net/http/httptest"
	"sort"
	"strings"
	"sync/atomic"
	"time"

	jsonrpc "github.com/filecoin-project/go-jsonrpc"
	"github.com/filecoin-project/go-jsonrpc/auth"

	"vharness/core"
)

// C19 – permission checks. Complete enumeration of a 3-permission universe at
// run time against the real auth package, plus a sampled end-to-end run.

type c19 struct{}

func init() { core.Register(c19{}) }

func (c19) ID() string    { return "C19" }
func (c19) Level() string { return "exploration" }
func (c19) Race() bool    { return false }
func (c19) Rule() string {
	return "complete enumeration: caller set (8 subsets of {r,w,a}) x default set (8) x {nothing attached, nil slice attached, set attached} x required permission (3) x shape {error, (value,error)} through auth.PermissionedProxy; auth.Handler: 9 header/query forms x verifier outcome (8 sets + error); plus end-to-end ws/http runs through RPCServer. A case is the tuple itself; all are non-trivial (each decides run/deny)."
}
func (c19) Assumptions() []string {
	return []string{"permissions are only compared for equality, so a 3-element universe is representative", "the 'Bearer ' + empty token form may be treated as malformed or as the empty token (net/http trims header values)"}
}
func (c19) Exhaustive(string) bool { return true }

var permU = []auth.Permission{"r", "w", "a"}

func subset(mask int) []auth.Permission {
	out := []auth.Permission{}
	for i, p := range permU {
		if mask&(1<<i) != 0 {
			out = append(out, p)
		}
	}
	return out
}
func permStr(ps []auth.Permission) string {
	var s []string
	for _, p := range ps {
		s = append(s, string(p))
	}
	sort.Strings(s)
	return "{" + strings.Join(s, "") + "}"
}
func has(ps []auth.Permission, p auth.Permission) bool {
	for _, x := range ps {
		if x == p {
			return true
		}
	}
	return false
}

type c19Impl struct {
	n    int64
	last context.Context
}

func (i *c19Impl) Er(ctx context.Context) error        { atomic.AddInt64(&i.n, 1); return nil }
func (i *c19Impl) Ew(ctx context.Context) error        { atomic.AddInt64(&i.n, 1); return nil }
func (i *c19Impl) Ea(ctx context.Context) error        { atomic.AddInt64(&i.n, 1); return nil }
func (i *c19Impl) Vr(ctx context.Context) (int, error) { atomic.AddInt64(&i.n, 1); return 42, nil }
func (i *c19Impl) Vw(ctx context.Context) (int, error) { atomic.AddInt64(&i.n, 1); return 42, nil }
func (i *c19Impl) Va(ctx context.Context) (int, error) { atomic.AddInt64(&i.n, 1); return 42, nil }

type c19Proxy struct {
	Er func(ctx context.Context) error        `perm:"r"`
	Ew func(ctx context.Context) error        `perm:"w"`
	Ea func(ctx context.Context) error        `perm:"a"`
	Vr func(ctx context.Context) (int, error) `perm:"r"`
	Vw func(ctx context.Context) (int, error) `perm:"w"`
	Va func(ctx context.Context) (int, error) `perm:"a"`
}

// c19Served exposes the permissioned proxy struct as methods (what lotus-style
// API structs do) so it can be registered on an RPCServer.
type c19Served struct{ px *c19Proxy }

func (s *c19Served) Er(ctx context.Context) error        { return s.px.Er(ctx) }
func (s *c19Served) Ew(ctx context.Context) error        { return s.px.Ew(ctx) }
func (s *c19Served) Ea(ctx context.Context) error        { return s.px.Ea(ctx) }
func (s *c19Served) Vr(ctx context.Context) (int, error) { return s.px.Vr(ctx) }
func (s *c19Served) Vw(ctx context.Context) (int, error) { return s.px.Vw(ctx) }
func (s *c19Served) Va(ctx context.Context) (int, error) { return s.px.Va(ctx) }

func (c19) Plan(tier string, seed int64) []core.Scenario {
	var out []core.Scenario
	for def := 0; def < 8; def++ {
		for mode := 0; mode < 3; mode++ {
			out = append(out, core.Sc("proxy").WithN("def", def).WithN("mode", mode))
		}
	}
	for v := 0; v < 9; v++ { // verifier outcome: 0..7 sets, 8 error
		out = append(out, core.Sc("handler").WithN("verif", v))
	}
	for i := 0; i < 4; i++ {
		out = append(out, core.Sc("handler-seq").WithN("order", i))
	}
	for a := 0; a < 8; a++ {
		out = append(out, core.Sc("shared-defaults").WithN("def", a))
	}
	for def := 0; def < 8; def += 5 {
		out = append(out, core.Sc("derived").WithN("def", def))
	}
	for part := 0; part < 4; part++ {
		out = append(out, core.Sc("bigset").WithN("part", part))
	}
	for _, tr := range []string{"ws", "http"} {
		for def := 0; def < 8; def += 3 {
			out = append(out, core.Sc("e2e").WithS("transport", tr).WithN("def", def))
		}
	}
	return out
}

func (p c19) Run(sc core.Scenario) core.Result {
	r := core.NewR(sc)
	switch sc.Kind {
	case "proxy":
		p.runProxy(sc, r)
	case "handler":
		p.runHandler(sc, r)
	case "e2e":
		p.runE2E(sc, r)
	case "handler-seq":
		p.runHandlerSeq(sc, r)
	case "shared-defaults":
		p.runSharedDefaults(sc, r)
	case "derived":
		p.runDerived(sc, r)
	case "bigset":
		p.runBigSet(sc, r)
	}
	return r.Result()
}

func (c19) callAll(px *c19Proxy, ctx context.Context, impl *c19Impl, effective []auth.Permission, r *core.R, label string) {
	type call struct {
		name string
		req  auth.Permission
		e    func(context.Context) error
		v    func(context.Context) (int, error)
	}
	calls := []call{
		{"Er", "r", px.Er, nil}, {"Ew", "w", px.Ew, nil}, {"Ea", "a", px.Ea, nil},
		{"Vr", "r", nil, px.Vr}, {"Vw", "w", nil, px.Vw}, {"Va", "a", nil, px.Va},
	}
	for _, c := range calls {
		before := atomic.LoadInt64(&impl.n)
		var err error
		val := 0
		if c.e != nil {
			err = c.e(ctx)
		} else {
			val, err = c.v(ctx)
		}
		ran := atomic.LoadInt64(&impl.n) - before
		want := has(effective, c.req)
		r.Obs("calls", 1)
		key := fmt.Sprintf("%s|%s", label, c.name)
		r.AddKey(key)
		if want {
			r.Obs("allowed", 1)
			if ran != 1 || err != nil || (c.v != nil && val != 42) {
				r.Violate("perm-denied-or-wrong", "%s: effective=%s requires %s: expected the method to run once, ran=%d err=%v val=%d", key, permStr(effective), c.req, ran, err, val)
			}
		} else {
			r.Obs("denied", 1)
			if ran != 0 {
				r.Violate("perm-bypass", "%s: effective=%s lacks %s but the implementation ran %d time(s)", key, permStr(effective), c.req, ran)
			}
			if err == nil {
				r.Violate("perm-no-error", "%s: effective=%s lacks %s but no error was returned", key, permStr(effective), c.req)
			}
			if val != 0 {
				r.Violate("perm-nonzero", "%s: denied call returned non-zero value %d", key, val)
			}
		}
	}
}

func (p c19) runProxy(sc core.Scenario, r *core.R) {
	def := subset(sc.I("def"))
	mode := sc.I("mode")
	impl := &c19Impl{}
	var px c19Proxy
	auth.PermissionedProxy(permU, def, impl, &px)
	r.Key(fmt.Sprintf("proxy def=%s mode=%d", permStr(def), mode), true)
	switch mode {
	case 0: // nothing attached -> defaults
		p.callAll(&px, context.Background(), impl, def, r, fmt.Sprintf("def=%s none", permStr(def)))
	case 1: // nil slice attached -> exactly the (empty) attached set
		p.callAll(&px, auth.WithPerm(context.Background(), nil), impl, nil, r, fmt.Sprintf("def=%s nil", permStr(def)))
	case 2:
		for m := 0; m < 8; m++ {
			s := subset(m)
			p.callAll(&px, auth.WithPerm(context.Background(), s), impl, s, r, fmt.Sprintf("def=%s set=%s", permStr(def), permStr(s)))
		}
	}
	r.Sample(map[string]interface{}{"defaults": permStr(def), "mode": []string{"nothing attached", "nil slice attached", "every subset attached"}[mode], "impl_invocations": atomic.LoadInt64(&impl.n)})
}

// attachedSet reconstructs what is attached to ctx using only the public API:
// returns (attached?, set).
func attachedSet(ctx context.Context) (bool, []auth.Permission) {
	all := permU
	var withAll, withNone []auth.Permission
	for _, p := range permU {
		if auth.HasPerm(ctx, all, p) {
			withAll = append(withAll, p)
		}
		if auth.HasPerm(ctx, nil, p) {
			withNone = append(withNone, p)
		}
	}
	if len(withAll) == 3 && len(withNone) == 0 {
		// either nothing attached or exactly... attached full set would give withNone=3
		return false, nil
	}
	return true, withNone
}

func (p c19) runHandler(sc core.Scenario, r *core.R) {
	v := sc.I("verif")
	r.Key(fmt.Sprintf("handler verif=%d", v), true)
	type form struct {
		name, header, query string
		expectToken         string // token the verifier must see ("\x00" = verifier must not be called)
		malformed           bool
		lenient             bool
	}
	forms := []form{
		{"absent", "", "", "\x00", false, false},
		{"bearer", "Bearer tok123", "", "tok123", false, false},
		{"bearer-with-spaces", "Bearer a b c", "", "a b c", false, false},
		{"lowercase-prefix", "bearer tok123", "", "\x00", true, false},
		{"basic", "Basic tok123", "", "\x00", true, false},
		{"no-space", "Bearertok123", "", "\x00", true, false},
		{"bearer-empty", "Bearer ", "", "", false, true},
		{"query", "", "qtok", "qtok", false, false},
		{"header+query", "Bearer htok", "qtok", "htok", false, false},
	}
	for _, hm := range []string{"POST", "GET", "PUT", "HEAD", "OPTIONS", "DELETE", "PATCH"} {
		for _, f := range forms {
			var verifierSaw []string
			var nextRan int
			var nextCtx context.Context
			h := &auth.Handler{
				Verify: func(ctx context.Context, token string) ([]auth.Permission, error) {
					verifierSaw = append(verifierSaw, token)
					if v == 8 {
						return nil, errors.New("rejected")
					}
					return subset(v), nil
				},
				Next: func(w http.ResponseWriter, rq *http.Request) {
					nextRan++
					nextCtx = rq.Context()
					w.WriteHeader(200)
				},
			}
			url := "http://x/rpc"
			if f.query != "" {
				url += "?token=" + f.query
			}
			req := httptest.NewRequest(hm, url, strings.NewReader("{}"))
			if f.header != "" {
				req.Header.Set("Authorization", f.header)
			}
			rec := httptest.NewRecorder()
			h.ServeHTTP(rec, req)
			r.Obs("handler_cases", 1)
			key := fmt.Sprintf("%s form=%s verif=%d", hm, f.name, v)
			r.AddKey(key)
			status := rec.Code
			switch {
			case f.name == "absent":
				att, _ := false, []auth.Permission(nil)
				if nextCtx != nil {
					att, _ = attachedSet(nextCtx)
				}
				if nextRan != 1 || len(verifierSaw) != 0 || att || status == 401 {
					r.Violate("auth-tokenless", "%s: token-less request must pass through with nothing attached: next=%d verifier=%v attached=%v status=%d", key, nextRan, verifierSaw, att, status)
				}
			case f.malformed:
				if status != 401 || nextRan != 0 {
					r.Violate("auth-malformed", "%s: malformed token must get 401 without next: status=%d next=%d", key, status, nextRan)
				}
			default:
				if f.lenient && status == 401 && nextRan == 0 {
					continue // treated as malformed: acceptable
				}
				if len(verifierSaw) != 1 || verifierSaw[0] != f.expectToken {
					r.Violate("auth-token", "%s: verifier must see exactly %q, saw %q", key, f.expectToken, verifierSaw)
					continue
				}
				if v == 8 {
					if status != 401 || nextRan != 0 {
						r.Violate("auth-rejected", "%s: rejected token must get 401 without next: status=%d next=%d", key, status, nextRan)
					}
					continue
				}
				if nextRan != 1 || status == 401 {
					r.Violate("auth-accepted", "%s: accepted token must reach next exactly once: next=%d status=%d", key, nextRan, status)
					continue
				}
				att, set := attachedSet(nextCtx)
				want := subset(v)
				if len(want) == 3 {
					// full set attached is indistinguishable from "not attached" under defaults=all; check with defaults=nil
					att = true
					set = nil
					for _, pp := range permU {
						if auth.HasPerm(nextCtx, nil, pp) {
							set = append(set, pp)
						}
					}
				}
				if !att || permStr(set) != permStr(want) {
					r.Violate("auth-attach", "%s: next must see exactly %s attached, saw attached=%v %s", key, permStr(want), att, permStr(set))
				}
			}
		}
	}
	r.Sample(map[string]interface{}{"verifier_outcome": v, "forms": len(forms), "http_methods": 7})
}

// runHandlerSeq: one Handler instance sees the same tokens repeatedly (as a long-lived server does);
// every single request must be judged on the verifier's outcome for its token.
func (c19) runHandlerSeq(sc core.Scenario, r *core.R) {
	verifierCalls := map[string]int{}
	var nextRan int
	var nextCtx context.Context
	h := &auth.Handler{
		Verify: func(ctx context.Context, token string) ([]auth.Permission, error) {
			verifierCalls[token]++
			if strings.HasPrefix(token, "bad") {
				return nil, errors.New("rejected")
			}
			var out []auth.Permission
			for _, c := range strings.TrimPrefix(token, "ok") {
				out = append(out, auth.Permission(string(c)))
			}
			return out, nil
		},
		Next: func(w http.ResponseWriter, rq *http.Request) { nextRan++; nextCtx = rq.Context(); w.WriteHeader(200) },
	}
	seqs := [][]string{
		{"bad1", "bad1", "bad1", "okr", "bad1", "okr"},
		{"okrw", "okrw", "bad2", "bad2", "okrw", "", "bad2"},
		{"bad3", "oka", "bad3", "oka", "bad3", "bad3"},
		{"ok", "ok", "bad4", "ok", "bad4", "okarw", "bad4"},
	}
	seq := seqs[sc.I("order")%len(seqs)]
	for i, tok := range seq {
		nextRan, nextCtx = 0, nil
		req := httptest.NewRequest("POST", "http://x/rpc", strings.NewReader("{}"))
		if tok != "" {
			req.Header.Set("Authorization", "Bearer "+tok)
		}
		rec := httptest.NewRecorder()
		h.ServeHTTP(rec, req)
		r.Obs("handler_cases", 1)
		r.AddKey(fmt.Sprintf("seq%d|%d|%s", sc.I("order"), i, tok))
		label := fmt.Sprintf("request #%d of the sequence %v on one Handler (token %q)", i+1, seq, tok)
		switch {
		case tok == "":
			if nextRan != 1 || rec.Code == 401 {
				r.Violate("auth-tokenless", "%s: token-less request must pass through: next=%d status=%d", label, nextRan, rec.Code)
			} else if att, _ := attachedSet(nextCtx); att {
				r.Violate("auth-tokenless", "%s: token-less request got permissions attached", label)
			}
		case strings.HasPrefix(tok, "bad"):
			if rec.Code != 401 || nextRan != 0 {
				r.Violate("auth-rejected", "%s: a token the verifier rejects must get 401 without next, every time: status=%d next=%d", label, rec.Code, nextRan)
			}
		default:
			var want []auth.Permission
			for _, c := range strings.TrimPrefix(tok, "ok") {
				want = append(want, auth.Permission(string(c)))
			}
			if nextRan != 1 || rec.Code == 401 {
				r.Violate("auth-accepted", "%s: accepted token must reach next: next=%d status=%d", label, nextRan, rec.Code)
				continue
			}
			var set []auth.Permission
			for _, pp := range permU {
				if auth.HasPerm(nextCtx, nil, pp) {
					set = append(set, pp)
				}
			}
			if att, _ := attachedSet(nextCtx); (!att && len(want) != 3) || permStr(set) != permStr(want) {
				r.Violate("auth-attach", "%s: next must see exactly %s attached, saw %s", label, permStr(want), permStr(set))
			}
		}
	}
	r.Key(fmt.Sprintf("handler-seq %d", sc.I("order")), true)
	r.Sample(map[string]interface{}{"token_sequence_on_one_handler": seq})
}

type c19ProxyRW struct {
	Er func(ctx context.Context) error `perm:"r"`
	Ew func(ctx context.Context) error `perm:"w"`
}

// runSharedDefaults: one defaults slice is used to build several proxies with different valid sets
// (as an application with several API surfaces does); each proxy must honour exactly those defaults.
func (p c19) runSharedDefaults(sc core.Scenario, r *core.R) {
	shared := subset(sc.I("def"))
	// an order in which a permission unknown to the first proxy precedes known ones
	if len(shared) > 1 {
		shared[0], shared[len(shared)-1] = shared[len(shared)-1], shared[0]
	}
	want := append([]auth.Permission(nil), shared...)
	impl1 := &c19Impl{}
	var narrow c19ProxyRW
	auth.PermissionedProxy([]auth.Permission{"r", "w"}, shared, impl1, &narrow)
	impl2 := &c19Impl{}
	var full c19Proxy
	auth.PermissionedProxy(permU, shared, impl2, &full)
	label := fmt.Sprintf("shared defaults %s, first proxy valid={rw}", permStr(want))
	p.callAll(&full, context.Background(), impl2, want, r, label+" second proxy")
	// the narrow proxy itself
	for _, c := range []struct {
		name string
		req  auth.Permission
		f    func(context.Context) error
	}{{"Er", "r", narrow.Er}, {"Ew", "w", narrow.Ew}} {
		before := atomic.LoadInt64(&impl1.n)
		err := c.f(context.Background())
		ran := atomic.LoadInt64(&impl1.n) - before
		r.Obs("calls", 1)
		if has(want, c.req) != (ran == 1 && err == nil) {
			r.Violate("perm-denied-or-wrong", "%s: narrow proxy %s with defaults %s: ran=%d err=%v", label, c.name, permStr(want), ran, err)
		}
	}
	r.Key("shared-defaults "+permStr(want), true)
	r.Sample(map[string]interface{}{"shared_defaults": permStr(want), "proxies": []string{"valid {r,w}", "valid {r,w,a}"}})
}

// e2e: PermissionedProxy behind auth.Handler behind RPCServer, real clients.
func (p c19) runE2E(sc core.Scenario, r *core.R) {
	def := subset(sc.I("def"))
	tr := sc.Str("transport")
	r.Key(fmt.Sprintf("e2e %s def=%s", tr, permStr(def)), true)
	impl := &c19Impl{}
	var px c19Proxy
	auth.PermissionedProxy(permU, def, impl, &px)
	rpc := jsonrpc.NewServer()
	rpc.Register("P", &c19Served{&px})
	ah := &auth.Handler{
		Verify: func(ctx context.Context, token string) ([]auth.Permission, error) {
			if strings.HasPrefix(token, "bad") {
				return nil, errors.New("bad token")
			}
			var out []auth.Permission
			for _, c := range strings.TrimPrefix(token, "p") {
				out = append(out, auth.Permission(string(c)))
			}
			return out, nil
		},
		Next: rpc.ServeHTTP,
	}
	ts := httptest.NewServer(ah)
	defer ts.Close()
	addr := "ws://" + ts.Listener.Addr().String()
	if tr == "http" {
		addr = "http://" + ts.Listener.Addr().String()
	}
	for m := -1; m < 8; m++ {
		var hdr http.Header
		var effective []auth.Permission
		label := "tokenless"
		if m >= 0 {
			s := subset(m)
			tok := "p"
			for _, pp := range s {
				tok += string(pp)
			}
			hdr = http.Header{"Authorization": []string{"Bearer " + tok}}
			effective = s
			label = "token=" + permStr(s)
		} else {
			effective = def
		}
		var cl c19Proxy
		closer, err := jsonrpc.NewMergeClient(context.Background(), addr, "P", []interface{}{&cl}, hdr)
		if err != nil {
			r.Inconclusive("client: %v", err)
			return
		}
		p.callAll(&cl, context.Background(), impl, effective, r, fmt.Sprintf("e2e %s def=%s %s", tr, permStr(def), label))
		closer()
		// the same three error-only methods sent as notifications: they are judged against the same set
		var nt c19Notify
		closer2, err := jsonrpc.NewMergeClient(context.Background(), addr, "P", []interface{}{&nt}, hdr)
		if err != nil {
			r.Inconclusive("client: %v", err)
			return
		}
		want := int64(0)
		for _, pp := range permU {
			if has(effective, pp) {
				want++
			}
		}
		before := atomic.LoadInt64(&impl.n)
		nt.Er(context.Background())
		nt.Ew(context.Background())
		nt.Ea(context.Background())
		core.Eventually(time.Second, func() bool { return atomic.LoadInt64(&impl.n)-before == want })
		time.Sleep(30 * time.Millisecond)
		if got := atomic.LoadInt64(&impl.n) - before; got != want {
			r.Violate("perm-notification", "e2e %s def=%s %s: notifications for the methods needing r, w and a ran the implementation %d times, the effective set %s allows %d", tr, permStr(def), label, got, permStr(effective), want)
		}
		r.Obs("calls", 3)
		closer2()
	}
	// a rejected token must not get through
	var cl c19Proxy
	closer, err := jsonrpc.NewMergeClient(context.Background(), addr, "P", []interface{}{&cl}, http.Header{"Authorization": []string{"Bearer badtoken"}})
	if err == nil {
		before := atomic.LoadInt64(&impl.n)
		e := cl.Er(context.Background())
		if atomic.LoadInt64(&impl.n) != before || e == nil {
			r.Violate("auth-rejected-e2e", "rejected token reached the implementation (err=%v)", e)
		}
		closer()
	}
	r.Obs("e2e_clients", 9)
	r.Sample(map[string]interface{}{"transport": tr, "defaults": permStr(def), "impl_invocations": atomic.LoadInt64(&impl.n)})
}

type c19Notify struct {
	Er func(ctx context.Context) error `notify:"true"`
	Ew func(ctx context.Context) error `notify:"true"`
	Ea func(ctx context.Context) error `notify:"true"`
}

type c19OtherKey struct{}

// runDerived: permissions attached a second time on a context derived from one that already
// carries a set (an implementation escalating or narrowing for an internal sub-call). The
// derived context must see exactly the new set; the parent, and every other context derived
// from the parent, must keep seeing exactly what was attached to them.
func (p c19) runDerived(sc core.Scenario, r *core.R) {
	def := subset(sc.I("def"))
	impl := &c19Impl{}
	var px c19Proxy
	auth.PermissionedProxy(permU, def, impl, &px)
	for a := 0; a < 8; a++ {
		for b := 0; b < 8; b++ {
			pa, cb := subset(a), subset(b)
			parent := auth.WithPerm(context.Background(), pa)
			sibling := context.WithValue(parent, c19OtherKey{}, 1)
			mid, cancel := context.WithCancel(parent)
			child := auth.WithPerm(mid, cb)
			label := fmt.Sprintf("def=%s parent=%s child=%s", permStr(def), permStr(pa), permStr(cb))
			p.callAll(&px, child, impl, cb, r, label+" [child]")
			p.callAll(&px, parent, impl, pa, r, label+" [parent after the child attached its own set]")
			p.callAll(&px, sibling, impl, pa, r, label+" [sibling of the child]")
			p.callAll(&px, mid, impl, pa, r, label+" [intermediate context]")
			cancel()
			r.AddKey(fmt.Sprintf("derived def=%s parent=%s child=%s", permStr(def), permStr(pa), permStr(cb)))
		}
	}
	r.Key(fmt.Sprintf("derived def=%s", permStr(def)), true)
	r.Sample(map[string]interface{}{"defaults": permStr(def), "scenario": "second WithPerm on a derived context, 8x8 parent/child sets", "impl_invocations": atomic.LoadInt64(&impl.n)})
}

// a universe of seven permissions (real deployments have more than the three of the small scenarios)
type c19BigImpl struct{ n [7]int64 }

func (i *c19BigImpl) M0(ctx context.Context) error { atomic.AddInt64(&i.n[0], 1); return nil }
func (i *c19BigImpl) M1(ctx context.Context) error { atomic.AddInt64(&i.n[1], 1); return nil }
func (i *c19BigImpl) M2(ctx context.Context) error { atomic.AddInt64(&i.n[2], 1); return nil }
func (i *c19BigImpl) M3(ctx context.Context) error { atomic.AddInt64(&i.n[3], 1); return nil }
func (i *c19BigImpl) M4(ctx context.Context) error { atomic.AddInt64(&i.n[4], 1); return nil }
func (i *c19BigImpl) M5(ctx context.Context) error { atomic.AddInt64(&i.n[5], 1); return nil }
func (i *c19BigImpl) M6(ctx context.Context) error { atomic.AddInt64(&i.n[6], 1); return nil }

type c19BigProxy struct {
	M0 func(ctx context.Context) error `perm:"p0"`
	M1 func(ctx context.Context) error `perm:"p1"`
	M2 func(ctx context.Context) error `perm:"p2"`
	M3 func(ctx context.Context) error `perm:"p3"`
	M4 func(ctx context.Context) error `perm:"p4"`
	M5 func(ctx context.Context) error `perm:"p5"`
	M6 func(ctx context.Context) error `perm:"p6"`
}

// runBigSet: every subset of a seven-permission universe attached in every rotation (the position of a
// permission inside the attached slice must not matter), every method called: allowed iff its permission is
// in the attached set; also as defaults with nothing attached.
func (p c19) runBigSet(sc core.Scenario, r *core.R) {
	var u []auth.Permission
	for i := 0; i < 7; i++ {
		u = append(u, auth.Permission(fmt.Sprintf("p%d", i)))
	}
	part := sc.I("part")
	cases := 0
	for mask := part; mask < 128; mask += 4 {
		var set []auth.Permission
		for i := 0; i < 7; i++ {
			if mask&(1<<i) != 0 {
				set = append(set, u[i])
			}
		}
		for rot := 0; rot < len(set) || rot == 0; rot++ {
			att := append(append([]auth.Permission{}, set[rot:]...), set[:rot]...)
			for mode := 0; mode < 2; mode++ {
				impl := &c19BigImpl{}
				var px c19BigProxy
				var ctx context.Context
				if mode == 0 {
					auth.PermissionedProxy(u, nil, impl, &px)
					ctx = auth.WithPerm(context.Background(), att)
				} else {
					auth.PermissionedProxy(u, att, impl, &px)
					ctx = context.Background()
				}
				fns := []func(context.Context) error{px.M0, px.M1, px.M2, px.M3, px.M4, px.M5, px.M6}
				for i, fn := range fns {
					err := fn(ctx)
					ran := atomic.LoadInt64(&impl.n[i])
					want := mask&(1<<i) != 0
					cases++
					label := fmt.Sprintf("%s set %v (7-permission universe), method needing p%d", []string{"attached", "default"}[mode], att, i)
					if want && (err != nil || ran != 1) {
						r.Violate("perm-refused", "%s: the caller holds the permission but the call was refused (err %v, implementation ran %d times)", label, err, ran)
					}
					if !want && (err == nil || ran != 0) {
						r.Violate("perm-bypass", "%s: the caller lacks the permission but err=%v and the implementation ran %d times", label, err, ran)
					}
				}
			}
		}
		r.AddKey(fmt.Sprintf("bigset mask=%d", mask))
	}
	r.Obs("calls", int64(cases))
	r.Key(fmt.Sprintf("bigset part=%d", part), true)
	r.Sample(map[string]interface{}{"scenario": "all subsets x rotations of a seven-permission universe, attached and as defaults", "cases": cases})
}
