package props

import (
	"bytes"
	"context"
	"fmt"
	"regexp"
	"runtime/pprof"
	"strings"
	"sync/atomic"
	"time"

	jsonrpc "github.com/filecoin-project/go-jsonrpc"

	"vharness/core"
	"vharness/svc"
	"vharness/wsproxy"
)

// C15 – when a connection ends the server cancels its handlers and lets go of it.

type c15 struct{}

func init() { core.Register(c15{}) }

func (c15) ID() string    { return "C15" }
func (c15) Level() string { return "fault_enumeration" }
func (c15) Race() bool    { return true }
func (c15) Rule() string {
	return "end causes {client closer (close frame), FIN, RST, server-side context cancel} x work in progress {held unary, held notification, streaming handler, handler blocked in a reverse call, all of them, none} x handler reaction after cancellation {returns at once, after 50 ms, with a 10 B result, with a 1 MiB result} x inbound traffic {idle, client flooding notifications while the end happens}, with seeded hook delays at ws.exit.*, h.lazy.acquire (windows W7, W9). Distinct = (cause, work, reaction, traffic); non-trivial = work was in progress when the connection ended. Oracles: (1) every handler context captured for that connection is done within the grace; (2) once every handler of that connection returned, the goroutine profile (debug=1, pprof labels the library attaches itself: jrpc-mode=wsserver + jrpc-uuid) is polled: a labelled goroutine of a connection created by this scenario that is still there after the grace is a leak, its stack is the witness."
}
func (c15) Assumptions() []string {
	return []string{"the library keeps attaching the pprof labels jrpc-mode/jrpc-uuid to server connection goroutines (handler goroutines inherit them); if the labels vanish the leak oracle reports inconclusive, not held", "8 s grace"}
}

var c15Causes = []string{"closer", "FIN", "RST", "srvcancel", "midFIN", "midframe-srvcancel"}
var c15Work = []string{"unary", "notif", "stream", "reverse", "all", "none", "stream-noclose"}

func (c15) Plan(tier string, seed int64) []core.Scenario {
	var out []core.Scenario
	reps := 1
	if tier == "thorough" {
		reps = 5
	}
	for rep := 0; rep < reps; rep++ {
		for ci, cause := range c15Causes {
			for wi, work := range c15Work {
				for react := 0; react < 4; react++ {
					for flood := 0; flood < 2; flood++ {
						if tier != "thorough" && (ci+wi+react+flood)%2 == 1 && !(work == "unary" && cause == "closer") {
							continue
						}
						out = append(out, core.Sc("end").WithS("cause", cause).WithS("work", work).WithN("react", react).WithN("flood", flood).WithN("rep", rep))
					}
				}
			}
		}
	}
	// the response writer is stalled on a peer that stopped reading when the connection is ended
	ns := 1
	if tier == "thorough" {
		ns = 4
	}
	// control-frame traffic (pings every 200 us from the peer) while the connection ends
	for i, cause := range []string{"srvcancel", "srvcancel", "closer", "FIN", "srvcancel", "RST"} {
		out = append(out, core.Sc("end").WithS("cause", cause).WithS("work", []string{"unary", "all", "none"}[i%3]).WithN("react", i%4).WithN("flood", 2).WithN("rep", i))
	}
	for rep := 0; rep < ns; rep++ {
		for _, cause := range []string{"srvcancel", "closeframe", "fin"} {
			out = append(out, core.Sc("stalled").WithS("cause", cause).WithN("rep", rep))
		}
	}
	// handlers that push reverse notifications (context-less proxy method) while their client goes away:
	// they must be released, not held inside the library (shared with C16)
	for i := 0; i < 3*ns; i++ {
		out = append(out, core.Sc("revnotify").WithN("fk", i%3).WithN("handlers", 3+i%4))
	}
	for i := range out {
		out[i].Seed = seed*67867967 + int64(i)
		out[i] = out[i].WithN("noise", i%3)
	}
	return out
}

var lblUUID = regexp.MustCompile(`"jrpc-uuid":"([0-9a-f-]+)"`)

// serverConnGoroutines returns uuid -> stacks of goroutines labelled jrpc-mode=wsserver.
func serverConnGoroutines() map[string][]string {
	var buf bytes.Buffer
	pprof.Lookup("goroutine").WriteTo(&buf, 1)
	out := map[string][]string{}
	for _, blk := range strings.Split(buf.String(), "\n\n") {
		if !strings.Contains(blk, `"jrpc-mode":"wsserver"`) {
			continue
		}
		m := lblUUID.FindStringSubmatch(blk)
		if m == nil {
			continue
		}
		out[m[1]] = append(out[m[1]], blk)
	}
	return out
}

func (c15) Run(sc core.Scenario) core.Result {
	r := core.NewR(sc)
	c15run(sc, r)
	return r.Result()
}

// c15Stalled: a large response is being written to a peer that has stopped reading (the writer holds the
// write lock inside write(2)); then the connection is ended. Handler contexts must be cancelled and, once
// the handlers returned, nothing may be retained - while the peer is still not reading.
func c15Stalled(sc core.Scenario, r *core.R) {
	cause := sc.Str("cause")
	baseline := serverConnGoroutines()
	env := NewEnv(EnvOpt{ServerOpts: []jsonrpc.ServerOption{jsonrpc.WithServerPingInterval(50 * time.Millisecond)}})
	defer env.Shutdown()
	pol := noisePolicy(sc)
	defer pol.Install()()
	cl, err := env.NewClient(ClientOpt{Opts: []jsonrpc.Option{jsonrpc.WithNoReconnect()}})
	if err != nil {
		r.Inconclusive("client: %v", err)
		return
	}
	bg := context.Background()
	h := Tok("u")
	env.Svc.Hold(h)
	go cl.React(bg, h, 0, 10)
	if !env.Svc.WaitEntered(h, core.Grace) {
		r.Inconclusive("held handler not entered")
		return
	}
	stalled := make(chan struct{})
	// the request for the large response is forwarded, then the peer stops reading (and forwarding) altogether
	env.Px.Arm(&wsproxy.Fault{Kind: wsproxy.STALL, Dir: wsproxy.C2S, Pos: 4, Match: func(fi wsproxy.FrameInfo) bool { return fi.Msg != nil && fi.Msg.Method == "S.Big" }, OnFire: func() { close(stalled) }})
	big := Tok("b")
	go cl.Big(bg, big, 32<<20)
	if !core.WaitCh(stalled, core.Grace) || !core.WaitCh(env.Svc.ExitedCh(big), 2*core.Grace) {
		r.Inconclusive("could not bring the response writer into a stalled write")
		return
	}
	time.Sleep(300 * time.Millisecond) // the 32 MiB response now sits in write(2) behind full socket buffers
	inWrite := core.Eventually(3*core.Grace, func() bool {
		for _, sts := range serverConnGoroutines() {
			for _, st := range sts {
				if strings.Contains(st, "waitWrite") {
					return true
				}
			}
		}
		return false
	})
	time.Sleep(150 * time.Millisecond) // let a ping tick queue up behind the writer
	r.Obs("writer_stalled_in_write", b2i(inWrite))
	if !inWrite {
		dump := ""
		for _, sts := range serverConnGoroutines() {
			for _, st := range sts {
				dump += core.Trunc(st, 700) + " || "
			}
		}
		r.Inconclusive("the response writer is not blocked in write(2): socket buffers swallowed the response; labelled goroutines: %s", core.Trunc(dump, 3000))
		return
	}
	core.Log.Note("h.end", cause+" while the response writer is stalled")
	switch cause {
	case "srvcancel":
		env.CancelServerContexts()
	default:
		if n := env.Px.StalledInject(cause); n == 0 {
			r.Inconclusive("no stalled connection at the proxy")
			return
		}
	}
	if !core.Eventually(core.Grace, func() bool { return env.Svc.Get(h).Ctx.Err() != nil }) {
		r.Violate("handler-ctx-live:stalled-"+cause, "context of a handler still live %v after the connection was ended (%s) while a response write was stalled on a peer that stopped reading; events: %s", core.Grace, cause, core.Log.Tail(30))
	}
	env.Svc.ReleaseAll()
	core.Eventually(core.Grace, func() bool { return len(env.Svc.Running()) == 0 })
	var leaked map[string][]string
	clean := core.Eventually(core.Grace, func() bool {
		leaked = map[string][]string{}
		for u, st := range serverConnGoroutines() {
			if _, old := baseline[u]; !old {
				leaked[u] = st
			}
		}
		return len(leaked) == 0
	})
	if !clean {
		var sb strings.Builder
		site := ""
		for u, sts := range leaked {
			for _, st := range sts {
				if sb.Len() < 2500 {
					fmt.Fprintf(&sb, "[conn %s] %s\n", u[:8], st)
				}
				if site == "" {
					site = leakSite(st)
				}
			}
		}
		r.Violate("goroutine-leak:stalled:"+site, "library goroutines still retained %v after the connection was ended (%s) while a response write was stalled and all handlers returned:\n%s", core.Grace, cause, sb.String())
	}
	r.Key("stalled "+cause, true)
	r.Obs("connections_ended", 1)
	r.Obs("handlers_in_progress", 2)
	r.Sig(core.Log.Signature())
	r.Sample(map[string]interface{}{"cause": cause, "work": "32 MiB response stalled in write + held unary call", "leak_free": clean})
}

func c15run(sc core.Scenario, r *core.R) {
	if sc.Kind == "stalled" {
		c15Stalled(sc, r)
		return
	}
	if sc.Kind == "revnotify" {
		c16{}.notifyGone(sc, r)
		return
	}
	cause, work := sc.Str("cause"), sc.Str("work")
	react, flood := sc.I("react"), sc.I("flood") == 1
	baseline := serverConnGoroutines()
	env := NewEnv(EnvOpt{Rev: true, ServerOpts: []jsonrpc.ServerOption{jsonrpc.WithServerPingInterval(50 * time.Millisecond)}})
	defer env.Shutdown()
	env.Px.DrainFor = core.Grace + 2*time.Second // after a FIN the proxy keeps watching for the server's own FIN
	pol := noisePolicy(sc)
	if sc.I("noise") == 2 {
		pol.Skew = map[string]time.Duration{"ws.exit.begin": 2 * time.Millisecond, "h.lazy.acquire": time.Millisecond}
	}
	defer pol.Install()()
	copts := []jsonrpc.Option{jsonrpc.WithNoReconnect()}
	if sc.I("flood") == 2 {
		// keepalive traffic instead of requests: the peer pings every 200 us, so control frames (pings, and the
		// pongs answering the server's own 50 ms pings) keep arriving while the connection ends
		copts = append(copts, jsonrpc.WithPingInterval(200*time.Microsecond), jsonrpc.WithTimeout(3*time.Second))
	}
	cl, err := env.NewClient(ClientOpt{RevIdent: "A", Opts: copts})
	if err != nil {
		r.Inconclusive("client: %v", err)
		return
	}
	bg := context.Background()
	w := Tok("w")
	if v, err := cl.Echo(bg, w, ""); err != nil || v != svc.Reply(w) {
		r.Inconclusive("warm-up: %v", err)
		return
	}
	labelled := false
	for u := range serverConnGoroutines() {
		if _, old := baseline[u]; !old {
			labelled = true
		}
	}
	delay, size := 0, 10
	switch react {
	case 1:
		delay = 50
	case 2:
		size = 10
	case 3:
		size = 1 << 20
	}
	var toks []string
	want := func(k string) bool { return work == k || work == "all" }
	if want("unary") {
		t := Tok("u")
		env.Svc.Hold(t)
		go cl.React(bg, t, delay, size)
		toks = append(toks, t)
	}
	if want("notif") {
		t := Tok("n")
		env.Svc.Hold(t)
		go cl.ReactN(bg, t, delay)
		toks = append(toks, t)
	}
	if want("stream") {
		t := Tok("s")
		go func() {
			ch, err := cl.Sub(bg, t, 0, svc.SInfinite)
			if err == nil && ch != nil {
				for range ch {
				}
			}
		}()
		toks = append(toks, t)
	}
	if work == "stream-noclose" || (work == "all" && react%2 == 1) {
		// a producer that returns when its context is cancelled without closing its channel
		t := Tok("s")
		go func() {
			ch, err := cl.Sub(bg, t, 3, svc.SNeverClose)
			if err == nil && ch != nil {
				for range ch {
				}
			}
		}()
		toks = append(toks, t)
	}
	if want("reverse") {
		t := Tok("r")
		cl.RevSvc.Hold(t + ".r0")
		// the reverse call runs on the handler's context, or - retry-tagged - on a detached one: then only the
		// library's own failure path can end it
		go cl.Rev(bg, t, 1, []int{4, 8}[react%2])
		toks = append(toks, t)
	}
	for _, t := range toks {
		if !env.Svc.WaitEntered(t, core.Grace) {
			r.Inconclusive("handler for %s never entered", t)
			return
		}
	}
	if want("reverse") {
		// make sure the reverse call reached the client-side handler
		cl.RevSvc.WaitEntered(toks[len(toks)-1]+".r0", core.Grace)
	}
	var stopFlood int32
	floodDone := make(chan struct{})
	if flood {
		go func() {
			defer close(floodDone)
			for atomic.LoadInt32(&stopFlood) == 0 {
				if err := cl.Note(bg, Tok("f")); err != nil {
					time.Sleep(200 * time.Microsecond)
				}
			}
		}()
		time.Sleep(2 * time.Millisecond)
	} else {
		close(floodDone)
	}
	// ---- end the connection
	core.Log.Note("h.end", cause)
	switch cause {
	case "closer":
		done := make(chan struct{})
		go func() { cl.Close(); close(done) }()
		core.WaitCh(done, core.Grace)
	case "FIN":
		env.Px.KillAll(wsproxy.FIN)
	case "RST":
		env.Px.KillAll(wsproxy.RST)
	case "srvcancel":
		env.CancelServerContexts()
	case "midframe-srvcancel":
		// half of a request frame has arrived (the rest never will) when the server side cancels the connection
		fired := make(chan struct{})
		env.Px.Arm(&wsproxy.Fault{Kind: wsproxy.BLACKHOLE, Dir: wsproxy.C2S, Pos: 2, Match: func(fi wsproxy.FrameInfo) bool { return fi.Opcode == 1 && fi.Len > 2000 }, OnFire: func() { close(fired) }})
		mt := Tok("m")
		go cl.Echo(bg, mt, strings.Repeat("p", 4096))
		if !core.WaitCh(fired, core.Grace) {
			r.Inconclusive("the mid-frame fault never fired")
			return
		}
		time.Sleep(20 * time.Millisecond)
		env.CancelServerContexts()
	case "midFIN":
		// the client's stream ends in the middle of a frame: header and half of the payload, then FIN
		fired := make(chan struct{})
		env.Px.Arm(&wsproxy.Fault{Kind: wsproxy.FIN, Dir: wsproxy.C2S, Pos: 2, Match: func(fi wsproxy.FrameInfo) bool { return fi.Opcode == 1 && fi.Len > 2000 }, OnFire: func() { close(fired) }})
		mt := Tok("m")
		go cl.Echo(bg, mt, strings.Repeat("p", 4096))
		if !core.WaitCh(fired, core.Grace) {
			r.Inconclusive("the mid-frame fault never fired")
			return
		}
	}
	// ---- oracle 1: every captured handler context is done
	for _, t := range toks {
		t := t
		if !core.Eventually(core.Grace, func() bool { return env.Svc.Get(t).Ctx.Err() != nil }) {
			r.Violate("handler-ctx-live:"+cause, "context of handler %s (%s) still live %v after the connection ended by %s; events: %s", t, env.Svc.Get(t).Method, core.Grace, cause, core.Log.Tail(30))
		}
	}
	atomic.StoreInt32(&stopFlood, 1)
	env.Svc.ReleaseAll()
	cl.RevSvc.ReleaseAll()
	go cl.Close()
	core.WaitCh(floodDone, core.Grace)
	// ---- oracle 2: no labelled goroutine of this scenario's connections survives
	handlersBack := core.Eventually(core.Grace, func() bool { return len(env.Svc.Running()) == 0 })
	if !handlersBack {
		r.Violate("handler-never-returned", "handlers %v did not return after cancellation/release", env.Svc.Running())
	}
	var leaked map[string][]string
	clean := core.Eventually(core.Grace, func() bool {
		leaked = map[string][]string{}
		for u, st := range serverConnGoroutines() {
			if _, old := baseline[u]; !old {
				leaked[u] = st
			}
		}
		return len(leaked) == 0
	})
	if !clean {
		var sb strings.Builder
		n := 0
		site := ""
		for u, sts := range leaked {
			for _, st := range sts {
				n++
				if sb.Len() < 2500 {
					fmt.Fprintf(&sb, "[conn %s] %s\n", u[:8], st)
				}
				if site == "" {
					site = leakSite(st)
				}
			}
		}
		r.Violate("goroutine-leak:"+site, "%d library goroutine stack group(s) still retained for the dead connection %v after all its handlers returned (cause %s, work %s, reaction %d, flood %v):\n%s", n, core.Grace, cause, work, react, flood, sb.String())
	}
	if cause == "FIN" || cause == "midFIN" {
		// ---- oracle 3: the server gives its socket back (the proxy, which half-closed, sees the server's FIN)
		if !core.Eventually(core.Grace, func() bool { return env.Px.ServerEOFs() >= 1 }) {
			r.Violate("socket-not-released:"+cause, "the server never closed its side of the connection (%v after the peer's stream ended by %s and all handlers returned): the socket is retained; events: %s", core.Grace, cause, core.Log.Tail(20))
		}
		r.Obs("server_sockets_released", int64(env.Px.ServerEOFs()))
	}
	if !labelled {
		r.Inconclusive("no goroutine carried the jrpc-mode=wsserver label while the connection was alive: the leak oracle is blind")
	}
	r.Key(fmt.Sprintf("%s %s react=%d flood=%v pings=%v", cause, work, react, flood, sc.I("flood") == 2), len(toks) > 0 || sc.I("flood") == 2)
	r.Obs("handlers_in_progress", int64(len(toks)))
	r.Obs("connections_ended", 1)
	r.Sig(core.Log.Signature())
	r.Sample(map[string]interface{}{"cause": cause, "work": work, "reaction": []string{"at once", "after 50 ms", "10 B result", "1 MiB result"}[react], "flood": flood, "handlers": len(toks), "leak_free": clean})
}

var siteRe = regexp.MustCompile(`go-jsonrpc\.([A-Za-z0-9_.()*]+)\+`)

// leakSite extracts the innermost library function of a leaked stack, as a stable fingerprint.
func leakSite(stack string) string {
	m := siteRe.FindStringSubmatch(stack)
	if m == nil {
		return "unknown"
	}
	return m[1]
}
