package props

import (
	"strings"
	"testing"
	"time"

	"github.com/anishathalye/porcupine"

	"vharness/core"
)

// Oracle self-tests: every offline checker is fed synthetic observations that
// violate its property (it must fire) and clean ones (it must stay silent).

func fresh() *core.R { return core.NewR(core.Scenario{}) }

func fingers(r *core.R) string {
	var fs []string
	for _, v := range r.Result().Viol {
		fs = append(fs, v.Finger)
	}
	return strings.Join(fs, ",")
}

func TestCheckSeqOracle(t *testing.T) {
	ok := []string{"Ta:0", "Ta:1", "Ta:2"}
	r := fresh()
	checkSeq(r, "t", "Ta", ok, 3, true)
	if r.Violated() {
		t.Fatalf("clean sequence flagged: %s", fingers(r))
	}
	cases := map[string]struct {
		keys  []string
		n     int
		exact bool
		want  string
	}{
		"reordered": {[]string{"Ta:0", "Ta:2", "Ta:1"}, 3, true, "stream-reordered-or-lost"},
		"dup":       {[]string{"Ta:0", "Ta:0", "Ta:1"}, 3, true, "stream-reordered-or-lost"},
		"lost":      {[]string{"Ta:0", "Ta:2"}, 3, true, "stream-reordered-or-lost"},
		"foreign":   {[]string{"Ta:0", "Tb:1"}, 3, false, "stream-foreign-value"},
		"truncated": {[]string{"Ta:0", "Ta:1"}, 3, true, "stream-truncated"},
		"invented":  {[]string{"Ta:0", "Ta:1", "Ta:2"}, 2, false, "stream-invented"},
	}
	for name, c := range cases {
		r := fresh()
		checkSeq(r, "t", "Ta", c.keys, c.n, c.exact)
		if !strings.Contains(fingers(r), c.want) {
			t.Errorf("%s: expected %s, got %q", name, c.want, fingers(r))
		}
	}
	// a prefix is fine when exact=false
	r = fresh()
	checkSeq(r, "t", "Ta", []string{"Ta:0"}, 3, false)
	if r.Violated() {
		t.Errorf("prefix flagged: %s", fingers(r))
	}
}

func TestJudgeBodyOracle(t *testing.T) {
	rng := core.Scenario{Seed: 1}.Rand()
	mk := func(kind, id, idKind string) elem {
		e := mkElem(kind, rng)
		if id != "" {
			e.Raw = strings.Replace(e.Raw, `"id":`+e.IDRaw, `"id":`+id, 1)
			e.IDRaw, e.IDKind = id, idKind
		}
		return e
	}
	ok1 := mk("call-ok", "7", "number")
	ok1.Result = ""
	notif := mk("notif", "", "")
	type tc struct {
		name  string
		batch bool
		elems []elem
		reply string
		ran   int64
		want  string // "" = must be silent
	}
	res7 := `{"jsonrpc":"2.0","id":7,"result":42}`
	cases := []tc{
		{"clean single", false, []elem{ok1}, res7, 1, ""},
		{"clean batch with notification", true, []elem{notif, ok1}, "[" + res7 + "]", 2, ""},
		{"all-notification batch empty", true, []elem{notif}, "", 1, ""},
		{"leading comma", true, []elem{notif, ok1}, "[," + res7 + "]", 2, "reply-not-json"},
		{"unterminated", true, []elem{ok1}, "[" + res7, 1, "reply-not-json"},
		{"two values", false, []elem{ok1}, res7 + res7, 1, "reply-not-json"},
		{"both result and error", false, []elem{ok1}, `{"jsonrpc":"2.0","id":7,"result":1,"error":{"code":1,"message":"x"}}`, 1, "malformed-response-object"},
		{"neither", false, []elem{ok1}, `{"jsonrpc":"2.0","id":7}`, 1, "malformed-response-object"},
		{"no id", false, []elem{ok1}, `{"jsonrpc":"2.0","result":1}`, 1, "malformed-response-object"},
		{"wrong version", false, []elem{ok1}, `{"jsonrpc":"1.0","id":7,"result":1}`, 1, "malformed-response-object"},
		{"id as string", false, []elem{ok1}, `{"jsonrpc":"2.0","id":"7","result":42}`, 1, "id-not-echoed"},
		{"id null", false, []elem{ok1}, `{"jsonrpc":"2.0","id":null,"result":42}`, 1, "id-not-echoed"},
		{"notification answered", false, []elem{notif}, res7, 1, "notification-answered"},
		{"handler ran twice", false, []elem{ok1}, res7, 2, "handler-run-count"},
		{"missing response in batch", true, []elem{ok1, mk("call-ok", "8", "number")}, "[" + res7 + "]", 2, "batch-missing-response"},
		{"batch answered with object", true, []elem{ok1}, res7, 1, "batch-reply-shape"},
	}
	for _, c := range cases {
		r := fresh()
		body := "x"
		judgeBody(body, c.batch, c.elems, c.reply, c.ran, r)
		got := fingers(r)
		if c.want == "" && got != "" {
			t.Errorf("%s: clean reply flagged: %s", c.name, got)
		}
		if c.want != "" && !strings.Contains(got, c.want) {
			t.Errorf("%s: expected %s, got %q", c.name, c.want, got)
		}
	}
	arity := mk("arity", "9", "number")
	r := fresh()
	judgeBody("x", false, []elem{arity}, `{"jsonrpc":"2.0","id":9,"error":{"code":-32601,"message":"x"}}`, 0, r)
	if !strings.Contains(fingers(r), "wrong-code:-32602") {
		t.Errorf("wrong arity code not flagged: %q", fingers(r))
	}
}

func TestIDMatches(t *testing.T) {
	yes := [][3]string{{"1e2", "number", "100"}, {"1.5", "number", "1.5"}, {`"a"`, "string", `"a"`}, {`"é"`, "string", `"é"`}, {"", "absent", "null"}, {"true", "invalid", "null"}}
	no := [][3]string{{"1", "number", `"1"`}, {"1", "number", "null"}, {`"1"`, "string", "1"}, {`""`, "string", "null"}, {"1", "number", "2"}, {"0", "number", "null"}, {"true", "invalid", "true"}}
	for _, c := range yes {
		if !idMatches(c[0], c[1], c[2]) {
			t.Errorf("expected %v to match", c)
		}
	}
	for _, c := range no {
		if idMatches(c[0], c[1], c[2]) {
			t.Errorf("expected %v not to match", c)
		}
	}
}

func TestKVModelDetectsMisrouting(t *testing.T) {
	// a read that returns a value that was never current for that key
	bad := []porcupine.Operation{
		{ClientId: 0, Input: kvIn{Op: "put", Key: "k", Val: "a"}, Call: 0, Output: kvOut{S: "ok"}, Return: 10},
		{ClientId: 1, Input: kvIn{Op: "get", Key: "k"}, Call: 20, Output: kvOut{S: "zzz"}, Return: 30},
	}
	if res, _ := porcupine.CheckOperationsVerbose(kvModel, bad, time.Second); res != porcupine.Illegal {
		t.Fatalf("misrouted read accepted: %v", res)
	}
	good := []porcupine.Operation{
		{ClientId: 0, Input: kvIn{Op: "put", Key: "k", Val: "a"}, Call: 0, Output: kvOut{S: "ok"}, Return: 10},
		{ClientId: 1, Input: kvIn{Op: "get", Key: "k"}, Call: 5, Output: kvOut{S: ""}, Return: 30},
		{ClientId: 2, Input: kvIn{Op: "cas", Key: "k", Old: "a", Val: "b"}, Call: 40, Output: kvOut{B: true}, Return: 50},
		{ClientId: 2, Input: kvIn{Op: "append", Key: "k", Val: "c"}, Call: 60, Output: kvOut{S: "bc"}, Return: 70},
	}
	if res, _ := porcupine.CheckOperationsVerbose(kvModel, good, time.Second); res != porcupine.Ok {
		t.Fatalf("legal history rejected: %v", res)
	}
	// a duplicated response: the same append acknowledged with the state of another append
	dup := []porcupine.Operation{
		{ClientId: 0, Input: kvIn{Op: "append", Key: "k", Val: "a"}, Call: 0, Output: kvOut{S: "a"}, Return: 10},
		{ClientId: 1, Input: kvIn{Op: "append", Key: "k", Val: "b"}, Call: 20, Output: kvOut{S: "a"}, Return: 30},
	}
	if res, _ := porcupine.CheckOperationsVerbose(kvModel, dup, time.Second); res != porcupine.Illegal {
		t.Fatalf("duplicated response accepted: %v", res)
	}
}

func TestRoundTripReference(t *testing.T) {
	// the C01 reference model distinguishes nil from empty and keeps 64-bit integers exact
	type T struct {
		A []int
		B map[string]int
		C uint64
		D float64
	}
	if semEq(`{"a":1}`, `{"a":1.0}`) {
		t.Errorf("semEq must compare number spellings literally")
	}
	if !semEq(`{"a":1, "b":[ ]}`, `{"b":[],"a":1}`) {
		t.Errorf("semEq must ignore whitespace and member order")
	}
	if mentions, _ := mentionsPanic(nil, 0, "x"); mentions {
		t.Errorf("nil error cannot mention a panic")
	}
}

func TestCrashSite(t *testing.T) {
	se := "panic: runtime error: index out of range [0] with length 0\n\ngoroutine 52 [running]:\ngithub.com/filecoin-project/go-jsonrpc.(*wsConn).cancelCtx(0xc0001, {{0xc0, 0x3}})\n\t/repo/websocket.go:351 +0x1\n"
	got := CrashSite(se)
	if !strings.Contains(got, "index_out_of_range") || !strings.HasSuffix(got, "@go-jsonrpc.(*wsConn).cancelCtx") {
		t.Errorf("crash site fingerprint: %q", got)
	}
}
