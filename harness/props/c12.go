package props

import (
	"context"
	"encoding/json"
	"fmt"
	"net/http/httptest"
	"reflect"
	"sort"
	"strings"
	"sync"

	jsonrpc "github.com/filecoin-project/go-jsonrpc"

	"vharness/core"
)

// C12 – dispatch by formatted name, then alias; bad arity or types never run a handler.

type c12 struct{}

func init() { core.Register(c12{}) }

func (c12) ID() string             { return "C12" }
func (c12) Level() string          { return "exploration" }
func (c12) Race() bool             { return false }
func (c12) Exhaustive(string) bool { return true }
func (c12) Rule() string {
	return "exhaustive over a small universe: namespaces {A, B, empty} x two handler types with overlapping method names x 5 formatters (4 built-in + custom separator) x alias tables {none, to existing, to missing, shadowing a direct name, alias to alias} x every candidate method string (all formatted names under all formatters, alias names, case variants, 'A.', '.M', 'M', ''); each configuration is a real server and each candidate a real request; clients with the same formatter and with rpc_method tags call every method; then for every non-raw method of the C01 catalogue all arities 0..k+1 and a JSON-type mismatch matrix per parameter (12 probes), where decodability of the probe is decided by encoding/json itself on that parameter alone. A case is the tuple (configuration, input); all are non-trivial. Oracle: reference table fmt(ns,m) -> {(instance, method)}; acceptable handlers for s are those whose formatted name equals s, else those of alias[s], else method-not-found; per-(instance, method) counters show which handler ran; rejected requests leave all counters unchanged."
}
func (c12) Assumptions() []string {
	return []string{"when two registrations collide under a namespace-less formatter either instance is accepted (the statement does not order them)", "an alias whose target is itself only an alias may resolve to not-found or to the final target"}
}

type hit struct {
	mu sync.Mutex
	m  map[string]int
}

func (h *hit) inc(k string) {
	h.mu.Lock()
	h.m[k]++
	h.mu.Unlock()
}
func (h *hit) snap() map[string]int {
	h.mu.Lock()
	defer h.mu.Unlock()
	o := map[string]int{}
	for k, v := range h.m {
		o[k] = v
	}
	return o
}

type H1 struct {
	inst string
	h    *hit
}

func (x *H1) M() (string, error)    { x.h.inc(x.inst + "/M"); return x.inst + "/M", nil }
func (x *H1) N() (string, error)    { x.h.inc(x.inst + "/N"); return x.inst + "/N", nil }
func (x *H1) Same() (string, error) { x.h.inc(x.inst + "/Same"); return x.inst + "/Same", nil }

type H2 struct {
	inst string
	h    *hit
}

func (x *H2) M() (string, error)      { x.h.inc(x.inst + "/M"); return x.inst + "/M", nil }
func (x *H2) Same() (string, error)   { x.h.inc(x.inst + "/Same"); return x.inst + "/Same", nil }
func (x *H2) Other() (string, error)  { x.h.inc(x.inst + "/Other"); return x.inst + "/Other", nil }
func (x *H2) LowerX() (string, error) { x.h.inc(x.inst + "/LowerX"); return x.inst + "/LowerX", nil }

// H3 is registered in the empty namespace with a method whose name, concatenated with that namespace,
// reads like namespace A + method M.
type H3 struct {
	inst string
	h    *hit
}

func (x *H3) AM() (string, error)     { x.h.inc(x.inst + "/AM"); return x.inst + "/AM", nil }
func (x *H3) BOther() (string, error) { x.h.inc(x.inst + "/BOther"); return x.inst + "/BOther", nil }

type reg struct {
	ns, inst string
	methods  []string
}

var c12Regs = []reg{{"A", "a", []string{"M", "N", "Same"}}, {"B", "b", []string{"M", "Same", "Other", "LowerX"}}, {"", "e", []string{"M", "N", "Same"}}, {"", "e3", []string{"AM", "BOther"}}}

var c12AliasTables = []map[string]string{
	{},
	{"Al.One": "A.M", "short": "B.Other"},
	{"Al.Missing": "A.Nope", "x": ""},
	{"A.M": "B.Other", "B.Same": "A.N", "M": "B.Other"}, // alias names equal to (possibly) direct names
	{"Al.Two": "Al.One", "Al.One": "A.M"},
	// names are arbitrary strings: non-ASCII, control characters, longer than any metrics tag would allow
	{"A→Größe": "A.M", strings.Repeat("L", 300) + ".X": "B.Other", "Tab\tName": "A.N", "服务.方法": "B.Same"},
}

func (c12) Plan(tier string, seed int64) []core.Scenario {
	var out []core.Scenario
	for f := 0; f < len(c01Formatters); f++ {
		for a := 0; a < len(c12AliasTables); a++ {
			out = append(out, core.Sc("names").WithN("fmt", f).WithN("alias", a))
			if a < 2 {
				out = append(out, core.Sc("dynamic").WithN("fmt", f).WithN("alias", a))
			}
		}
		for _, tr := range []string{"http", "ws", "custom"} {
			out = append(out, core.Sc("clients").WithN("fmt", f).WithS("transport", tr))
		}
	}
	for i := 0; i < 3; i++ {
		out = append(out, core.Sc("revalias").WithN("m", 2+i).WithN("rot", i))
	}
	for f := 1; f < len(c01Formatters); f++ {
		for order := 0; order < 2; order++ {
			out = append(out, core.Sc("revformat").WithN("fmt", f).WithN("order", order))
		}
	}
	// arity over ws when the params member is absent altogether (shared with C09)
	out = append(out, core.Scenario{Kind: "ws-noparams", N: map[string]int{"conns": 2}, S: map[string]string{}})
	ct, _ := catClientType()
	per := 6
	for i := 0; i < ct.NumField(); i += per {
		out = append(out, core.Sc("params").WithN("from", i).WithN("to", i+per))
	}
	for i := range out {
		out[i].Seed = seed*275604541 + int64(i)
	}
	return out
}

func (p c12) Run(sc core.Scenario) core.Result {
	r := core.NewR(sc)
	switch sc.Kind {
	case "names":
		p.names(sc, r)
	case "clients":
		p.clients(sc, r)
	case "params":
		p.params(sc, r)
	case "dynamic":
		p.dynamic(sc, r)
	case "revalias": // client-side (reverse) handlers resolve aliases through their own table only
		c16{}.aliasIsolation(sc, r)
	case "ws-noparams":
		c09{}.wsNoParams(sc, r)
	case "revformat": // reverse direction under a formatter shared by client and server
		c16{}.revFormat(sc, r)
	}
	return r.Result()
}

func c12Server(fm jsonrpc.MethodNameFormatter, ref func(ns, m string) string, aliases map[string]string) (*jsonrpc.RPCServer, *hit, map[string][]string) {
	h := &hit{m: map[string]int{}}
	rpc := jsonrpc.NewServer(jsonrpc.WithServerMethodNameFormatter(fm))
	rpc.Register("A", &H1{"a", h})
	rpc.Register("B", &H2{"b", h})
	rpc.Register("", &H1{"e", h})
	rpc.Register("", &H3{"e3", h})
	for k, v := range aliases {
		rpc.AliasMethod(k, v)
	}
	// reference table: formatted name -> acceptable "inst/method"
	table := map[string][]string{}
	for _, rg := range c12Regs {
		for _, m := range rg.methods {
			n := ref(rg.ns, m)
			table[n] = append(table[n], rg.inst+"/"+m)
		}
	}
	return rpc, h, table
}

// rawCall sends one request straight into the server's HTTP handler; a request that is not answered within
// the grace period is reported with code -999.
func rawCall(rpc *jsonrpc.RPCServer, method string, params string) (code int, result string, raw string) {
	mb, _ := json.Marshal(method)
	body := fmt.Sprintf(`{"jsonrpc":"2.0","id":1,"method":%s,"params":%s}`, mb, params)
	rec := httptest.NewRecorder()
	served := make(chan struct{})
	go func() {
		rpc.ServeHTTP(rec, httptest.NewRequest("POST", "/", strings.NewReader(body)))
		close(served)
	}()
	if !core.WaitCh(served, core.Grace) {
		return -999, "", "(no reply: the request is still being served)"
	}
	var resp struct {
		Result json.RawMessage `json:"result"`
		Error  *struct {
			Code int `json:"code"`
		} `json:"error"`
	}
	raw = rec.Body.String()
	if json.Unmarshal([]byte(raw), &resp) != nil {
		return -1, "", raw
	}
	if resp.Error != nil {
		return resp.Error.Code, "", raw
	}
	var s string
	json.Unmarshal(resp.Result, &s)
	return 0, s, raw
}

func diff(before, after map[string]int) []string {
	var out []string
	for k, v := range after {
		for i := before[k]; i < v; i++ {
			out = append(out, k)
		}
	}
	sort.Strings(out)
	return out
}

func (c12) names(sc core.Scenario, r *core.R) {
	fm := c01Formatters[sc.I("fmt")]
	aliases := c12AliasTables[sc.I("alias")]
	rpc, h, table := c12Server(fm.f, fm.ref, aliases)
	// candidate universe
	cand := map[string]bool{"": true, "A.": true, ".M": true, "M": true, "m": true, ".": true, "A": true, "A.M.": true, " A.M": true, "A..M": true, "a.M": true, "A.m": true, "B.lowerX": true, "B.LowerX": true, "lowerX": true, "A.Mé": true, "Ä.M": true, "A.M\x7f": true, strings.Repeat("A", 256) + ".M": true}
	for _, f2 := range c01Formatters {
		for _, rg := range c12Regs {
			for _, m := range append(append([]string{}, rg.methods...), "Other", "N", "Nope") {
				n := f2.ref(rg.ns, m)
				cand[n] = true
				cand[strings.ToUpper(n)] = true
				cand[strings.ToLower(n)] = true
			}
		}
	}
	for _, at := range c12AliasTables {
		for k, v := range at {
			cand[k] = true
			cand[v] = true
		}
	}
	names := make([]string, 0, len(cand))
	for k := range cand {
		names = append(names, k)
	}
	sort.Strings(names)
	for _, s := range names {
		r.AddKey(fmt.Sprintf("%s|a%d|%q", fm.name, sc.I("alias"), s))
		c12Judge(r, rpc, h, table, aliases, s, fmt.Sprintf("formatter=%s aliases=%v request method %q", fm.name, aliases, s))
	}
	r.Key(fmt.Sprintf("names %s aliases#%d", fm.name, sc.I("alias")), true)
	r.Sample(map[string]interface{}{"formatter": fm.name, "aliases": aliases, "candidates": len(names)})
}

// c12Judge sends one request for method name s and compares what ran with the reference table.
func c12Judge(r *core.R, rpc *jsonrpc.RPCServer, h *hit, table map[string][]string, aliases map[string]string, s string, label string) {
	before := h.snap()
	code, result, raw := rawCall(rpc, s, "[]")
	ran := diff(before, h.snap())
	r.Obs("requests", 1)
	if code == -999 {
		r.Violate("dispatch-hang", "%s: the request was never answered", label)
		return
	}
	var acceptable []string
	mayNotFound := false
	if direct, ok := table[s]; ok {
		acceptable = direct
	} else if tgt, ok := aliases[s]; ok {
		if d2, ok := table[tgt]; ok {
			acceptable = d2
		} else if t2, ok := aliases[tgt]; ok {
			// alias -> alias: not-found or the final target
			mayNotFound = true
			acceptable = table[t2]
		}
	}
	if len(acceptable) == 0 || (mayNotFound && len(ran) == 0) {
		if len(ran) != 0 {
			r.Violate("ran-unregistered-name", "%s: no handler is registered or aliased under that name, yet %v ran (reply %s)", label, ran, core.Trunc(raw, 120))
		} else if code != -32601 {
			r.Violate("not-found-code", "%s: expected method-not-found (-32601), got code %d (reply %s)", label, code, core.Trunc(raw, 120))
		}
		return
	}
	if len(ran) != 1 || !contains(acceptable, ran[0]) {
		r.Violate("wrong-handler", "%s: expected exactly one of %v to run, ran %v (code %d)", label, acceptable, ran, code)
		return
	}
	if code != 0 || result != ran[0] {
		r.Violate("wrong-handler", "%s: handler %s ran but the reply is code %d result %q", label, ran[0], code, result)
	}
}

// dynamic: the dispatch table changes while the server is already serving - aliases added,
// re-pointed (to another handler, to a missing target) and a namespace registered late.
// After every step all interesting names are requested again.
func (c12) dynamic(sc core.Scenario, r *core.R) {
	fm := c01Formatters[sc.I("fmt")]
	aliases := map[string]string{}
	for k, v := range c12AliasTables[sc.I("alias")] {
		aliases[k] = v
	}
	rpc, h, table := c12Server(fm.f, fm.ref, aliases)
	probe := func(step string) {
		names := []string{"Late.X", "Late.Y", "short", "Al.One", fm.ref("A", "M"), fm.ref("B", "Other"), fm.ref("C", "M"), fm.ref("C", "N"), "Nope"}
		for k := range aliases {
			names = append(names, k)
		}
		sort.Strings(names)
		for _, s := range names {
			r.AddKey(fmt.Sprintf("dyn|%s|a%d|%s|%q", fm.name, sc.I("alias"), step, s))
			c12Judge(r, rpc, h, table, aliases, s, fmt.Sprintf("formatter=%s after step %q (aliases now %v) request method %q", fm.name, step, aliases, s))
		}
	}
	probe("initial") // the server has answered requests before anything changes
	steps := []struct {
		name string
		do   func()
	}{
		{"alias Late.X -> A.M added", func() { rpc.AliasMethod("Late.X", fm.ref("A", "M")); aliases["Late.X"] = fm.ref("A", "M") }},
		{"alias Late.X re-pointed to B.Other", func() { rpc.AliasMethod("Late.X", fm.ref("B", "Other")); aliases["Late.X"] = fm.ref("B", "Other") }},
		{"alias Late.Y -> C.N added before C exists", func() { rpc.AliasMethod("Late.Y", fm.ref("C", "N")); aliases["Late.Y"] = fm.ref("C", "N") }},
		{"namespace C registered", func() {
			rpc.Register("C", &H1{"c", h})
			for _, m := range []string{"M", "N", "Same"} {
				n := fm.ref("C", m)
				table[n] = append(table[n], "c/"+m)
			}
		}},
		{"alias Late.X re-pointed to a missing target", func() { rpc.AliasMethod("Late.X", "No.Such"); aliases["Late.X"] = "No.Such" }},
		{"alias short re-pointed to C.M", func() { rpc.AliasMethod("short", fm.ref("C", "M")); aliases["short"] = fm.ref("C", "M") }},
	}
	for _, st := range steps {
		st := st
		did := make(chan struct{})
		go func() { st.do(); close(did) }()
		if !core.WaitCh(did, core.Grace) {
			r.Violate("dispatch-hang", "formatter=%s: changing the dispatch table of a server that has answered requests (%s) never returned", fm.name, st.name)
			break
		}
		probe(st.name)
	}
	r.Key(fmt.Sprintf("dynamic %s aliases#%d", fm.name, sc.I("alias")), true)
	r.Sample(map[string]interface{}{"formatter": fm.name, "scenario": "dispatch table changed while serving", "steps": len(steps)})
}

func contains(l []string, s string) bool {
	for _, x := range l {
		if x == s {
			return true
		}
	}
	return false
}

type cliA struct {
	M    func() (string, error)
	N    func() (string, error)
	Same func() (string, error)
}
type cliB struct {
	M      func() (string, error)
	Same   func() (string, error)
	Other  func() (string, error)
	LowerX func() (string, error)
}

func (c12) clients(sc core.Scenario, r *core.R) {
	fm := c01Formatters[sc.I("fmt")]
	tr := sc.Str("transport")
	rpc, h, table := c12Server(fm.f, fm.ref, nil)
	ts := httptest.NewServer(rpc)
	defer ts.Close()
	addr := tr + "://" + ts.Listener.Addr().String()
	// custom transport: the client's requests are handed to the same server in-process
	newClient := func(ns string, outs []interface{}, opts ...jsonrpc.Option) (jsonrpc.ClientCloser, error) {
		if tr == "custom" {
			return jsonrpc.NewCustomClient(ns, outs, customDo(rpc), opts...)
		}
		return jsonrpc.NewMergeClient(context.Background(), addr, ns, outs, nil, opts...)
	}
	check := func(ns, inst, m string, f func() (string, error)) {
		before := h.snap()
		res, err := f()
		ran := diff(before, h.snap())
		want := table[fm.ref(ns, m)]
		r.Obs("client_calls", 1)
		r.AddKey(fmt.Sprintf("cli|%s|%s|%s.%s", fm.name, tr, ns, m))
		if err != nil || len(ran) != 1 || !contains(want, ran[0]) || res != ran[0] {
			r.Violate("client-server-disagree", "formatter=%s %s: client for namespace %q calling %s reached %v (result %q, err %v), expected one of %v", fm.name, tr, ns, m, ran, res, err, want)
		} else if len(want) == 1 && ran[0] != inst+"/"+m {
			r.Violate("namespace-leak", "formatter=%s: %s.%s reached %s", fm.name, ns, m, ran[0])
		}
	}
	for _, nsCase := range []struct{ ns, inst string }{{"A", "a"}, {"", "e"}} {
		var ca cliA
		closer, err := newClient(nsCase.ns, []interface{}{&ca}, jsonrpc.WithMethodNameFormatter(fm.f))
		if err != nil {
			r.Inconclusive("client: %v", err)
			return
		}
		check(nsCase.ns, nsCase.inst, "M", ca.M)
		check(nsCase.ns, nsCase.inst, "N", ca.N)
		check(nsCase.ns, nsCase.inst, "Same", ca.Same)
		closer()
	}
	var cb cliB
	closer, err := newClient("B", []interface{}{&cb}, jsonrpc.WithMethodNameFormatter(fm.f))
	if err != nil {
		r.Inconclusive("client: %v", err)
		return
	}
	check("B", "b", "M", cb.M)
	check("B", "b", "Same", cb.Same)
	check("B", "b", "Other", cb.Other)
	check("B", "b", "LowerX", cb.LowerX)
	closer()
	// explicit method tags: the tag is the server-side name, whatever formatter the client has
	tagT := reflect.StructOf([]reflect.StructField{
		{Name: "X", Type: reflect.TypeOf(cb.M), Tag: reflect.StructTag(fmt.Sprintf(`rpc_method:%q`, fm.ref("B", "Other")))},
		{Name: "Y", Type: reflect.TypeOf(cb.M), Tag: reflect.StructTag(fmt.Sprintf(`rpc_method:%q`, fm.ref("A", "N")))},
	})
	tv := reflect.New(tagT)
	closer, err = newClient("Whatever", []interface{}{tv.Interface()})
	if err != nil {
		r.Inconclusive("client: %v", err)
		return
	}
	for i, exp := range [][2]string{{"B", "Other"}, {"A", "N"}} {
		before := h.snap()
		out := tv.Elem().Field(i).Call(nil)
		ran := diff(before, h.snap())
		want := table[fm.ref(exp[0], exp[1])]
		r.Obs("client_calls", 1)
		r.AddKey(fmt.Sprintf("tag|%s|%s|%s.%s", fm.name, tr, exp[0], exp[1]))
		if !out[1].IsNil() || len(ran) != 1 || !contains(want, ran[0]) {
			r.Violate("tag-disagree", "formatter=%s %s: client field tagged rpc_method=%q reached %v (err %v), expected one of %v", fm.name, tr, fm.ref(exp[0], exp[1]), ran, out[1].Interface(), want)
		}
	}
	closer()
	r.Key(fmt.Sprintf("clients %s %s", fm.name, tr), true)
	r.Sample(map[string]interface{}{"formatter": fm.name, "transport": tr})
}

var c12Probes = []string{`null`, `true`, `1`, `-1`, `1.5`, `"s"`, `[]`, `{}`, `[1]`, `{"A":"x"}`, `300`, `1e40`}

func (c12) params(sc core.Scenario, r *core.R) {
	cat := &Cat{next: map[string]catNext{}}
	rpc := jsonrpc.NewServer(jsonrpc.WithParamDecoder(new(Enc), func(ctx context.Context, b []byte) (reflect.Value, error) {
		var s string
		if err := json.Unmarshal(b, &s); err != nil {
			return reflect.Value{}, err
		}
		e, err := decEnc(s)
		return reflect.ValueOf(e), err
	}))
	rpc.Register("Cat", cat)
	ct, methods := catClientType()
	rng := sc.Rand()
	for mi := sc.I("from"); mi < sc.I("to") && mi < len(methods); mi++ {
		m := methods[mi]
		ft := ct.Field(mi).Type
		var ptypes []reflect.Type
		raw := false
		for j := 0; j < ft.NumIn(); j++ {
			if ft.In(j) == ctxT {
				continue
			}
			if ft.In(j) == rawParamsT {
				raw = true
			}
			ptypes = append(ptypes, ft.In(j))
		}
		if raw {
			continue
		}
		g := &genr{rng: rng}
		good := make([]string, len(ptypes))
		for i, pt := range ptypes {
			if pt == encT {
				good[i] = `"1|x"`
				continue
			}
			good[i] = canon(g.gen(pt, 0))
		}
		send := func(params []string) (int, []catRec) {
			cat.take()
			code, _, _ := rawCall(rpc, "Cat."+m.Name, "["+strings.Join(params, ",")+"]")
			return code, cat.take()
		}
		// the same request as a notification (no id): whatever is or is not answered, a handler may only run
		// when arity and types are right
		sendNotif := func(params []string) []catRec {
			cat.take()
			body := fmt.Sprintf(`{"jsonrpc":"2.0","method":"Cat.%s","params":[%s]}`, m.Name, strings.Join(params, ","))
			rec := httptest.NewRecorder()
			rpc.ServeHTTP(rec, httptest.NewRequest("POST", "/", strings.NewReader(body)))
			return cat.take()
		}
		k := len(ptypes)
		// arities 0..k+1
		for n := 0; n <= k+1; n++ {
			ps := append([]string(nil), good...)
			if n <= k {
				ps = ps[:n]
			} else {
				ps = append(ps, "1")
			}
			code, recs := send(ps)
			r.Obs("param_requests", 1)
			r.AddKey(fmt.Sprintf("arity|%s|%d", m.Name, n))
			if n == k {
				if len(recs) != 1 || code != 0 {
					r.Violate("valid-params-rejected", "%s with %d well-typed params %s: ran %d handlers, code %d", m.Name, n, core.Trunc(strings.Join(ps, ","), 200), len(recs), code)
				}
				continue
			}
			if len(recs) != 0 {
				r.Violate("ran-with-wrong-arity", "%s declared with %d params ran with %d params", m.Name, k, n)
			}
			if nrecs := sendNotif(ps); len(nrecs) != 0 {
				r.Violate("ran-with-wrong-arity", "%s declared with %d params ran for a notification carrying %d params", m.Name, k, n)
			}
			if code == 0 {
				r.Violate("wrong-arity-accepted", "%s declared with %d params answered a %d-param request without error", m.Name, k, n)
			}
		}
		// type mismatch matrix
		for i, pt := range ptypes {
			for _, probe := range c12Probes {
				ps := append([]string(nil), good...)
				ps[i] = probe
				decodable := false
				if pt == encT {
					var s string
					if json.Unmarshal([]byte(probe), &s) == nil {
						_, err := decEnc(s)
						decodable = err == nil
					}
				} else {
					decodable = json.Unmarshal([]byte(probe), reflect.New(pt).Interface()) == nil
				}
				code, recs := send(ps)
				r.Obs("param_requests", 1)
				r.AddKey(fmt.Sprintf("type|%s|%d|%s", m.Name, i, probe))
				if decodable {
					if len(recs) != 1 {
						r.Violate("decodable-param-rejected", "%s param %d (%s) = %s decodes with encoding/json but the handler ran %d times (code %d)", m.Name, i, pt, probe, len(recs), code)
					}
				} else {
					if nrecs := sendNotif(ps); len(nrecs) != 0 {
						r.Violate("ran-with-undecodable-param", "%s param %d (%s) = %s does not decode into the declared type, yet the handler ran for a notification (it received %v)", m.Name, i, pt, probe, nrecs[0].args)
					}
					r.Obs("param_requests", 1)
					if len(recs) != 0 {
						r.Violate("ran-with-undecodable-param", "%s param %d (%s) = %s does not decode into the declared type, yet the handler ran", m.Name, i, pt, probe)
					}
					if code == 0 {
						r.Violate("undecodable-param-accepted", "%s param %d (%s) = %s answered without error", m.Name, i, pt, probe)
					}
				}
			}
		}
	}
	r.Key(fmt.Sprintf("params %d-%d", sc.I("from"), sc.I("to")), true)
	r.Sample(map[string]interface{}{"methods": fmt.Sprintf("catalogue[%d:%d]", sc.I("from"), sc.I("to")), "probes": c12Probes})
}
