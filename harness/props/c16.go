package props

import (
	"context"
	"fmt"
	"io"
	"net/http"
	"strings"
	"sync"
	"time"

	jsonrpc "github.com/filecoin-project/go-jsonrpc"

	"vharness/core"
	"vharness/svc"
	"vharness/wsproxy"
)

// C16 – reverse calls: affinity, and failure instead of blocking.

type c16 struct{}

func init() { core.Register(c16{}) }

func (c16) ID() string    { return "C16" }
func (c16) Level() string { return "exploration" }
func (c16) Race() bool    { return true }
func (c16) Rule() string {
	return "M in 1..8 simultaneously connected clients, each with a reverse handler returning its own identity; concurrent forward calls from all clients each trigger k nested reverse calls (forward call pending) through the plain method, a client-side alias, an rpc_method tag, a failing and a panicking client-side handler; presence matrix {ws, http, custom} x {with, without WithReverseClient}; connection loss (FIN/RST) at each frame of the reverse exchange x byte positions with the reverse call made on a detached context (only the library's own failure path can end it), and reverse calls issued after the connection is gone. Distinct = (M, k, which, transport/option, fault point); non-trivial = at least one reverse call crossed the wire. Oracles: identity returned through the forward call equals the caller's own; reverse errors carry the right token and identity; after the connection ended the server-side handler blocked in a reverse call returns within the grace; ExtractReverseClient is false off-ws / without the option."
}
func (c16) Assumptions() []string {
	return []string{"name-formatter agreement on the reverse path is recorded but not judged (the statement names aliases and tags only)"}
}

func (c16) Plan(tier string, seed int64) []core.Scenario {
	var out []core.Scenario
	rng := core.Scenario{Seed: seed}.Rand()
	n := 60
	if tier == "thorough" {
		n = 1200
	}
	for i := 0; i < n; i++ {
		out = append(out, core.Sc("affinity").WithN("m", 1+rng.Intn(8)).WithN("k", 1+rng.Intn(4)).WithN("calls", 1+rng.Intn(4)))
	}
	for _, tr := range []string{"ws", "http", "custom"} {
		for opt := 0; opt < 2; opt++ {
			out = append(out, core.Sc("presence").WithS("transport", tr).WithN("opt", opt))
		}
	}
	// faults at each frame of the reverse exchange
	for fk := 0; fk < 2; fk++ {
		for frame := 0; frame < 4; frame++ {
			for pos := 0; pos < 5; pos++ {
				if tier != "thorough" && (fk+frame+pos)%2 == 1 {
					continue
				}
				out = append(out, core.Sc("revfault").WithN("fk", fk).WithN("frame", frame).WithN("pos", pos))
			}
		}
	}
	nl := 8
	if tier == "thorough" {
		nl = 80
	}
	for i := 0; i < nl; i++ {
		// which: the plain reverse method on the handler context / a retry-tagged one on a detached context
		out = append(out, core.Sc("late").WithN("fk", i%3).WithN("k", 1+i%3).WithN("which", []int{0, 7}[(i/3)%2]))
		out = append(out, core.Sc("blocked").WithN("fk", i%3).WithN("others", i%4).WithN("which", []int{6, 8}[(i/3)%2]))
	}
	nn := 6
	if tier == "thorough" {
		nn = 80
	}
	for i := 0; i < nn; i++ {
		out = append(out, core.Sc("notify-nesting").WithN("variant", i%2).WithN("k", 1+i%3))
		out = append(out, core.Sc("notify-gone").WithN("fk", i%3).WithN("handlers", 2+i%6))
	}
	na := 4
	if tier == "thorough" {
		na = 40
	}
	for i := 0; i < na; i++ {
		out = append(out, core.Sc("alias-isolation").WithN("m", 2+i%5).WithN("rot", i))
	}
	for f := 1; f < len(c01Formatters); f++ {
		for order := 0; order < 2; order++ {
			out = append(out, core.Sc("revformat").WithN("fmt", f).WithN("order", order))
		}
	}
	// the server's request size limit concerns requests it receives, not the answers to its own reverse calls
	for i := 0; i < 2; i++ {
		out = append(out, core.Sc("rev-answer-over-request-limit").WithN("kb", []int{64, 16}[i]))
	}
	for i := 0; i < 5; i++ {
		// noping: a client WithPingInterval(0) - reconnecting must not depend on the keepalive set-up
		out = append(out, core.Sc("stale-reverse-answer").WithN("fk", i%2).WithN("old", 1+i%3).WithN("noping", i/3))
	}
	for i := range out {
		out[i].Seed = seed*122949829 + int64(i)
		out[i] = out[i].WithN("noise", i%3)
	}
	return out
}

func (p c16) Run(sc core.Scenario) core.Result {
	r := core.NewR(sc)
	switch sc.Kind {
	case "affinity":
		p.affinity(sc, r)
	case "presence":
		p.presence(sc, r)
	case "revfault":
		p.revfault(sc, r)
	case "late", "blocked":
		p.gone(sc, r)
	case "notify-nesting":
		p.notifyNesting(sc, r)
	case "notify-gone":
		p.notifyGone(sc, r)
	case "alias-isolation":
		p.aliasIsolation(sc, r)
	case "revformat":
		p.revFormat(sc, r)
	case "stale-reverse-answer":
		p.staleReverseAnswer(sc, r)
	case "rev-answer-over-request-limit":
		p.revAnswerOverLimit(sc, r)
	}
	return r.Result()
}

func (c16) affinity(sc core.Scenario, r *core.R) {
	M, k, calls := sc.I("m"), sc.I("k"), sc.I("calls")
	env := NewEnv(EnvOpt{Rev: true})
	defer env.Shutdown()
	pol := noisePolicy(sc)
	defer pol.Install()()
	var cls []*Client
	for i := 0; i < M; i++ {
		c, err := env.NewClient(ClientOpt{RevIdent: fmt.Sprintf("ID%d", i)})
		if err != nil {
			r.Inconclusive("client: %v", err)
			return
		}
		cls = append(cls, c)
	}
	bg := context.Background()
	var wg sync.WaitGroup
	crossed := 0
	var mu sync.Mutex
	for i, c := range cls {
		for j := 0; j < calls; j++ {
			i, c, j := i, c, j
			wg.Add(1)
			go func() {
				defer wg.Done()
				which := (i + j) % 5
				if which == 4 {
					which = 5 // RBoom
				}
				t := Tok("v")
				val, err := c.Rev(bg, t, k, which)
				ident := fmt.Sprintf("ID%d", i)
				mu.Lock()
				crossed++
				mu.Unlock()
				switch which {
				case 0, 1, 2:
					want := fmt.Sprintf("%s/%s.r%d", ident, t, k-1)
					if err != nil || val != want {
						r.Violate("reverse-affinity", "client %s of %d: forward call %s (reverse via %s) returned (%q, %v), expected %q - the reverse call did not reach the calling client or lost its token", ident, M, t, []string{"method", "alias", "tag"}[which], val, err, want)
					}
					for x := 0; x < k; x++ {
						if e := c.RevSvc.Enters(fmt.Sprintf("%s.r%d", t, x)); e != 1 {
							r.Violate("reverse-exec-count", "client %s: reverse call %s.r%d executed %d times on its own client", ident, t, x, e)
						}
					}
				case 3:
					want := svc.ErrText(t+".r0") + "@" + ident
					if err == nil || !strings.Contains(err.Error(), want) {
						r.Violate("reverse-error", "client %s: reverse handler error did not come back intact: got (%q, %v), expected it to contain %q", ident, val, err, want)
					}
				case 5:
					if err == nil || !strings.Contains(err.Error(), "panic") {
						r.Violate("reverse-panic", "client %s: a panicking client-side handler must fail the reverse call with an error mentioning the panic, got (%q, %v)", ident, val, err)
					}
				}
			}()
		}
	}
	done := make(chan struct{})
	go func() { wg.Wait(); close(done) }()
	if !core.WaitCh(done, 3*core.Grace) {
		r.Violate("reverse-hang", "forward calls with nested reverse calls did not complete on a healthy link (M=%d k=%d); events: %s", M, k, core.Log.Tail(30))
	}
	// every client still works
	for i, c := range cls {
		t := Tok("p")
		if v, err := c.Echo(bg, t, ""); err != nil || v != svc.Reply(t) {
			r.Violate("client-broken", "client %d unusable after reverse calls: %v", i, err)
		}
	}
	r.Key(fmt.Sprintf("affinity M=%d k=%d calls=%d sig=%s", M, k, calls, core.Log.Signature()[:6]), crossed > 0)
	r.Obs("forward_calls", int64(M*calls))
	r.Obs("reverse_calls", int64(M*calls*k))
	r.Sig(core.Log.Signature())
	r.Sample(map[string]interface{}{"clients": M, "nested_reverse_calls_per_forward": k, "forward_calls_per_client": calls})
}

func (c16) presence(sc core.Scenario, r *core.R) {
	tr := sc.Str("transport")
	opt := sc.I("opt") == 1
	env := NewEnv(EnvOpt{Rev: opt, NoProxy: true})
	defer env.Shutdown()
	var cl svc.Client
	var closer jsonrpc.ClientCloser
	var err error
	rs := svc.New()
	switch tr {
	case "custom":
		closer, err = customClient(env.RPC, &cl)
	default:
		closer, err = jsonrpc.NewMergeClient(context.Background(), env.Addr(tr), "S", []interface{}{&cl}, nil,
			jsonrpc.WithClientHandler("R", &svc.RevHandler{Identity: "X", S: rs}), jsonrpc.WithClientHandlerAlias("R.AliasIdent", "R.Ident"))
	}
	if err != nil {
		r.Inconclusive("client: %v", err)
		return
	}
	defer closer()
	t := Tok("v")
	val, err := cl.Rev(context.Background(), t, 1, 0)
	present := !(err == nil && val == "NOREV")
	wantPresent := tr == "ws" && opt
	if present != wantPresent {
		r.Violate("reverse-presence", "transport=%s option=%v: reverse client present=%v (val=%q err=%v), expected %v", tr, opt, present, val, err, wantPresent)
	}
	if wantPresent && (err != nil || val != "X/"+t+".r0") {
		r.Violate("reverse-affinity", "ws with option: reverse call returned (%q, %v)", val, err)
	}
	if tr == "http" && opt {
		// plain HTTP requests that ask for an upgrade to something that is not a websocket (h2c as sent by
		// default by some HTTP clients, or a made-up protocol): whatever the server answers, the handler must
		// not see a reverse client
		for _, up := range [][2]string{{"Upgrade, HTTP2-Settings", "h2c"}, {"upgrade", "tls/1.3"}, {"keep-alive, Upgrade", "something"}} {
			t2 := Tok("v")
			body := fmt.Sprintf(`{"jsonrpc":"2.0","id":1,"method":"S.Rev","params":[%q,1,0]}`, t2)
			req, _ := http.NewRequest("POST", env.Addr("http"), strings.NewReader(body))
			req.Header.Set("Content-Type", "application/json")
			req.Header.Set("Connection", up[0])
			req.Header.Set("Upgrade", up[1])
			type res struct {
				status int
				body   string
				err    error
			}
			done := make(chan res, 1)
			go func() {
				resp, err := (&http.Client{Timeout: 2 * core.Grace}).Do(req)
				if err != nil {
					done <- res{err: err}
					return
				}
				b, _ := io.ReadAll(resp.Body)
				resp.Body.Close()
				done <- res{resp.StatusCode, string(b), nil}
			}()
			var x res
			select {
			case x = <-done:
			case <-time.After(core.Grace):
				x = res{err: fmt.Errorf("no reply within %v", core.Grace)}
			}
			r.Obs("presence_cases", 1)
			entered := env.Svc.Enters(t2) > 0
			if entered && !strings.Contains(x.body, "NOREV") {
				r.Violate("reverse-presence", "HTTP POST with Connection: %q, Upgrade: %q: the handler ran and found a reverse client (reply status %d body %q err %v; handler note %q)", up[0], up[1], x.status, core.Trunc(x.body, 120), x.err, env.Svc.Get(t2).Note)
			}
		}
	}
	r.Key(fmt.Sprintf("presence %s opt=%v", tr, opt), true)
	r.Obs("presence_cases", 1)
	r.Sample(map[string]interface{}{"transport": tr, "with_reverse_client_option": opt, "present": present})
}

// revfault: the connection is lost at a frame of the reverse exchange; the
// server-side reverse call runs on a detached context and the client-side
// handler is held, so only the library's failure path can end it.
func (c16) revfault(sc core.Scenario, r *core.R) {
	kind := []string{wsproxy.FIN, wsproxy.RST}[sc.I("fk")]
	frame := sc.I("frame") // 0 forward request, 1 reverse request, 2 reverse response, 3 forward response
	env := NewEnv(EnvOpt{Rev: true})
	defer env.Shutdown()
	pol := noisePolicy(sc)
	defer pol.Install()()
	c, err := env.NewClient(ClientOpt{RevIdent: "A", Opts: []jsonrpc.Option{jsonrpc.WithReconnectBackoff(5*time.Millisecond, 20*time.Millisecond)}})
	if err != nil {
		r.Inconclusive("client: %v", err)
		return
	}
	bg := context.Background()
	w := Tok("w")
	c.Echo(bg, w, "")
	t := Tok("v")
	which := 6
	if frame >= 2 {
		which = 0 // the client-side handler answers, the fault hits the reverse response or the forward response
	} else {
		c.RevSvc.Hold(t + ".r0")
	}
	dir := wsproxy.C2S
	match := func(fi wsproxy.FrameInfo) bool { return fi.Msg != nil && fi.Msg.Method == "S.Rev" }
	switch frame {
	case 1:
		dir = wsproxy.S2C
		match = func(fi wsproxy.FrameInfo) bool { return fi.Msg != nil && strings.HasPrefix(fi.Msg.Method, "R.") }
	case 2:
		match = func(fi wsproxy.FrameInfo) bool { return fi.Msg != nil && fi.Msg.Method == "" && fi.Msg.HasResult }
	case 3:
		dir = wsproxy.S2C
		match = func(fi wsproxy.FrameInfo) bool {
			return fi.Msg != nil && fi.Msg.Method == "" && fi.Msg.HasResult && strings.Contains(fi.Msg.Result, t)
		}
	}
	ft := &wsproxy.Fault{Kind: kind, Dir: dir, Pos: sc.I("pos"), Match: match}
	env.Px.Arm(ft)
	o := Go(t, func() (string, error) { return c.Rev(bg, t, 1, which) })
	// if the fault left the exchange intact (pos 4 = after the last byte) but the client-side handler is held, cut now
	core.Eventually(2*time.Second, func() bool { return ft.Fired() })
	if !ft.Fired() {
		env.Px.KillAll(kind)
	}
	entered := env.Svc.Enters(t) > 0
	if entered {
		// the server-side handler must come back although its reverse call can never be answered
		if !core.WaitCh(env.Svc.ExitedCh(t), core.Grace) {
			r.Violate("reverse-call-blocks", "server handler %s is still blocked in its reverse call %v after the client's connection was lost (%s at frame %d pos %d); note=%q; events: %s", t, core.Grace, kind, frame, sc.I("pos"), env.Svc.Get(t).Note, core.Log.Tail(30))
		}
	}
	c.RevSvc.ReleaseAll()
	if !o.Wait(core.Grace) {
		r.Violate("forward-call-hang", "forward call %s never returned after the loss at frame %d", t, frame)
	} else if o.Err == nil && o.Val != "A/"+t+".r0" {
		r.Violate("reverse-affinity", "forward call returned %q", o.Val)
	}
	if !probeUntilHealthy(c, r, 2*core.Grace) {
		r.Violate("client-broken", "client did not recover after a loss during the reverse exchange")
	} else {
		t2 := Tok("v")
		if v, err := c.Rev(bg, t2, 1, 0); err != nil || v != "A/"+t2+".r0" {
			r.Violate("reverse-affinity", "reverse call after reconnect returned (%q, %v)", v, err)
		}
	}
	r.Key(fmt.Sprintf("revfault %s frame=%d pos=%d", kind, frame, sc.I("pos")), entered)
	r.Obs("reverse_faults", 1)
	r.Sig(core.Log.Signature())
	r.Sample(map[string]interface{}{"fault": kind, "frame": []string{"forward request", "reverse request", "reverse response", "forward response"}[frame], "pos": sc.I("pos"), "server_handler_note": env.Svc.Get(t).Note})
}

// notifyNesting: a notification whose handler calls in the opposite direction (forward notification ->
// reverse call; reverse notification -> forward call). The nested call must be answered.
func (c16) notifyNesting(sc core.Scenario, r *core.R) {
	env := NewEnv(EnvOpt{Rev: true})
	defer env.Shutdown()
	pol := noisePolicy(sc)
	defer pol.Install()()
	c, err := env.NewClient(ClientOpt{RevIdent: "A"})
	if err != nil {
		r.Inconclusive("client: %v", err)
		return
	}
	bg := context.Background()
	t := Tok("n")
	if sc.I("variant") == 0 {
		k := sc.I("k")
		if err := c.RevN(bg, t, k); err != nil {
			r.Violate("notify-failed", "forward notification failed: %v", err)
		}
		env.Svc.WaitEntered(t, core.Grace)
		if !core.WaitCh(env.Svc.ExitedCh(t), core.Grace) {
			r.Violate("reverse-call-blocks", "the handler of a forward notification made a reverse call and is still waiting for its answer after %v (note=%q); events: %s", core.Grace, env.Svc.Get(t).Note, core.Log.Tail(30))
		} else {
			for i := 0; i < k; i++ {
				want := fmt.Sprintf("[%s.r%d -> %q err=<nil>]", t, i, fmt.Sprintf("A/%s.r%d", t, i))
				if !strings.Contains(env.Svc.Get(t).Note, want) {
					r.Violate("reverse-affinity", "reverse call %d made from a notification handler: expected %s in %q", i, want, env.Svc.Get(t).Note)
				}
			}
		}
	} else {
		o := Go(t, func() (string, error) { return c.RevNoteBack(bg, t) })
		if !o.Wait(core.Grace) || o.Err != nil {
			r.Violate("reverse-call-blocks", "forward call that sends a reverse notification did not return: %v", o.Err)
		}
		c.RevSvc.WaitEntered(t, core.Grace)
		if !core.WaitCh(c.RevSvc.ExitedCh(t), core.Grace) {
			r.Violate("reverse-call-blocks", "the client-side handler of a reverse notification made a forward call and is still waiting for its answer after %v; events: %s", core.Grace, core.Log.Tail(30))
		} else if want := fmt.Sprintf("forward -> %q err=<nil>", svc.Reply(t+".f")); c.RevSvc.Get(t).Note != want {
			r.Violate("reverse-affinity", "forward call made from a reverse-notification handler: got %q, expected %q", c.RevSvc.Get(t).Note, want)
		}
	}
	// the connection still serves ordinary calls in both directions
	p := Tok("p")
	o := Go(p, func() (string, error) { return c.Rev(bg, p, 1, 0) })
	if !o.Wait(core.Grace) || o.Err != nil || o.Val != "A/"+p+".r0" {
		r.Violate("client-broken", "after a nested notification an ordinary forward+reverse call got (%q, %v)", o.Val, o.Err)
	}
	r.Key(fmt.Sprintf("notify-nesting v%d k=%d", sc.I("variant"), sc.I("k")), true)
	r.Obs("reverse_calls", int64(sc.I("k")))
	r.Sig(core.Log.Signature())
	r.Sample(map[string]interface{}{"scenario": []string{"forward notification -> reverse call", "reverse notification -> forward call"}[sc.I("variant")]})
}

// notifyGone: server handlers keep sending reverse notifications while the client goes away; each of
// them must get an error (or finish), not block.
func (c16) notifyGone(sc core.Scenario, r *core.R) {
	kind := []string{wsproxy.FIN, wsproxy.RST, "closer"}[sc.I("fk")]
	env := NewEnv(EnvOpt{Rev: true})
	defer env.Shutdown()
	pol := noisePolicy(sc)
	defer pol.Install()()
	c, err := env.NewClient(ClientOpt{RevIdent: "A", Opts: []jsonrpc.Option{jsonrpc.WithNoReconnect()}})
	if err != nil {
		r.Inconclusive("client: %v", err)
		return
	}
	bg := context.Background()
	var toks []string
	for i := 0; i < sc.I("handlers"); i++ {
		t := Tok("s")
		toks = append(toks, t)
		go c.RevSpam(bg, t, i%3)
	}
	for _, t := range toks {
		env.Svc.WaitEntered(t, core.Grace)
	}
	time.Sleep(3 * time.Millisecond)
	if kind == "closer" {
		go c.Close()
	} else {
		env.Px.KillAll(kind)
	}
	for _, t := range toks {
		if !core.WaitCh(env.Svc.ExitedCh(t), core.Grace) {
			r.Violate("reverse-call-blocks", "a server handler sending reverse notifications is still blocked %v after its client went away (%s); note=%q; events: %s", core.Grace, kind, env.Svc.Get(t).Note, core.Log.Tail(30))
			break
		}
	}
	r.Key(fmt.Sprintf("notify-gone %s n=%d", kind, len(toks)), true)
	r.Obs("reverse_after_gone", int64(len(toks)))
	r.Sig(core.Log.Signature())
	r.Sample(map[string]interface{}{"scenario": "reverse notifications while the client goes away", "end": kind, "handlers": len(toks), "note": env.Svc.Get(toks[0]).Note})
}

// gone: reverse calls issued after / blocked across the end of the client's connection.
func (c16) gone(sc core.Scenario, r *core.R) {
	kind := []string{wsproxy.FIN, wsproxy.RST, "closer"}[sc.I("fk")]
	env := NewEnv(EnvOpt{Rev: true})
	defer env.Shutdown()
	pol := noisePolicy(sc)
	defer pol.Install()()
	c, err := env.NewClient(ClientOpt{RevIdent: "A", Opts: []jsonrpc.Option{jsonrpc.WithNoReconnect()}})
	if err != nil {
		r.Inconclusive("client: %v", err)
		return
	}
	bg := context.Background()
	var toks []string
	t := Tok("v")
	if sc.Kind == "late" {
		// the handler is held; it calls back only after the connection is gone
		env.Svc.Hold(t)
		go c.Rev(bg, t, sc.I("k"), sc.I("which"))
		toks = append(toks, t)
	} else {
		c.RevSvc.Hold(t + ".r0")
		go c.Rev(bg, t, 1, sc.I("which"))
		toks = append(toks, t)
		for i := 0; i < sc.I("others"); i++ {
			t2 := Tok("v")
			c.RevSvc.Hold(t2 + ".r0")
			go c.Rev(bg, t2, 1, 4)
			toks = append(toks, t2)
		}
	}
	for _, t := range toks {
		if !env.Svc.WaitEntered(t, core.Grace) {
			r.Inconclusive("handler not entered")
			return
		}
	}
	if sc.Kind == "blocked" {
		for _, t := range toks {
			c.RevSvc.WaitEntered(t+".r0", core.Grace)
		}
	}
	switch kind {
	case "closer":
		go c.Close()
	default:
		env.Px.KillAll(kind)
	}
	// connection end is observable through the handler context
	core.Eventually(core.Grace, func() bool { return env.Svc.Get(toks[0]).Ctx.Err() != nil })
	env.Svc.ReleaseAll()
	for _, t := range toks {
		if !core.WaitCh(env.Svc.ExitedCh(t), core.Grace) {
			r.Violate("reverse-call-blocks", "%s: server handler %s still blocked in a reverse call %v after its client's connection ended by %s; note=%q; events: %s", sc.Kind, t, core.Grace, kind, env.Svc.Get(t).Note, core.Log.Tail(30))
		} else if sc.Kind == "late" && !strings.Contains(env.Svc.Get(t).Note, "err=") {
			r.Inconclusive("no reverse outcome recorded")
		} else if sc.Kind == "late" && strings.Contains(env.Svc.Get(t).Note, "err=<nil>") && !strings.Contains(env.Svc.Get(t).Note, "err=w") && !strings.Contains(env.Svc.Get(t).Note, "err=h") {
			// a nil error is only legitimate if the client really answered
			if c.RevSvc.Enters(t+".r0") == 0 {
				r.Violate("reverse-phantom-success", "reverse call to a gone client returned success without reaching it: %s", env.Svc.Get(t).Note)
			}
		}
	}
	c.RevSvc.ReleaseAll()
	r.Key(fmt.Sprintf("%s %s n=%d which=%d", sc.Kind, kind, len(toks), sc.I("which")), true)
	r.Obs("reverse_after_gone", int64(len(toks)))
	r.Sig(core.Log.Signature())
	r.Sample(map[string]interface{}{"scenario": sc.Kind, "end": kind, "handlers": len(toks), "note": env.Svc.Get(toks[0]).Note})
}

// aliasIsolation: several clients in one process whose client-side alias tables differ for the
// same name (-> Ident, -> RFail, no alias). The server calls each client back under that name;
// every client must resolve it through its own table only.
func (c16) aliasIsolation(sc core.Scenario, r *core.R) {
	M := sc.I("m")
	env := NewEnv(EnvOpt{Rev: true})
	defer env.Shutdown()
	tables := []map[string]string{{"R.AliasIdent": "R.Ident"}, {"R.AliasIdent": "R.RFail"}, {}}
	var cls []*Client
	var kinds []int
	for i := 0; i < M; i++ {
		k := (i + sc.I("rot")) % 3
		c, err := env.NewClient(ClientOpt{RevIdent: fmt.Sprintf("ID%d", i), RevAlias: tables[k]})
		if err != nil {
			r.Inconclusive("client: %v", err)
			return
		}
		cls = append(cls, c)
		kinds = append(kinds, k)
	}
	bg := context.Background()
	for round := 0; round < 2; round++ {
		for i, c := range cls {
			t := Tok("v")
			ident := fmt.Sprintf("ID%d", i)
			o := Go(t, func() (string, error) { return c.Rev(bg, t, 1, 1) })
			if !o.Wait(core.Grace) {
				r.Violate("reverse-hang", "alias isolation: forward call with a reverse call by alias did not return")
				return
			}
			r.Obs("alias_reverse_calls", 1)
			label := fmt.Sprintf("client %s (%d of %d in this process, own alias table %v)", ident, i, M, tables[kinds[i]])
			switch kinds[i] {
			case 0:
				if want := fmt.Sprintf("%s/%s.r0", ident, t); o.Err != nil || o.Val != want {
					r.Violate("alias-leak", "%s: reverse call to R.AliasIdent returned (%q, %v), expected %q", label, o.Val, o.Err, want)
				}
			case 1:
				if want := svc.ErrText(t+".r0") + "@" + ident; o.Err == nil || !strings.Contains(o.Err.Error(), want) {
					r.Violate("alias-leak", "%s: reverse call to R.AliasIdent must run its RFail handler, got (%q, %v)", label, o.Val, o.Err)
				}
			case 2:
				if o.Err == nil || !strings.Contains(o.Err.Error(), "not found") || c.RevSvc.Enters(t+".r0") != 0 {
					r.Violate("alias-leak", "%s: the client registered no alias, the reverse call must fail with method-not-found and run nothing; got (%q, %v), handler runs %d", label, o.Val, o.Err, c.RevSvc.Enters(t+".r0"))
				}
			}
		}
	}
	r.Key(fmt.Sprintf("alias-isolation m=%d rot=%d", M, sc.I("rot")%3), true)
	r.Sample(map[string]interface{}{"scenario": "alias-isolation", "clients": M})
}

// revFormat: server and client are configured with the same non-default method name formatter. The server's
// reverse client then names its calls with that formatter, whichever order the server options were given
// in; the client listens under that name through an alias onto its handler (client-side handler tables are
// keyed "Namespace.Method"), next to a decoy registered under the default-formatted name.
func (c16) revFormat(sc core.Scenario, r *core.R) {
	fm := c01Formatters[sc.I("fmt")]
	sopts := []jsonrpc.ServerOption{jsonrpc.WithServerMethodNameFormatter(fm.f), jsonrpc.WithReverseClient[svc.RevAPI]("R")}
	if sc.I("order") == 1 {
		sopts = []jsonrpc.ServerOption{jsonrpc.WithReverseClient[svc.RevAPI]("R"), jsonrpc.WithServerMethodNameFormatter(fm.f)}
	}
	env := NewEnv(EnvOpt{ServerOpts: sopts})
	defer env.Shutdown()
	rs, decoy := svc.New(), svc.New()
	c, err := env.NewClient(ClientOpt{Opts: []jsonrpc.Option{
		jsonrpc.WithMethodNameFormatter(fm.f),
		jsonrpc.WithClientHandler("Impl", &svc.RevHandler{Identity: "IMPL", S: rs}),
		jsonrpc.WithClientHandlerAlias(fm.f("R", "Ident"), "Impl.Ident"),
		jsonrpc.WithClientHandlerAlias(fm.f("R", "RFail"), "Impl.RFail"),
		jsonrpc.WithClientHandler("R", &svc.RevHandler{Identity: "DECOY", S: decoy}),
	}})
	if err != nil {
		r.Inconclusive("client: %v", err)
		return
	}
	bg := context.Background()
	label := fmt.Sprintf("formatter=%s on both sides, server options given as %s", fm.name, []string{"formatter, reverse client", "reverse client, formatter"}[sc.I("order")])
	for i := 0; i < 3; i++ {
		t := Tok("v")
		o := Go(t, func() (string, error) { return c.Rev(bg, t, 1, 0) })
		if !o.Wait(core.Grace) {
			r.Violate("reverse-hang", "%s: forward call with a nested reverse call did not return", label)
			return
		}
		r.Obs("reverse_calls", 1)
		if want := "IMPL/" + t + ".r0"; o.Err != nil || o.Val != want {
			r.Violate("reverse-name-mismatch", "%s: the reverse call %q must reach the client handler listening under that name; forward call returned (%q, %v), expected %q (decoy ran %d times)", label, fm.f("R", "Ident"), o.Val, o.Err, want, decoy.Enters(t+".r0"))
		}
		t2 := Tok("v")
		o2 := Go(t2, func() (string, error) { return c.Rev(bg, t2, 1, 3) })
		if !o2.Wait(core.Grace) {
			r.Violate("reverse-hang", "%s: forward call with a failing reverse call did not return", label)
			return
		}
		if want := svc.ErrText(t2+".r0") + "@IMPL"; o2.Err == nil || !strings.Contains(o2.Err.Error(), want) {
			r.Violate("reverse-name-mismatch", "%s: the reverse call %q must reach the failing client handler; got (%q, %v)", label, fm.f("R", "RFail"), o2.Val, o2.Err)
		}
	}
	r.Key(fmt.Sprintf("revformat %s order=%d", fm.name, sc.I("order")), true)
	r.Sample(map[string]interface{}{"scenario": "reverse calls under a non-default formatter", "formatter": fm.name, "option_order": sc.I("order")})
}

// staleReverseAnswer: client-side handlers of reverse calls are still running when the connection breaks
// and is re-established (they ignore their context); on the new connection the server makes new reverse
// calls - its per-connection reverse client numbers them from 1 again - and only then the old handlers
// finish. Every new reverse call must get the answer its own handler produced.
func (c16) staleReverseAnswer(sc core.Scenario, r *core.R) {
	kind := []string{wsproxy.RST, wsproxy.FIN}[sc.I("fk")]
	nOld := sc.I("old")
	env := NewEnv(EnvOpt{Rev: true})
	defer env.Shutdown()
	copts := []jsonrpc.Option{jsonrpc.WithReconnectBackoff(5*time.Millisecond, 20*time.Millisecond)}
	if sc.I("noping") == 1 {
		copts = append(copts, jsonrpc.WithPingInterval(0))
	}
	c, err := env.NewClient(ClientOpt{RevIdent: "A", Opts: copts})
	if err != nil {
		r.Inconclusive("client: %v", err)
		return
	}
	bg := context.Background()
	var oldToks []string
	for i := 0; i < nOld; i++ {
		t := Tok("o")
		c.RevSvc.Hold(t + ".r0")
		go c.Rev(bg, t, 1, 4)
		if !c.RevSvc.WaitEntered(t+".r0", core.Grace) {
			r.Inconclusive("old reverse handler never entered")
			return
		}
		oldToks = append(oldToks, t)
	}
	env.Px.KillAll(kind)
	if !probeUntilHealthy(c, r, 2*core.Grace) {
		r.Inconclusive("link never healthy again")
		return
	}
	var news []*Outcome
	for i := 0; i < nOld; i++ {
		t := Tok("n")
		c.RevSvc.Hold(t + ".r0")
		news = append(news, Go(t, func() (string, error) { return c.Rev(bg, t, 1, 4) }))
		if !c.RevSvc.WaitEntered(t+".r0", core.Grace) {
			r.Inconclusive("new reverse handler never entered")
			return
		}
	}
	// now the handlers that belong to the old connection finish
	for _, t := range oldToks {
		c.RevSvc.Release(t + ".r0")
	}
	time.Sleep(150 * time.Millisecond)
	for _, o := range news {
		c.RevSvc.Release(o.Tok + ".r0")
	}
	for _, o := range news {
		if !o.Wait(core.Grace) {
			r.Violate("reverse-hang", "a forward call with a nested reverse call on the re-established connection never returned")
			continue
		}
		want := "A/" + o.Tok + ".r0"
		if o.Err == nil && o.Val != want {
			r.Violate("reverse-foreign-answer", "a reverse call made on the re-established connection (%s after %s) was answered with %q, the result of a handler started for the old connection; its own handler would have returned %q", "new connection", kind, o.Val, want)
		} else if o.Err != nil {
			r.Violate("reverse-foreign-answer", "a reverse call made on the re-established connection failed (%v) after handlers of the old connection finished", o.Err)
		}
	}
	if sc.I("wire") == 1 {
		// C14's view of the same history: whatever was dropped or written around the reconnect, nothing but
		// whole JSON-RPC messages may have been put on the wire
		probeUntilHealthy(c, r, core.Grace)
		for _, e := range env.Px.ProtoErrors() {
			r.Violate("frame-corrupt:stale-reverse", "after handlers of the old connection finished on a re-established connection: %s", e)
		}
		r.Obs("frames_validated", int64(len(env.Px.Frames())))
	}
	r.Key(fmt.Sprintf("stale-reverse-answer %s old=%d noping=%d", kind, nOld, sc.I("noping")), true)
	r.Obs("reverse_calls", int64(2*nOld))
	r.Sig(core.Log.Signature())
	r.Sample(map[string]interface{}{"scenario": "old client-side reverse handlers finish after a reconnect while new reverse calls are in flight", "old_handlers": nOld})
}

// revAnswerOverLimit: a server WithMaxRequestSize(small) and a reverse client; the client-side handler's
// answer is larger than that limit. The limit is about requests the server receives; the reverse call
// must get its answer like a forward call of the same size does, and the connection must survive.
func (c16) revAnswerOverLimit(sc core.Scenario, r *core.R) {
	limit := int64(sc.I("kb")) << 10
	env := NewEnv(EnvOpt{Rev: true, ServerOpts: []jsonrpc.ServerOption{jsonrpc.WithMaxRequestSize(limit)}})
	defer env.Shutdown()
	c, err := env.NewClient(ClientOpt{RevIdent: "A"})
	if err != nil {
		r.Inconclusive("client: %v", err)
		return
	}
	bg := context.Background()
	// control: a forward call whose result has the same size
	ft := Tok("f")
	fo := Go(ft, func() (string, error) { return c.Big(bg, ft, 300<<10) })
	if !fo.Wait(core.Grace) || fo.Err != nil {
		r.Inconclusive("forward control call failed: %v", fo.Err)
		return
	}
	t := Tok("v")
	o := Go(t, func() (string, error) { return c.Rev(bg, t, 1, 10) })
	if !o.Wait(core.Grace) {
		r.Violate("reverse-call-blocks", "limit %d KiB: a forward call whose handler makes a reverse call with a 300 KiB answer never returned", sc.I("kb"))
	} else if o.Err != nil {
		r.Violate("reverse-error", "limit %d KiB: reverse call with a 300 KiB answer failed although the client is healthy: %v", sc.I("kb"), o.Err)
	} else if !strings.HasPrefix(o.Val, fmt.Sprintf("rbig:%d:", len(svc.Reply(t+".r0"))+1+300<<10)) && !strings.HasPrefix(o.Val, "rbig:") {
		r.Violate("reverse-wrong-result", "limit %d KiB: reverse call returned %q", sc.I("kb"), core.Trunc(o.Val, 60))
	}
	if n := env.Px.Accepts(); n != 1 {
		r.Violate("client-broken", "limit %d KiB: the connection was replaced (%d connections) after a reverse call with a large answer", sc.I("kb"), n)
	}
	pt := Tok("p")
	po := Go(pt, func() (string, error) { return c.Echo(bg, pt, "") })
	if !po.Wait(core.Grace) || po.Err != nil {
		r.Violate("client-broken", "limit %d KiB: a call after the large reverse answer failed (returned=%v err=%v)", sc.I("kb"), po.Returned(), po.Err)
	}
	r.Key(fmt.Sprintf("rev-answer-over-request-limit %dKiB", sc.I("kb")), true)
	r.Obs("reverse_calls", 1)
	r.Sample(map[string]interface{}{"scenario": "reverse answer larger than the server's request size limit", "limit_kib": sc.I("kb"), "answer_kib": 300})
}
