package props

import (
	"context"
	"fmt"
	"sort"
	"strings"
	"sync"
	"sync/atomic"
	"time"

	jsonrpc "github.com/filecoin-project/go-jsonrpc"

	"vharness/core"
	"vharness/svc"
	"vharness/wsproxy"
)

// C14 – concurrent writers never corrupt or interleave messages; no unsynchronised state.

type c14 struct{}

func init() { core.Register(c14{}) }

func (c14) ID() string       { return "C14" }
func (c14) Level() string    { return "exploration" }
func (c14) Race() bool       { return true }
func (c14) JudgeRaces() bool { return true }
func (c14) Rule() string {
	return "stress repetitions on one connection through the frame-validating proxy with every writer class active at once: 24 caller goroutines with requests and responses from 10 B to 3x the write buffer, in-flight and subscription cancels, channel registrations/values/closes, pings every 1-3 ms on both sides, reverse calls, periodic RST/FIN faults with reconnect incl. outages longer than the timeout, client close at the end; hook delays widen one writer class's critical section per repetition (window W8); plus windows W1 (response looked up ∥ loss), W4 (closer fired at the connection swap) and W10 (idle timer fires while a redial completes). Library logging is silenced (its pools/mutexes hide races). Distinct = multiset of writer classes observed under ws.writer.locked + slowed class + window; non-trivial = at least 3 writer classes were active in the repetition. Oracles: frame validator in both directions (mask discipline, fragmentation, control frames, each data message exactly one JSON-RPC object), race-detector reports with a go-jsonrpc frame (deduplicated by the pair of top library frames), child survival (gorilla panics on detected concurrent writes)."
}
func (c14) Assumptions() []string {
	return []string{"the race detector sees only executed access pairs not separated by an accidental happens-before edge", "reports whose stacks contain only harness frames are harness bugs and are not judged"}
}

var c14Classes = []string{"", "response", "request:S.Echo", "request:xrpc.cancel", "request:xrpc.ch.val", "request:xrpc.ch.close", "ping", "swap", "request:S.Big", "request:R.Ident"}

func (c14) Plan(tier string, seed int64) []core.Scenario {
	var out []core.Scenario
	reps := 3
	nw := 4
	if tier == "thorough" {
		reps, nw = 40, 60
	}
	for rep := 0; rep < reps; rep++ {
		for ci := range c14Classes {
			out = append(out, core.Sc("stress").WithN("slow", ci).WithN("rep", rep).WithN("outage", (rep+ci)%3))
		}
	}
	for i := 0; i < nw; i++ {
		out = append(out, core.Sc("w10").WithN("variant", i%3))
		out = append(out, core.Sc("w4").WithN("variant", i%2))
		out = append(out, core.Sc("w1").WithN("variant", i%4))
	}
	for i := range out {
		out[i].Seed = seed*160481183 + int64(i)
		out[i] = out[i].WithN("noise", 1+i%2)
	}
	return out
}

func (p c14) Run(sc core.Scenario) core.Result {
	r := core.NewR(sc)
	switch sc.Kind {
	case "stress":
		p.stress(sc, r)
	case "w10":
		p.w10(sc, r)
	case "w4":
		p.w4(sc, r)
	case "w1":
		c08{}.w1(sc, r)
		r.Obs("w1_runs", 1)
	}
	return r.Result()
}

func writerClasses() (map[string]int, string) {
	cl := map[string]int{}
	for _, e := range core.Log.Snapshot() {
		if e.Point == "ws.writer.locked" {
			side := "s:"
			if e.Client {
				side = "c:"
			}
			a := e.Arg
			if strings.HasPrefix(a, "request:S.") {
				a = "request:call"
			}
			if strings.HasPrefix(a, "request:R.") {
				a = "request:reverse"
			}
			cl[side+a]++
		}
	}
	var ks []string
	for k := range cl {
		ks = append(ks, k)
	}
	sort.Strings(ks)
	return cl, strings.Join(ks, ",")
}

func (c14) stress(sc core.Scenario, r *core.R) {
	slow := c14Classes[sc.I("slow")]
	env := NewEnv(EnvOpt{Rev: true, ServerOpts: []jsonrpc.ServerOption{jsonrpc.WithServerPingInterval(time.Duration(1+sc.I("rep")%3) * time.Millisecond)}})
	defer env.Shutdown()
	pol := noisePolicy(sc)
	if slow != "" {
		pol.Rules = append(pol.Rules, &core.Rule{Point: "ws.writer.locked", Arg: slow, Do: func(jsonrpc.VerifEvent) { time.Sleep(300 * time.Microsecond) }})
	}
	pol.Skew = map[string]time.Duration{"h.lazy.acquire": 50 * time.Microsecond}
	defer pol.Install()()
	c, err := env.NewClient(ClientOpt{RevIdent: "A", Opts: []jsonrpc.Option{
		jsonrpc.WithReconnectBackoff(2*time.Millisecond, 10*time.Millisecond),
		jsonrpc.WithPingInterval(time.Duration(1+sc.I("rep")%2) * time.Millisecond), jsonrpc.WithTimeout(150 * time.Millisecond)}})
	if err != nil {
		r.Inconclusive("client: %v", err)
		return
	}
	bg := context.Background()
	var stop int32
	var wg sync.WaitGroup
	var calls, okCalls int64
	sizes := []int{0, 10, 500, 4000, 4096, 5000, 12500}
	for g := 0; g < 24; g++ {
		g := g
		wg.Add(1)
		go func() {
			defer wg.Done()
			rng := core.Scenario{Seed: sc.Seed + int64(g)}.Rand()
			for atomic.LoadInt32(&stop) == 0 {
				atomic.AddInt64(&calls, 1)
				t := Tok("z")
				switch (g + rng.Intn(3)) % 8 {
				case 0, 1:
					v, err := c.Echo(bg, t, strings.Repeat("r", sizes[rng.Intn(len(sizes))]))
					if err == nil && v == svc.Reply(t) {
						atomic.AddInt64(&okCalls, 1)
					} else if err == nil {
						r.Violate("foreign-result", "stress: Echo(%s) returned %q", t, core.Trunc(v, 60))
					}
				case 2:
					n := sizes[rng.Intn(len(sizes))]
					v, err := c.Big(bg, t, n)
					if err == nil && (!strings.HasPrefix(v, svc.Reply(t)+":") || len(v) != len(svc.Reply(t))+1+n) {
						r.Violate("foreign-result", "stress: Big(%s,%d) returned %q (len %d)", t, n, core.Trunc(v, 60), len(v))
					}
				case 3: // in-flight cancel path
					ctx, cancel := context.WithCancel(bg)
					env.Svc.Hold(t)
					d := time.Duration(rng.Intn(1500)) * time.Microsecond
					go func() { time.Sleep(d); cancel() }()
					c.Echo(ctx, t, "")
					cancel()
				case 4: // subscription: registration, values, close
					ch, err := c.Sub(bg, t, 1+rng.Intn(40), svc.SGoroutine)
					if err == nil && ch != nil {
						i := 0
						for v := range ch {
							if v.Tok != t || v.Seq != i {
								r.Violate("stream-corrupted", "stress: stream %s delivered %+v at position %d", t, v, i)
								break
							}
							i++
						}
					}
				case 5: // subscription cancel path
					ctx, cancel := context.WithCancel(bg)
					ch, err := c.Sub(ctx, t, 0, svc.SInfinite)
					if err == nil && ch != nil {
						n := 0
						for range ch {
							n++
							if n == 5 {
								cancel()
							}
						}
					}
					cancel()
				case 6: // reverse calls (server -> client requests, client -> server responses)
					c.Rev(bg, t, 1+rng.Intn(3), 0)
				case 7:
					c.Note(bg, t)
					c.Void(bg, t)
				}
			}
		}()
	}
	// periodic faults, incl. an outage longer than the timeout
	deadline := time.Now().Add(900 * time.Millisecond)
	cuts := 0
	for time.Now().Before(deadline) {
		time.Sleep(120 * time.Millisecond)
		kind := []string{wsproxy.RST, wsproxy.FIN}[cuts%2]
		if sc.I("outage") == 1 && cuts == 1 {
			env.Px.SetRefuse(true)
			env.Px.KillAll(kind)
			time.Sleep(220 * time.Millisecond)
			env.Px.SetRefuse(false)
		} else if sc.I("outage") == 2 && cuts == 1 {
			env.Px.KillAll(wsproxy.BLACKHOLE)
			time.Sleep(250 * time.Millisecond)
		} else {
			env.Px.KillAll(kind)
		}
		cuts++
	}
	atomic.StoreInt32(&stop, 1)
	env.Svc.ReleaseAll()
	closed := make(chan struct{})
	go func() { time.Sleep(5 * time.Millisecond); c.Close(); close(closed) }()
	done := make(chan struct{})
	go func() { wg.Wait(); close(done) }()
	if !core.WaitCh(done, 2*core.Grace) {
		r.Violate("stress-hang", "stress workers did not finish after the client was closed; events: %s", core.Log.Tail(30))
	}
	core.WaitCh(closed, core.Grace)
	for _, e := range env.Px.ProtoErrors() {
		r.Violate("frame-corruption", "frame validator: %s", e)
	}
	cl, names := writerClasses()
	r.Key(fmt.Sprintf("stress slow=%q classes=%s", slow, names), len(cl) >= 3)
	r.Obs("calls", atomic.LoadInt64(&calls))
	r.Obs("calls_ok", atomic.LoadInt64(&okCalls))
	r.Obs("frames_validated", int64(env.Px.DataFrames(wsproxy.C2S)+env.Px.DataFrames(wsproxy.S2C)))
	r.Obs("connections", int64(env.Px.Accepts()))
	r.Obs("writer_lock_events", int64(core.Log.Count("ws.writer.locked")))
	r.Sig(core.Log.Signature())
	r.Sample(map[string]interface{}{"slowed_writer_class": slow, "writer_classes_seen": cl, "frames_validated": env.Px.DataFrames(wsproxy.C2S) + env.Px.DataFrames(wsproxy.S2C), "connections": env.Px.Accepts(), "calls": atomic.LoadInt64(&calls)})
}

// w10: the idle timer fires while a redial completes and swaps the connection.
func (c14) w10(sc core.Scenario, r *core.R) {
	env := NewEnv(EnvOpt{ServerOpts: []jsonrpc.ServerOption{jsonrpc.WithServerPingInterval(20 * time.Millisecond)}})
	defer env.Shutdown()
	pol := noisePolicy(sc)
	v := sc.I("variant")
	pol.Rules = append(pol.Rules,
		&core.Rule{Point: "ws.reconn.swap.before", Side: 1, Occ: 1, Do: func(jsonrpc.VerifEvent) {
			pol.WaitPoint("ws.timeout.fired", 1, pol.Count("ws.timeout.fired", 1), 600*time.Millisecond)
			if v == 1 {
				time.Sleep(50 * time.Microsecond)
			}
		}},
		&core.Rule{Point: "ws.timeout.fired", Side: 1, Do: func(jsonrpc.VerifEvent) {
			if v == 2 {
				time.Sleep(50 * time.Microsecond)
			}
		}},
	)
	defer pol.Install()()
	c, err := env.NewClient(ClientOpt{Opts: []jsonrpc.Option{jsonrpc.WithReconnectBackoff(2*time.Millisecond, 5*time.Millisecond), jsonrpc.WithPingInterval(20 * time.Millisecond), jsonrpc.WithTimeout(150 * time.Millisecond)}})
	if err != nil {
		r.Inconclusive("client: %v", err)
		return
	}
	bg := context.Background()
	t := Tok("w")
	c.Echo(bg, t, "")
	env.Px.KillAll(wsproxy.BLACKHOLE)
	// no requests meanwhile: every loop iteration would restart the idle timer
	pol.WaitPoint("ws.reconn.swap.after", 1, 0, 2*time.Second)
	healthy := probeUntilHealthy(c, r, 2*core.Grace)
	formed := pol.Count("ws.timeout.fired", 1) > 0 && pol.Count("ws.reconn.swap.after", 1) > 0
	for _, e := range env.Px.ProtoErrors() {
		r.Violate("frame-corruption", "frame validator: %s", e)
	}
	if !healthy {
		r.Inconclusive("client did not recover")
	}
	r.Key(fmt.Sprintf("w10 v%d formed=%v", v, formed), formed)
	r.Obs("w10_formed", b2i(formed))
	r.Sig(core.Log.Signature())
	r.Sample(map[string]interface{}{"window": "idle timer fires while a redial completes", "variant": v, "formed": formed})
}

// w4: the closer is fired while the reconnect goroutine is about to swap the connection.
func (c14) w4(sc core.Scenario, r *core.R) {
	env := NewEnv(EnvOpt{})
	defer env.Shutdown()
	pol := noisePolicy(sc)
	var c *Client
	closed := make(chan struct{})
	var once sync.Once
	pol.Rules = append(pol.Rules, &core.Rule{Point: "ws.reconn.swap.before", Side: 1, Occ: 1, Do: func(jsonrpc.VerifEvent) {
		once.Do(func() { go func() { c.Close(); close(closed) }() })
		if sc.I("variant") == 1 {
			pol.WaitPoint("ws.stop.recv", 1, 0, 50*time.Millisecond)
		} else {
			time.Sleep(200 * time.Microsecond)
		}
	}})
	defer pol.Install()()
	var err error
	c, err = env.NewClient(ClientOpt{Opts: []jsonrpc.Option{jsonrpc.WithReconnectBackoff(2*time.Millisecond, 5*time.Millisecond), jsonrpc.WithPingInterval(5 * time.Millisecond)}})
	if err != nil {
		r.Inconclusive("client: %v", err)
		return
	}
	bg := context.Background()
	for i := 0; i < 4; i++ {
		t := Tok("q")
		go c.Echo(bg, t, strings.Repeat("x", 5000))
	}
	env.Px.KillAll(wsproxy.RST)
	formed := core.WaitCh(closed, core.Grace)
	if !formed && pol.Count("ws.reconn.swap.before", 1) > 0 {
		r.Violate("closer-hang", "closer fired at the connection swap did not return; events: %s", core.Log.Tail(30))
	}
	for _, e := range env.Px.ProtoErrors() {
		r.Violate("frame-corruption", "frame validator: %s", e)
	}
	r.Key(fmt.Sprintf("w4 v%d formed=%v", sc.I("variant"), formed), formed)
	r.Obs("w4_formed", b2i(formed))
	r.Sig(core.Log.Signature())
	r.Sample(map[string]interface{}{"window": "closer fired at the connection swap", "formed": formed})
}
