package props

import (
	"context"
	"fmt"
	"sort"
	"strings"
	"sync"
	"sync/atomic"
	"time"

	jsonrpc "github.com/filecoin-project/go-jsonrpc"

	"vharness/core"
	"vharness/svc"
	"vharness/wsproxy"
)

// C14 – concurrent writers never corrupt or interleave messages; no unsynchronised state.

type c14 struct{}

func init() { core.Register(c14{}) }

func (c14) ID() string       { return "C14" }
func (c14) Level() string    { return "exploration" }
func (c14) Race() bool       { return true }
func (c14) JudgeRaces() bool { return true }
func (c14) Rule() string {
	return "stress repetitions on one connection through the frame-validating proxy with every writer class active at once: 24 caller goroutines with requests and responses from 10 B to 3x the write buffer, in-flight and subscription cancels, channel registrations/values/closes, pings every 1-3 ms on both sides, reverse calls, periodic RST/FIN faults with reconnect incl. outages longer than the timeout, client close at the end; hook delays widen one writer class's critical section per repetition (window W8); plus windows W1 (response looked up ∥ loss), W4 (closer fired at the connection swap) and W10 (idle timer fires while a redial completes). Library logging is silenced (its pools/mutexes hide races). Distinct = multiset of writer classes observed under ws.writer.locked + slowed class + window; non-trivial = at least 3 writer classes were active in the repetition. Oracles: frame validator in both directions (mask discipline, fragmentation, control frames, each data message exactly one JSON-RPC object), race-detector reports with a go-jsonrpc frame (deduplicated by the pair of top library frames), child survival (gorilla panics on detected concurrent writes)."
}
func (c14) Assumptions() []string {
	return []string{"the race detector sees only executed access pairs not separated by an accidental happens-before edge", "reports whose stacks contain only harness frames are harness bugs and are not judged"}
}

var c14Classes = []string{"", "response", "request:S.Echo", "request:xrpc.cancel", "request:xrpc.ch.val", "request:xrpc.ch.close", "ping", "swap", "request:S.Big", "request:R.Ident"}

func (c14) Plan(tier string, seed int64) []core.Scenario {
	var out []core.Scenario
	reps := 3
	nw := 4
	if tier == "thorough" {
		reps, nw = 40, 60
	}
	for rep := 0; rep < reps; rep++ {
		for ci := range c14Classes {
			out = append(out, core.Sc("stress").WithN("slow", ci).WithN("rep", rep).WithN("outage", (rep+ci)%3))
		}
	}
	for i := 0; i < nw; i++ {
		out = append(out, core.Sc("w10").WithN("variant", i%3))
		out = append(out, core.Sc("w4").WithN("variant", i%2))
		out = append(out, core.Sc("w1").WithN("variant", i%4))
	}
	// a writer that stays busy for seconds because the peer reads slowly: a second response has to wait for
	// it (slowpeer), and the client is closed while its own writer is busy (close-busy)
	nsl := 1
	if tier == "thorough" {
		nsl = 3
	}
	for i := 0; i < nsl; i++ {
		out = append(out, core.Sc("slowpeer").WithN("mb", 24).WithN("rep", i))
		out = append(out, core.Sc("close-busy").WithN("mb", 24).WithN("rep", i))
	}
	for i := 0; i < 3; i++ {
		// late answers of client-side handlers that belong to a connection that has been replaced
		out = append(out, core.Sc("stale-reverse-answer").WithN("fk", i%2).WithN("old", 1+i).WithN("wire", 1))
		// results encoding/json cannot encode next to ordinary ones
		out = append(out, core.Sc("unencodable-result").WithN("workers", 8+8*i).WithN("rep", i))
	}
	for i := range out {
		out[i].Seed = seed*160481183 + int64(i)
		out[i] = out[i].WithN("noise", 1+i%2)
	}
	return out
}

func (p c14) Run(sc core.Scenario) core.Result {
	r := core.NewR(sc)
	switch sc.Kind {
	case "stress":
		p.stress(sc, r)
	case "w10":
		p.w10(sc, r)
	case "w4":
		p.w4(sc, r)
	case "w1":
		c08{}.w1(sc, r)
		r.Obs("w1_runs", 1)
	case "slowpeer":
		p.slowPeer(sc, r)
	case "close-busy":
		p.closeBusy(sc, r)
	case "stale-reverse-answer":
		c16{}.staleReverseAnswer(sc, r)
	case "unencodable-result":
		p.unencodableResult(sc, r)
	}
	return r.Result()
}

func writerClasses() (map[string]int, string) {
	cl := map[string]int{}
	for _, e := range core.Log.Snapshot() {
		if e.Point == "ws.writer.locked" {
			side := "s:"
			if e.Client {
				side = "c:"
			}
			a := e.Arg
			if strings.HasPrefix(a, "request:S.") {
				a = "request:call"
			}
			if strings.HasPrefix(a, "request:R.") {
				a = "request:reverse"
			}
			cl[side+a]++
		}
	}
	var ks []string
	for k := range cl {
		ks = append(ks, k)
	}
	sort.Strings(ks)
	return cl, strings.Join(ks, ",")
}

func (c14) stress(sc core.Scenario, r *core.R) {
	slow := c14Classes[sc.I("slow")]
	env := NewEnv(EnvOpt{Rev: true, ServerOpts: []jsonrpc.ServerOption{jsonrpc.WithServerPingInterval(time.Duration(1+sc.I("rep")%3) * time.Millisecond)}})
	defer env.Shutdown()
	pol := noisePolicy(sc)
	if slow != "" {
		pol.Rules = append(pol.Rules, &core.Rule{Point: "ws.writer.locked", Arg: slow, Do: func(jsonrpc.VerifEvent) { time.Sleep(300 * time.Microsecond) }})
	}
	pol.Skew = map[string]time.Duration{"h.lazy.acquire": 50 * time.Microsecond}
	defer pol.Install()()
	c, err := env.NewClient(ClientOpt{RevIdent: "A", Opts: []jsonrpc.Option{
		jsonrpc.WithReconnectBackoff(2*time.Millisecond, 10*time.Millisecond),
		jsonrpc.WithPingInterval(time.Duration(1+sc.I("rep")%2) * time.Millisecond), jsonrpc.WithTimeout(150 * time.Millisecond)}})
	if err != nil {
		r.Inconclusive("client: %v", err)
		return
	}
	bg := context.Background()
	var stop int32
	var wg sync.WaitGroup
	var calls, okCalls int64
	sizes := []int{0, 10, 500, 4000, 4096, 5000, 12500}
	for g := 0; g < 24; g++ {
		g := g
		wg.Add(1)
		go func() {
			defer wg.Done()
			rng := core.Scenario{Seed: sc.Seed + int64(g)}.Rand()
			for atomic.LoadInt32(&stop) == 0 {
				atomic.AddInt64(&calls, 1)
				t := Tok("z")
				switch (g + rng.Intn(3)) % 8 {
				case 0, 1:
					v, err := c.Echo(bg, t, strings.Repeat("r", sizes[rng.Intn(len(sizes))]))
					if err == nil && v == svc.Reply(t) {
						atomic.AddInt64(&okCalls, 1)
					} else if err == nil {
						r.Violate("foreign-result", "stress: Echo(%s) returned %q", t, core.Trunc(v, 60))
					}
				case 2:
					n := sizes[rng.Intn(len(sizes))]
					v, err := c.Big(bg, t, n)
					if err == nil && (!strings.HasPrefix(v, svc.Reply(t)+":") || len(v) != len(svc.Reply(t))+1+n) {
						r.Violate("foreign-result", "stress: Big(%s,%d) returned %q (len %d)", t, n, core.Trunc(v, 60), len(v))
					}
				case 3: // in-flight cancel path
					ctx, cancel := context.WithCancel(bg)
					env.Svc.Hold(t)
					d := time.Duration(rng.Intn(1500)) * time.Microsecond
					go func() { time.Sleep(d); cancel() }()
					c.Echo(ctx, t, "")
					cancel()
				case 4: // subscription: registration, values, close
					ch, err := c.Sub(bg, t, 1+rng.Intn(40), svc.SGoroutine)
					if err == nil && ch != nil {
						i := 0
						for v := range ch {
							if v.Tok != t || v.Seq != i {
								r.Violate("stream-corrupted", "stress: stream %s delivered %+v at position %d", t, v, i)
								break
							}
							i++
						}
					}
				case 5: // subscription cancel path
					ctx, cancel := context.WithCancel(bg)
					ch, err := c.Sub(ctx, t, 0, svc.SInfinite)
					if err == nil && ch != nil {
						n := 0
						for range ch {
							n++
							if n == 5 {
								cancel()
							}
						}
					}
					cancel()
				case 6: // reverse calls (server -> client requests, client -> server responses)
					c.Rev(bg, t, 1+rng.Intn(3), 0)
				case 7:
					c.Note(bg, t)
					c.Void(bg, t)
				}
			}
		}()
	}
	// periodic faults, incl. an outage longer than the timeout
	deadline := time.Now().Add(900 * time.Millisecond)
	cuts := 0
	for time.Now().Before(deadline) {
		time.Sleep(120 * time.Millisecond)
		kind := []string{wsproxy.RST, wsproxy.FIN}[cuts%2]
		if sc.I("outage") == 1 && cuts == 1 {
			env.Px.SetRefuse(true)
			env.Px.KillAll(kind)
			time.Sleep(220 * time.Millisecond)
			env.Px.SetRefuse(false)
		} else if sc.I("outage") == 2 && cuts == 1 {
			env.Px.KillAll(wsproxy.BLACKHOLE)
			time.Sleep(250 * time.Millisecond)
		} else {
			env.Px.KillAll(kind)
		}
		cuts++
	}
	atomic.StoreInt32(&stop, 1)
	env.Svc.ReleaseAll()
	closed := make(chan struct{})
	go func() { time.Sleep(5 * time.Millisecond); c.Close(); close(closed) }()
	done := make(chan struct{})
	go func() { wg.Wait(); close(done) }()
	if !core.WaitCh(done, 2*core.Grace) {
		r.Violate("stress-hang", "stress workers did not finish after the client was closed; events: %s", core.Log.Tail(30))
	}
	core.WaitCh(closed, core.Grace)
	for _, e := range env.Px.ProtoErrors() {
		r.Violate("frame-corruption", "frame validator: %s; events: %s", e, core.Log.TailFiltered(60, "none"))
	}
	cl, names := writerClasses()
	r.Key(fmt.Sprintf("stress slow=%q classes=%s", slow, names), len(cl) >= 3)
	r.Obs("calls", atomic.LoadInt64(&calls))
	r.Obs("calls_ok", atomic.LoadInt64(&okCalls))
	r.Obs("frames_validated", int64(env.Px.DataFrames(wsproxy.C2S)+env.Px.DataFrames(wsproxy.S2C)))
	r.Obs("connections", int64(env.Px.Accepts()))
	r.Obs("writer_lock_events", int64(core.Log.Count("ws.writer.locked")))
	r.Sig(core.Log.Signature())
	r.Sample(map[string]interface{}{"slowed_writer_class": slow, "writer_classes_seen": cl, "frames_validated": env.Px.DataFrames(wsproxy.C2S) + env.Px.DataFrames(wsproxy.S2C), "connections": env.Px.Accepts(), "calls": atomic.LoadInt64(&calls)})
}

// w10: the idle timer fires while a redial completes and swaps the connection.
func (c14) w10(sc core.Scenario, r *core.R) {
	env := NewEnv(EnvOpt{ServerOpts: []jsonrpc.ServerOption{jsonrpc.WithServerPingInterval(20 * time.Millisecond)}})
	defer env.Shutdown()
	pol := noisePolicy(sc)
	v := sc.I("variant")
	pol.Rules = append(pol.Rules,
		&core.Rule{Point: "ws.reconn.swap.before", Side: 1, Occ: 1, Do: func(jsonrpc.VerifEvent) {
			pol.WaitPoint("ws.timeout.fired", 1, pol.Count("ws.timeout.fired", 1), 600*time.Millisecond)
			if v == 1 {
				time.Sleep(50 * time.Microsecond)
			}
		}},
		&core.Rule{Point: "ws.timeout.fired", Side: 1, Do: func(jsonrpc.VerifEvent) {
			if v == 2 {
				time.Sleep(50 * time.Microsecond)
			}
		}},
	)
	defer pol.Install()()
	c, err := env.NewClient(ClientOpt{Opts: []jsonrpc.Option{jsonrpc.WithReconnectBackoff(2*time.Millisecond, 5*time.Millisecond), jsonrpc.WithPingInterval(20 * time.Millisecond), jsonrpc.WithTimeout(150 * time.Millisecond)}})
	if err != nil {
		r.Inconclusive("client: %v", err)
		return
	}
	bg := context.Background()
	t := Tok("w")
	c.Echo(bg, t, "")
	env.Px.KillAll(wsproxy.BLACKHOLE)
	// no requests meanwhile: every loop iteration would restart the idle timer
	pol.WaitPoint("ws.reconn.swap.after", 1, 0, 2*time.Second)
	healthy := probeUntilHealthy(c, r, 2*core.Grace)
	formed := pol.Count("ws.timeout.fired", 1) > 0 && pol.Count("ws.reconn.swap.after", 1) > 0
	for _, e := range env.Px.ProtoErrors() {
		r.Violate("frame-corruption", "frame validator: %s", e)
	}
	if !healthy {
		r.Inconclusive("client did not recover")
	}
	r.Key(fmt.Sprintf("w10 v%d formed=%v", v, formed), formed)
	r.Obs("w10_formed", b2i(formed))
	r.Sig(core.Log.Signature())
	r.Sample(map[string]interface{}{"window": "idle timer fires while a redial completes", "variant": v, "formed": formed})
}

// w4: the closer is fired while the reconnect goroutine is about to swap the connection.
func (c14) w4(sc core.Scenario, r *core.R) {
	env := NewEnv(EnvOpt{})
	defer env.Shutdown()
	pol := noisePolicy(sc)
	var c *Client
	closed := make(chan struct{})
	var once sync.Once
	pol.Rules = append(pol.Rules, &core.Rule{Point: "ws.reconn.swap.before", Side: 1, Occ: 1, Do: func(jsonrpc.VerifEvent) {
		once.Do(func() { go func() { c.Close(); close(closed) }() })
		if sc.I("variant") == 1 {
			pol.WaitPoint("ws.stop.recv", 1, 0, 50*time.Millisecond)
		} else {
			time.Sleep(200 * time.Microsecond)
		}
	}})
	defer pol.Install()()
	var err error
	c, err = env.NewClient(ClientOpt{Opts: []jsonrpc.Option{jsonrpc.WithReconnectBackoff(2*time.Millisecond, 5*time.Millisecond), jsonrpc.WithPingInterval(5 * time.Millisecond)}})
	if err != nil {
		r.Inconclusive("client: %v", err)
		return
	}
	bg := context.Background()
	for i := 0; i < 4; i++ {
		t := Tok("q")
		go c.Echo(bg, t, strings.Repeat("x", 5000))
	}
	env.Px.KillAll(wsproxy.RST)
	formed := core.WaitCh(closed, core.Grace)
	if !formed && pol.Count("ws.reconn.swap.before", 1) > 0 {
		r.Violate("closer-hang", "closer fired at the connection swap did not return; events: %s", core.Log.Tail(30))
	}
	for _, e := range env.Px.ProtoErrors() {
		r.Violate("frame-corruption", "frame validator: %s", e)
	}
	r.Key(fmt.Sprintf("w4 v%d formed=%v", sc.I("variant"), formed), formed)
	r.Obs("w4_formed", b2i(formed))
	r.Sig(core.Log.Signature())
	r.Sample(map[string]interface{}{"window": "closer fired at the connection swap", "formed": formed})
}

// slowPeer: the server writes a response of many write buffers to a peer that reads slowly, so the
// writer stays busy for several seconds; a second call completes meanwhile and its response has to wait
// for the writer. Both responses must arrive whole, and nothing else may appear on the wire.
func (c14) slowPeer(sc core.Scenario, r *core.R) {
	// keepalive runs in both directions: server ping ticks queue up behind the busy writer; a client ping arrives every 2 s (each costs the server's reader up to a second while the pong waits for the write slot, so a higher rate would delay the second request itself)
	env := NewEnv(EnvOpt{ServerOpts: []jsonrpc.ServerOption{jsonrpc.WithServerPingInterval(100 * time.Millisecond)}})
	defer env.Shutdown()
	pol := noisePolicy(sc)
	writerBusy := make(chan struct{})
	var once sync.Once
	var armed int32
	pol.Rules = append(pol.Rules, &core.Rule{Point: "ws.writer.locked", Side: 2, Arg: "response", Do: func(jsonrpc.VerifEvent) {
		if atomic.LoadInt32(&armed) == 1 {
			once.Do(func() { close(writerBusy) })
		}
	}})
	defer pol.Install()()
	cl, err := env.NewClient(ClientOpt{Opts: []jsonrpc.Option{jsonrpc.WithNoReconnect(), jsonrpc.WithPingInterval(2 * time.Second)}})
	if err != nil {
		r.Inconclusive("client: %v", err)
		return
	}
	bg := context.Background()
	w := Tok("w")
	if v, err := cl.Echo(bg, w, ""); err != nil || v != svc.Reply(w) {
		r.Inconclusive("warm-up: %v", err)
		return
	}
	n := sc.I("mb") << 20
	env.Px.SetReadThrottle(wsproxy.S2C, 3<<20)
	bt := Tok("b")
	atomic.StoreInt32(&armed, 1)
	big := Go(bt, func() (string, error) { return cl.Big(bg, bt, n) })
	if !core.WaitCh(env.Svc.ExitedCh(bt), 2*core.Grace) || !core.WaitCh(writerBusy, 4*core.Grace) {
		r.Inconclusive("the large response never reached the writer")
		return
	}
	time.Sleep(300 * time.Millisecond) // the response is being written now
	start := time.Now()
	et := Tok("e")
	small := Go(et, func() (string, error) { return cl.Echo(bg, et, "") })
	if !big.Wait(8 * core.Grace) {
		r.Violate("response-lost:slow-peer", "the %d MiB response to a slowly reading peer never arrived; events: %s", sc.I("mb"), core.Log.Tail(20))
	} else if big.Err != nil || len(big.Val) != len(svc.Reply(bt))+1+n || !strings.HasPrefix(big.Val, svc.Reply(bt)) {
		r.Violate("response-corrupt:slow-peer", "the large response arrived as (len %d, %v)", len(big.Val), big.Err)
	}
	waited := time.Since(start)
	if !small.Wait(2 * core.Grace) {
		r.Violate("response-lost:behind-busy-writer", "the response of a call that completed while the writer was busy for %v with a large response never arrived; events: %s", waited.Round(100*time.Millisecond), core.Log.Tail(20))
	} else if small.Err != nil || small.Val != svc.Reply(et) {
		r.Violate("response-lost:behind-busy-writer", "the call that completed while the writer was busy returned (%q, %v)", core.Trunc(small.Val, 60), small.Err)
	}
	for _, e := range env.Px.ProtoErrors() {
		r.Violate("frame-corruption", "frame validator: %s", e)
	}
	for _, e := range env.Px.TornFrames() {
		r.Violate("frame-torn", "%s", e)
	}
	r.Key("slowpeer", waited > 2*time.Second)
	r.Obs("slow_writer_seconds", int64(waited/time.Second))
	r.Sig(core.Log.Signature())
	smallMs := int64(-1)
	if small.Returned() {
		smallMs = small.T1.Sub(start).Milliseconds()
	}
	r.Obs("second_response_waited_ms", smallMs)
	r.Sample(map[string]interface{}{"scenario": "second response queued behind a writer busy with a large response to a slow reader", "mb": sc.I("mb"), "large_response_took_ms": waited.Milliseconds(), "second_response_waited_ms": smallMs})
}

// closeBusy: the client is closed while one of its own writers (the response of a client-side handler
// to a reverse call) is in the middle of a message of many write buffers to a slowly reading peer.
// Whatever the client put on the wire must be whole messages.
func (c14) closeBusy(sc core.Scenario, r *core.R) {
	// no keepalive in either direction, see below
	env := NewEnv(EnvOpt{Rev: true, ServerOpts: []jsonrpc.ServerOption{jsonrpc.WithServerPingInterval(0)}})
	defer env.Shutdown()
	pol := noisePolicy(sc)
	writerBusy := make(chan struct{})
	var once sync.Once
	var armed int32
	pol.Rules = append(pol.Rules, &core.Rule{Point: "ws.writer.locked", Side: 1, Arg: "response", Do: func(jsonrpc.VerifEvent) {
		if atomic.LoadInt32(&armed) == 1 {
			once.Do(func() { close(writerBusy) })
		}
	}})
	defer pol.Install()()
	// no pings: a ping or pong forwarded to the client after it has closed makes its kernel answer with a reset
	// (TCPAbortOnData), which discards what the slow reader has not consumed yet - TCP behaviour towards a slow
	// reader, not a write the library got wrong
	// ... and, with keepalive off, no idle timeout either: on a loaded machine the throttled transfer can take
	// longer than the default 30 s, and a client that declares the silent link dead tears it down mid-frame
	cl, err := env.NewClient(ClientOpt{RevIdent: "A", Opts: []jsonrpc.Option{jsonrpc.WithNoReconnect(), jsonrpc.WithPingInterval(0), jsonrpc.WithTimeout(0)}})
	if err != nil {
		r.Inconclusive("client: %v", err)
		return
	}
	bg := context.Background()
	w := Tok("w")
	if v, err := cl.Echo(bg, w, ""); err != nil || v != svc.Reply(w) {
		r.Inconclusive("warm-up: %v", err)
		return
	}
	env.Px.SetReadThrottle(wsproxy.C2S, 4<<20)
	var bigSeen int32
	env.Px.SetObserver(func(fi wsproxy.FrameInfo, payload []byte) {
		if fi.Dir == wsproxy.C2S && fi.Msg != nil && fi.Msg.Len > 1<<20 {
			core.Log.Note("h.bigmsg", fmt.Sprintf("len=%d valid=%v", fi.Msg.Len, fi.Msg.Valid))
			if fi.Msg.Valid {
				atomic.AddInt32(&bigSeen, 1)
			}
		}
	})
	t := Tok("v")
	atomic.StoreInt32(&armed, 1)
	fwd := Go(t, func() (string, error) { return cl.Rev(bg, t, 1, 9) })
	if !core.WaitCh(cl.RevSvc.ExitedCh(t+".r0"), 2*core.Grace) || !core.WaitCh(writerBusy, 4*core.Grace) {
		r.Inconclusive("the client-side handler's response never reached the writer")
		return
	}
	time.Sleep(500 * time.Millisecond) // the response is being written to the slow reader now
	start := time.Now()
	closed := make(chan struct{})
	go func() { cl.Close(); close(closed) }()
	if !core.WaitCh(closed, 8*core.Grace) {
		r.Violate("closer-hang:busy-writer", "the closer did not return although the peer keeps reading (slowly)")
	}
	waited := time.Since(start)
	fwd.Wait(core.Grace)
	// the proxy reads on until the client's stream ends: everything the client wrote before closing
	ended := core.EventuallyProgress(2*core.Grace, func() int64 { return int64(env.Px.DataFrames(wsproxy.C2S)) }, func() bool { return env.Px.LiveConns() == 0 })
	time.Sleep(100 * time.Millisecond)
	if env.Px.Resets() > 0 {
		r.Inconclusive("the client's stream ended with a TCP reset: what the kernel discarded is unknown")
	} else if ended && atomic.LoadInt32(&bigSeen) == 0 && len(env.Px.TornFrames()) == 0 {
		r.Violate("frame-torn:close", "the client was closed while its writer was sending a large message; its stream ended without that message ever being completed on the wire; events: %s", core.Log.TailFiltered(40, "px.frame"))
	}
	for _, e := range env.Px.TornFrames() {
		r.Violate("frame-torn:close", "client closed while its writer was busy: %s; events: %s", e, core.Log.TailFiltered(30, "px.frame"))
	}
	for _, e := range env.Px.ProtoErrors() {
		r.Violate("frame-corruption", "frame validator: %s", e)
	}
	r.Key("close-busy", waited > 500*time.Millisecond)
	r.Obs("close_waited_ms", waited.Milliseconds())
	r.Obs("large_client_messages_whole", int64(atomic.LoadInt32(&bigSeen)))
	r.Sig(core.Log.Signature())
	r.Sample(map[string]interface{}{"scenario": "client closed while its writer is in the middle of a 24 MiB reverse-call response", "closer_waited_ms": waited.Milliseconds(), "large_messages_seen_whole": atomic.LoadInt32(&bigSeen)})
}

// unencodableResult: concurrent calls on one ws connection whose handlers return small results, 20 kB
// results and floats that encoding/json cannot encode (NaN, +Inf). Whatever the library does about the
// latter (it may leave those calls unanswered), every message on the wire is a whole JSON-RPC message and
// the ordinary calls get their answers.
func (c14) unencodableResult(sc core.Scenario, r *core.R) {
	env := NewEnv(EnvOpt{})
	defer env.Shutdown()
	defer noisePolicy(sc).Install()()
	c, err := env.NewClient(ClientOpt{})
	if err != nil {
		r.Inconclusive("client: %v", err)
		return
	}
	n := sc.I("workers")
	var outs []*Outcome
	var bads []*Outcome
	bg := context.Background()
	for i := 0; i < n; i++ {
		i := i
		switch i % 4 {
		case 0:
			t := Tok("e")
			outs = append(outs, Go(t, func() (string, error) { return c.Echo(bg, t, "") }))
		case 1:
			t := Tok("b")
			outs = append(outs, Go(t, func() (string, error) { return c.Big(bg, t, 20000) }))
		case 2:
			t := Tok("f")
			outs = append(outs, Go(t, func() (string, error) {
				v, err := c.Num(bg, t, 0)
				if err == nil && v != float64(len(t))+0.5 {
					return "", fmt.Errorf("wrong number %v", v)
				}
				return svc.Reply(t), err
			}))
		case 3:
			t := Tok("x")
			ctx, cancel := context.WithTimeout(bg, 1500*time.Millisecond)
			bads = append(bads, Go(t, func() (string, error) {
				defer cancel()
				v, err := c.Num(ctx, t, 1+i%2)
				if err == nil {
					return fmt.Sprint(v), nil
				}
				return "", err
			}))
		}
	}
	for _, o := range outs {
		if !o.Wait(core.Grace) {
			r.Violate("sibling-hang:unencodable", "call %s next to calls with unencodable results never returned", o.Tok)
		} else if o.Err != nil || !strings.HasPrefix(o.Val, svc.Reply(o.Tok)) {
			r.Violate("sibling-failed:unencodable", "call %s next to calls with unencodable results returned (%q, %v)", o.Tok, core.Trunc(o.Val, 40), o.Err)
		}
	}
	// the calls with unencodable results are not judged: NaN/Inf are outside what the properties promise (on
	// the pinned tree such a call is never answered and does not return even when its context ends); only
	// what they do to the wire and to their siblings is
	unanswered := 0
	for _, o := range bads {
		if !o.Wait(100 * time.Millisecond) {
			unanswered++
		}
	}
	r.Obs("unencodable_calls_unanswered", int64(unanswered))
	pt := Tok("p")
	po := Go(pt, func() (string, error) { return c.Echo(bg, pt, "") })
	if !po.Wait(core.Grace) || po.Err != nil {
		r.Violate("sibling-failed:unencodable", "a call after the unencodable results failed (returned=%v err=%v)", po.Returned(), po.Err)
	}
	for _, e := range env.Px.ProtoErrors() {
		r.Violate("frame-corrupt:unencodable", "%s", e)
	}
	for _, e := range env.Px.TornFrames() {
		r.Violate("frame-torn:unencodable", "%s", e)
	}
	r.Key(fmt.Sprintf("unencodable-result workers=%d", n), true)
	r.Obs("frames_validated", int64(len(env.Px.Frames())))
	r.Sig(core.Log.Signature())
	r.Sample(map[string]interface{}{"scenario": "unencodable results among concurrent calls", "calls": n, "frames_validated": len(env.Px.Frames())})
}
