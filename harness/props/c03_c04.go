package props

import (
	"bytes"
	"context"
	"fmt"
	"io"
	"net/http"
	"net/http/httptest"
	"strings"
	"sync"
	"sync/atomic"
	"time"

	jsonrpc "github.com/filecoin-project/go-jsonrpc"

	"vharness/core"
	"vharness/svc"
	"vharness/wsproxy"
)

// ---------------------------------------------------------------- C03

type c03 struct{}

func init() { core.Register(c03{}); core.Register(c04{}) }

func (c03) ID() string    { return "C03" }
func (c03) Level() string { return "fault_enumeration" }
func (c03) Race() bool    { return true }
func (c03) Rule() string {
	return "fault points enumerated as kind{FIN,RST,BLACKHOLE} x direction x data-frame ordinal (from the workload's frame census) x byte position class{before first byte, inside header, mid-payload, before last byte, after last byte}, each with calls in flight, issued right after the injection, issued inside the reconnect window (client parked at the redial hook) and after recovery; thorough adds double faults. Quick is a stratified seeded sample hitting every kind x direction x position cell. Distinct = (kind, direction, position class actually hit, window reached); non-trivial = the fault fired and at least one call was failed by it or was issued in the window. Oracle is clock-free: a call is lost iff it is outstanding, no handler runs for it and a later probe round-tripped on the same client (+ scheduling grace); token echo for every returned value."
}
func (c03) Assumptions() []string {
	return []string{"faults strike at the proxy's frame/byte granularity, not inside the kernel", "scheduling grace of 8 s covers goroutine scheduling under load", "STALL faults (peer stops reading, writes block) are exercised separately (window kind 'stall')"}
}
func (c03) Plan(tier string, seed int64) []core.Scenario {
	out := planFaults(tier, seed, "C03")
	// targeted windows
	nW := 6
	if tier == "thorough" {
		nW = 40
	}
	for i := 0; i < nW; i++ {
		out = append(out, core.Scenario{Kind: "w2", Seed: seed*7919 + int64(i), N: map[string]int{"variant": i % 3}, S: map[string]string{}})
		out = append(out, core.Scenario{Kind: "midframe", Seed: seed*7907 + int64(i), N: map[string]int{"variant": i % 4}, S: map[string]string{}})
	}
	nB := 2
	if tier == "thorough" {
		nB = 20
	}
	for i := 0; i < nB; i++ {
		out = append(out, core.Scenario{Kind: "busy-blackhole", Seed: seed*7873 + int64(i), N: map[string]int{"every": []int{100, 40}[i%2], "noise": i % 3}, S: map[string]string{}})
		out = append(out, core.Scenario{Kind: "busy-blackhole", Seed: seed*7873 + int64(i) + 500, N: map[string]int{"every": []int{100, 40}[i%2], "noise": i % 3, "midframe": 1}, S: map[string]string{}})
	}
	out = append(out, core.Scenario{Kind: "stalled-write", Seed: seed * 7867, N: map[string]int{"mb": 32}, S: map[string]string{}})
	if tier == "thorough" {
		// a stall of 13 s that heals while a large request is being written (default options: pings 5 s, timeout 30 s)
		out = append(out, core.Scenario{Kind: "healing-stall", Seed: seed * 7829, N: map[string]int{"mb": 32, "secs": 13}, S: map[string]string{}})
	}
	// a client without pings (WithPingInterval(0)) but with a timeout: the read deadline is its only detector
	for i := 0; i < 2; i++ {
		out = append(out, core.Scenario{Kind: "noping-blackhole", Seed: seed*7841 + int64(i), N: map[string]int{"inflight": 1 + i, "noise": i}, S: map[string]string{}})
	}
	// calls whose context is already done, or ends within milliseconds, issued while the link is down
	for i := 0; i < 3; i++ {
		out = append(out, core.Scenario{Kind: "done-ctx-outage", Seed: seed*7817 + int64(i), N: map[string]int{"fk": i % 2, "noise": i % 3, "n": 12}, S: map[string]string{}})
	}
	// the connection cut at internal steps of the library (hook points) instead of at frames on the wire
	out = append(out, planLossAt(tier, seed)...)
	// calls issued after the connection loop has ended: no-reconnect loss, closer, client context cancelled
	nE := 1
	if tier == "thorough" {
		nE = 8
	}
	for rep := 0; rep < nE; rep++ {
		for cause := 0; cause < len(faultKinds)+2; cause++ {
			out = append(out, core.Scenario{Kind: "ended", Seed: seed*7877 + int64(len(out)), N: map[string]int{"cause": cause, "noise": rep % 3}, S: map[string]string{}})
		}
	}
	return out
}
func (c03) Run(sc core.Scenario) core.Result {
	r3, r4 := core.NewR(sc), core.NewR(sc)
	switch sc.Kind {
	case "w2":
		runW2(sc, r3)
	case "midframe":
		runMidFrame(sc, r3)
	case "ended":
		runEnded(sc, r3)
	case "busy-blackhole":
		runBusyBlackhole(sc, r3)
	case "stalled-write":
		runStalledWrite(sc, r3)
	case "lossat":
		runLossAt(sc, r3)
	case "done-ctx-outage":
		runDoneCtxOutage(sc, r3)
	case "noping-blackhole":
		runNoPingBlackhole(sc, r3)
	case "healing-stall":
		runHealingStall(sc, r3)
	default:
		runFault(sc, r3, r4)
	}
	return r3.Result()
}

// runStalledWrite: the peer stops reading at the moment the client starts writing a request larger than
// the socket buffers (a silent stall striking while a request is written). The call must come back and the
// client must recover.
func runStalledWrite(sc core.Scenario, r *core.R) {
	env := NewEnv(EnvOpt{})
	defer env.Shutdown()
	pol := noisePolicy(sc)
	pol.Rules = append(pol.Rules, &core.Rule{Point: "ws.req.registered", Side: 1, Occ: 2, Do: func(jsonrpc.VerifEvent) { env.Px.KillAll(wsproxy.STALL) }})
	defer pol.Install()()
	cl, err := env.NewClient(ClientOpt{Opts: []jsonrpc.Option{jsonrpc.WithReconnectBackoff(5*time.Millisecond, 20*time.Millisecond), jsonrpc.WithPingInterval(50 * time.Millisecond), jsonrpc.WithTimeout(500 * time.Millisecond)}})
	if err != nil {
		r.Inconclusive("client: %v", err)
		return
	}
	bg := context.Background()
	w := Tok("w")
	cl.Echo(bg, w, "")
	t := Tok("b")
	big := Go(t, func() (string, error) { return cl.Echo(bg, t, strings.Repeat("p", sc.I("mb")<<20)) })
	pol.WaitPoint("ws.req.registered", 1, 1, 3*core.Grace)
	time.Sleep(300 * time.Millisecond)
	formed := pol.Count("ws.req.written", 1) < 2
	r.Key("stalled-write", formed)
	r.Obs("stalled_write_formed", b2i(formed))
	r.Sample(map[string]interface{}{"fault": "peer stops reading while a 32 MiB request is being written", "write_stalled": formed})
	if !formed {
		r.Inconclusive("the request was swallowed by the socket buffers")
		return
	}
	if !big.Wait(2 * core.Grace) {
		r.Violate("lost-call:stalled-write", "a call whose %d MiB request is stuck in write(2) to a peer that stopped reading is still blocked after %v (client timeout 500 ms); events: %s", sc.I("mb"), 2*core.Grace, core.Log.Tail(20))
		env.Px.KillAll(wsproxy.RST)
		return
	}
	if big.Err == nil {
		r.Violate("foreign-result", "the stalled call returned a value")
	}
	if !probeUntilHealthy(cl, r, 2*core.Grace) {
		r.Violate("lost-call:probe", "the client did not recover after a write stalled on a peer that stopped reading")
	}
}

// runBusyBlackhole: the peer falls silent while the application keeps issuing calls more often than
// the timeout. The calls pending on the dead link must still come back (the client notices the silent
// peer, fails them and reconnects): a later probe round-trip establishes that the link is healthy again.
func runBusyBlackhole(sc core.Scenario, r *core.R) {
	env := NewEnv(EnvOpt{ServerOpts: []jsonrpc.ServerOption{jsonrpc.WithServerPingInterval(50 * time.Millisecond)}})
	defer env.Shutdown()
	pol := noisePolicy(sc)
	defer pol.Install()()
	cl, err := env.NewClient(ClientOpt{Opts: []jsonrpc.Option{jsonrpc.WithReconnectBackoff(5*time.Millisecond, 20*time.Millisecond), jsonrpc.WithPingInterval(50 * time.Millisecond), jsonrpc.WithTimeout(400 * time.Millisecond)}})
	if err != nil {
		r.Inconclusive("client: %v", err)
		return
	}
	bg := context.Background()
	w := Tok("w")
	cl.Echo(bg, w, "")
	var mu sync.Mutex
	var calls []*Outcome
	stop := make(chan struct{})
	every := time.Duration(sc.I("every")) * time.Millisecond
	go func() {
		for {
			select {
			case <-stop:
				return
			case <-time.After(every):
				t := Tok("b")
				o := Go(t, func() (string, error) { return cl.Echo(bg, t, "") })
				mu.Lock()
				calls = append(calls, o)
				mu.Unlock()
			}
		}
	}()
	time.Sleep(3 * every)
	if sc.I("midframe") == 1 {
		// the silence begins in the middle of a frame of a large response
		env.Px.Arm(&wsproxy.Fault{Kind: wsproxy.BLACKHOLE, Dir: wsproxy.S2C, Pos: 2, Match: func(fi wsproxy.FrameInfo) bool { return fi.Len > 100000 }})
		t := Tok("b")
		o := Go(t, func() (string, error) { return cl.Big(bg, t, 1<<20) })
		mu.Lock()
		calls = append(calls, o)
		mu.Unlock()
		time.Sleep(100 * time.Millisecond)
	} else {
		env.Px.KillAll(wsproxy.BLACKHOLE)
	}
	core.Log.Note("h.fault.fired", "BLACKHOLE while calling")
	// the application keeps calling; the first call that went into the hole must come back
	time.Sleep(2 * every)
	mu.Lock()
	first := calls[len(calls)-1]
	mu.Unlock()
	returned := first.Wait(core.Grace)
	close(stop)
	if !returned {
		r.Violate("lost-call:inflight", "a call pending since the peer fell silent is still blocked after %v although the client's timeout is 400 ms (the application kept issuing a call every %v); events: %s", core.Grace, every, core.Log.Tail(30))
	}
	healthy := probeUntilHealthy(cl, r, core.Grace)
	if healthy {
		mu.Lock()
		cs := append([]*Outcome(nil), calls...)
		mu.Unlock()
		for _, o := range cs {
			if !o.Wait(core.Grace) {
				r.Violate("lost-call:after-fault", "call %s issued around a silent stall never returned although a later probe round-tripped", o.Tok)
				break
			}
			if o.Err == nil && o.Val != svc.Reply(o.Tok) {
				r.Violate("foreign-result", "call %s returned %q", o.Tok, o.Val)
			}
		}
	} else if returned {
		r.Inconclusive("link never healthy again")
	}
	mu.Lock()
	n := len(calls)
	mu.Unlock()
	r.Key(fmt.Sprintf("busy-blackhole every=%v", every), true)
	r.Obs("calls", int64(n))
	r.Sig(core.Log.Signature())
	r.Sample(map[string]interface{}{"fault": "BLACKHOLE while a call is issued every " + every.String(), "calls": n, "first_pending_call_returned": returned, "healthy_again": healthy})
}

// runEnded: once the client's connection loop has ended (loss on a no-reconnect client, closer,
// cancellation of the context the client was created with) calls must fail, not block.
func runEnded(sc core.Scenario, r *core.R) {
	env := NewEnv(EnvOpt{ServerOpts: []jsonrpc.ServerOption{jsonrpc.WithServerPingInterval(50 * time.Millisecond)}})
	defer env.Shutdown()
	pol := noisePolicy(sc)
	defer pol.Install()()
	cause := sc.I("cause")
	cctx, ccancel := context.WithCancel(context.Background())
	defer ccancel()
	opts := []jsonrpc.Option{jsonrpc.WithPingInterval(50 * time.Millisecond), jsonrpc.WithTimeout(400 * time.Millisecond)}
	name := ""
	if cause < len(faultKinds) {
		opts = append(opts, jsonrpc.WithNoReconnect())
		name = "no-reconnect+" + faultKinds[cause]
	} else if cause == len(faultKinds) {
		name = "closer"
	} else {
		name = "client-context-cancelled"
	}
	cl, err := env.NewClient(ClientOpt{Opts: opts, Ctx: cctx})
	if err != nil {
		r.Inconclusive("client: %v", err)
		return
	}
	bg := context.Background()
	h := Tok("h")
	env.Svc.Hold(h)
	held := Go(h, func() (string, error) { return cl.Echo(bg, h, "") })
	env.Svc.WaitEntered(h, core.Grace)
	switch {
	case cause < len(faultKinds):
		env.Px.KillAll(faultKinds[cause])
	case cause == len(faultKinds):
		done := make(chan struct{})
		go func() { cl.Close(); close(done) }()
		if !core.WaitCh(done, core.Grace) {
			r.Violate("lost-call:closer", "closer did not return")
		}
	default:
		ccancel()
	}
	if !held.Wait(core.Grace) {
		r.Violate("lost-call:inflight", "%s: the call in flight when the connection loop ended never returned; events: %s", name, core.Log.Tail(30))
	} else if held.Err == nil {
		r.Violate("foreign-result", "%s: held call returned %q without its handler finishing", name, held.Val)
	}
	env.Svc.ReleaseAll()
	blocked := 0
	for i := 0; i < 5; i++ {
		t := Tok("e")
		o := Go(t, func() (string, error) { return cl.Echo(bg, t, "") })
		if !o.Wait(core.Grace) {
			blocked++
			r.Violate("lost-call:after-end", "%s: call #%d issued after the client's connection loop ended blocks instead of failing; events: %s", name, i, core.Log.Tail(20))
			break
		}
		if o.Err == nil && o.Val != svc.Reply(t) {
			r.Violate("foreign-result", "%s: call after end returned %q", name, o.Val)
		}
	}
	r.Key("ended "+name, true)
	r.Obs("calls_after_loop_end", 5)
	r.Sig(core.Log.Signature())
	r.Sample(map[string]interface{}{"cause": name, "in_flight_returned": held.Returned(), "blocked_calls": blocked})
}

// runMidFrame: the response to a held call is cut in the middle of a frame
// (read error inside a frame), calls are then issued inside the reconnect
// window; once the link is healthy again none of them may still be blocked.
func runMidFrame(sc core.Scenario, r *core.R) {
	env := NewEnv(EnvOpt{})
	defer env.Shutdown()
	pol := &core.Policy{Seed: sc.Seed}
	gate := core.NewGate(3 * time.Second)
	pol.Rules = append(pol.Rules, &core.Rule{Point: "ws.reconn.dial", Side: 1, Occ: 1, Do: gate.Do})
	defer pol.Install()()
	defer gate.Release()
	cl, err := env.NewClient(ClientOpt{Opts: []jsonrpc.Option{jsonrpc.WithReconnectBackoff(5*time.Millisecond, 20*time.Millisecond)}})
	if err != nil {
		r.Inconclusive("client: %v", err)
		return
	}
	variant := sc.I("variant")
	// cut the first frame of a multi-frame response in the middle / before its last byte
	pos := 2
	if variant%2 == 1 {
		pos = 3
	}
	kind := wsproxy.FIN
	if variant >= 2 {
		kind = wsproxy.RST
	}
	fired := make(chan struct{})
	env.Px.Arm(&wsproxy.Fault{Kind: kind, Dir: wsproxy.S2C, Pos: pos, Match: func(fi wsproxy.FrameInfo) bool { return fi.Len > 10000 || (variant >= 2 && fi.Opcode == 0) }, OnFire: func() { close(fired) }})
	ctx := context.Background()
	tokA := Tok("m")
	a := Go(tokA, func() (string, error) { return cl.Big(ctx, tokA, 20000) })
	if !core.WaitCh(fired, core.Grace) {
		r.Inconclusive("mid-frame fault never fired")
		return
	}
	var win []*Outcome
	reached := core.WaitCh(gate.Reached, 3*time.Second)
	if reached {
		before := pol.Count("ws.req.accepted", 1)
		for i := 0; i < 3; i++ {
			t := Tok("w")
			win = append(win, Go(t, func() (string, error) { return cl.Echo(ctx, t, "") }))
		}
		pol.WaitPoint("ws.req.accepted", 1, before+2, 300*time.Millisecond)
	}
	gate.Release()
	healthy := false
	for i := 0; i < 400 && !healthy; i++ {
		t := Tok("p")
		p := Go(t, func() (string, error) { return cl.Echo(ctx, t, "") })
		if !p.Wait(core.Grace) {
			r.Violate("lost-call:probe", "probe after mid-frame cut neither returned nor failed; events: %s", core.Log.Tail(40))
			return
		}
		healthy = p.Err == nil && p.Val == svc.Reply(t)
		if !healthy {
			time.Sleep(10 * time.Millisecond)
		}
	}
	r.Key(fmt.Sprintf("midframe %s pos%d win=%v", kind, pos, reached), reached)
	r.Obs("window_entered", b2i(reached))
	r.Sig(core.Log.Signature())
	r.Sample(map[string]interface{}{"cut": "continuation frame of a 20 kB response", "kind": kind, "pos": pos, "calls_in_window": len(win)})
	if !healthy {
		r.Inconclusive("link never healthy again")
		return
	}
	if !a.Wait(core.Grace) {
		r.Violate("lost-call:inflight", "call whose response was cut mid-frame never returned; events: %s", core.Log.Tail(40))
	}
	for _, w := range win {
		if !w.Wait(core.Grace) {
			r.Violate("lost-call:window", "call %s issued in the reconnect window after a read error inside a frame never returned although a later probe round-tripped; events: %s", w.Tok, core.Log.Tail(50))
		} else if w.Err == nil && w.Val != svc.Reply(w.Tok) {
			r.Violate("foreign-result", "window call %s returned %q", w.Tok, w.Val)
		}
	}
}

// runW2: response ∥ cancel ∥ loss. The response for A is delivered into its
// mailbox while the caller has just chosen the cancel branch and the connection
// is lost at the same moment. Everything (that call, later calls, the closer)
// must still complete.
func runW2(sc core.Scenario, r *core.R) {
	env := NewEnv(EnvOpt{})
	defer env.Shutdown()
	pol := &core.Policy{Seed: sc.Seed}
	variant := sc.I("variant")
	ctxA, cancelA := context.WithCancel(context.Background())
	defer cancelA()
	// When the response for A has been delivered (mailbox full), hold the frame executor
	// until the main loop is inside the loss handling; cancel A's context right at delivery
	// and hold the caller in the cancel branch until the loss handling began.
	cut := func() { env.Px.KillAll(wsproxy.RST) }
	pol.Rules = append(pol.Rules,
		&core.Rule{Point: "ws.resp.deliver.before", Side: 1, Occ: 2, Do: func(jsonrpc.VerifEvent) {
			cancelA()
			// give the caller time to pick the cancel branch (it stalls at cl.cancel.before)
			pol.WaitPoint("cl.cancel.before", 0, 0, 200*time.Millisecond)
		}},
		&core.Rule{Point: "ws.resp.deliver.after", Side: 1, Occ: 2, Do: func(jsonrpc.VerifEvent) {
			cut()
			pol.WaitPoint("ws.reconn.begin", 1, 0, 300*time.Millisecond)
			if variant == 1 {
				time.Sleep(20 * time.Millisecond)
			}
		}},
		&core.Rule{Point: "cl.cancel.before", Occ: 1, Do: func(jsonrpc.VerifEvent) {
			pol.WaitPoint("ws.reconn.begin", 1, 0, 300*time.Millisecond)
			if variant == 2 {
				time.Sleep(5 * time.Millisecond)
			}
		}},
	)
	defer pol.Install()()
	cl, err := env.NewClient(ClientOpt{Opts: []jsonrpc.Option{jsonrpc.WithReconnectBackoff(5*time.Millisecond, 20*time.Millisecond)}})
	if err != nil {
		r.Inconclusive("client: %v", err)
		return
	}
	ctx := context.Background()
	warm := Tok("w")
	if v, err := cl.Echo(ctx, warm, ""); err != nil || v != svc.Reply(warm) { // occurrence 1 of deliver
		r.Inconclusive("warm-up failed: %v", err)
		return
	}
	tokA := Tok("a")
	a := Go(tokA, func() (string, error) { return cl.Echo(ctxA, tokA, "") })
	aRet := a.Wait(core.Grace)
	// later calls + closer must complete
	later := []*Outcome{}
	for i := 0; i < 3; i++ {
		t := Tok("l")
		later = append(later, Go(t, func() (string, error) { return cl.Echo(ctx, t, "") }))
	}
	hung := 0
	for _, l := range later {
		if !l.Wait(core.Grace) {
			hung++
		}
	}
	closed := make(chan struct{})
	go func() { cl.Close(); close(closed) }()
	closerOK := core.WaitCh(closed, core.Grace)
	win := pol.Count("ws.reconn.begin", 1) > 0 && pol.Count("cl.cancel.before", 0) > 0
	r.Key(fmt.Sprintf("w2 v%d window=%v", variant, win), win)
	r.Obs("w2_window_formed", b2i(win))
	r.Sig(core.Log.Signature())
	r.Sample(map[string]interface{}{"window": "response delivered ∥ caller cancelled ∥ connection lost", "formed": win, "a_returned": aRet, "later_hung": hung, "closer_returned": closerOK})
	if !aRet {
		r.Violate("w2-deadlock", "call %s never returned in window W2 (response ∥ cancel ∥ loss); events: %s", tokA, core.Log.Tail(40))
	}
	if hung > 0 {
		r.Violate("w2-deadlock", "%d later calls never returned after window W2; events: %s", hung, core.Log.Tail(40))
	}
	if !closerOK {
		r.Violate("w2-deadlock", "closer never returned after window W2; events: %s", core.Log.Tail(40))
	}
	if !win {
		r.Inconclusive("window W2 did not form")
	}
}

// ---------------------------------------------------------------- C04

type c04 struct{}

func (c04) ID() string    { return "C04" }
func (c04) Level() string { return "fault_enumeration" }
func (c04) Race() bool    { return true }
func (c04) Rule() string {
	return "same fault enumeration as C03 (kind x direction x frame ordinal x byte position, calls in flight / right after / in the reconnect window / after recovery) plus fault-free ws/http/custom runs and HTTP byte-position cuts; per unique call token the handler entry counter and the request frames seen by the proxy are compared with what the caller received. Distinct = (kind, direction, position class, window) or (transport, lane); non-trivial = a call was affected by the fault, or >= 10 calls of each kind executed. The retry-tagged lane is the contrast: the monitor must see re-sent frames there, otherwise the run is inconclusive."
}
func (c04) Assumptions() []string {
	return []string{"tokens travel in the params so re-sends are visible to the proxy even when ids change", "handlers are idempotent counters; execution = entry into the handler method"}
}
func (c04) Plan(tier string, seed int64) []core.Scenario {
	out := planFaults(tier, seed+17, "C04")
	n := 1
	if tier == "thorough" {
		n = 6
	}
	for i := 0; i < n; i++ {
		for _, tr := range []string{"ws", "http", "custom"} {
			out = append(out, core.Scenario{Kind: "plain", Seed: seed + int64(i), S: map[string]string{"transport": tr}, N: map[string]int{"i": i}})
		}
	}
	cuts := 24
	if tier == "thorough" {
		cuts = 200
	}
	for i := 0; i < 2*n; i++ {
		// concurrent calls with large, token-derived arguments: one execution per call, its own result
		out = append(out, core.Scenario{Kind: "bigmix", Seed: seed*37 + int64(i), N: map[string]int{"workers": 4 + 4*(i%2), "same": 1, "noise": i % 3}, S: map[string]string{"transport": "ws"}})
		// calls whose context is cancelled before or just after they are issued, with arguments that take a
		// while to decode: whatever the server answers, it must have executed the handler for it
		out = append(out, core.Scenario{Kind: "cancelled-big", Seed: seed*41 + int64(i), N: map[string]int{"mb": 2 + i%2, "noise": i % 3}, S: map[string]string{}})
	}
	// notifications whose caller releases its context as soon as the call has returned (ctx, cancel := ...;
	// defer cancel()): a notification that was reported sent executes exactly once
	for i, tr := range []string{"http", "ws", "http", "custom"} {
		out = append(out, core.Scenario{Kind: "note-then-cancel", Seed: seed*43 + int64(i), N: map[string]int{"n": 60, "noise": i % 3}, S: map[string]string{"transport": tr}})
	}
	// an intermediary that has forwarded the request and then answers with a gateway error of its own
	for i, code := range []int{502, 503, 504, 500, 429} {
		out = append(out, core.Scenario{Kind: "gateway-error", Seed: seed*47 + int64(i), N: map[string]int{"code": code, "noise": i % 3}, S: map[string]string{}})
	}
	for i := 0; i < cuts; i++ {
		out = append(out, core.Scenario{Kind: "httpcut", Seed: seed*31 + int64(i), N: map[string]int{"dir": i % 2, "after": 1 + (i/2)*13%400, "fk": i % 3}, S: map[string]string{}})
	}
	return out
}
func (c04) Finalize(obs map[string]int64) string {
	if obs["retry_resends_seen"] == 0 {
		return "the retry-tagged contrast lane never showed a re-sent request frame: the re-send monitor may be blind"
	}
	return ""
}
func (c04) Run(sc core.Scenario) core.Result {
	r3, r4 := core.NewR(sc), core.NewR(sc)
	switch sc.Kind {
	case "plain":
		runPlain04(sc, r4)
	case "httpcut":
		runHTTPCut04(sc, r4)
	case "bigmix":
		c02{}.bigMix(sc, r4)
	case "cancelled-big":
		runCancelledBig04(sc, r4)
	case "note-then-cancel":
		runNoteThenCancel04(sc, r4)
	case "gateway-error":
		runGatewayError04(sc, r4)
	default:
		runFault(sc, r3, r4)
	}
	return r4.Result()
}

// customDo is the README's custom transport: HandleRequest through a buffer.
func customDo(rpc *jsonrpc.RPCServer) func(ctx context.Context, body []byte) (io.ReadCloser, error) {
	return func(ctx context.Context, body []byte) (io.ReadCloser, error) {
		var buf bytes.Buffer
		rpc.HandleRequest(ctx, bytes.NewReader(body), &buf)
		return io.NopCloser(&buf), nil
	}
}

func customClient(rpc *jsonrpc.RPCServer, out *svc.Client, opts ...jsonrpc.Option) (jsonrpc.ClientCloser, error) {
	return jsonrpc.NewCustomClient("S", []interface{}{out}, customDo(rpc), opts...)
}

// recordingRT records request and response bodies of an http client.
type recordingRT struct {
	mu   sync.Mutex
	reqs []string
	resp []string
}

func (rt *recordingRT) RoundTrip(rq *http.Request) (*http.Response, error) {
	var body []byte
	if rq.Body != nil {
		body, _ = io.ReadAll(rq.Body)
		rq.Body = io.NopCloser(bytes.NewReader(body))
	}
	resp, err := http.DefaultTransport.RoundTrip(rq)
	if err != nil {
		return resp, err
	}
	rb, _ := io.ReadAll(resp.Body)
	resp.Body = io.NopCloser(bytes.NewReader(rb))
	rt.mu.Lock()
	rt.reqs = append(rt.reqs, string(body))
	rt.resp = append(rt.resp, string(rb))
	rt.mu.Unlock()
	return resp, nil
}

func runPlain04(sc core.Scenario, r *core.R) {
	tr := sc.Str("transport")
	env := NewEnv(EnvOpt{})
	defer env.Shutdown()
	var cl svc.Client
	var closer jsonrpc.ClientCloser
	var err error
	rec := &recordingRT{}
	if tr == "custom" {
		closer, err = jsonrpc.NewCustomClient("S", []interface{}{&cl}, func(ctx context.Context, body []byte) (io.ReadCloser, error) {
			var buf bytes.Buffer
			env.RPC.HandleRequest(ctx, bytes.NewReader(body), &buf)
			rec.mu.Lock()
			rec.reqs = append(rec.reqs, string(body))
			rec.resp = append(rec.resp, buf.String())
			rec.mu.Unlock()
			return io.NopCloser(&buf), nil
		})
	} else if tr == "http" {
		var c *Client
		c, err = env.NewClient(ClientOpt{Transport: tr, Opts: []jsonrpc.Option{jsonrpc.WithHTTPClient(&http.Client{Transport: rec})}})
		if c != nil {
			cl = c.Client
			closer = c.Close
		}
	} else {
		var c *Client
		c, err = env.NewClient(ClientOpt{Transport: tr})
		if c != nil {
			cl = c.Client
			closer = c.Close
		}
	}
	if err != nil {
		r.Inconclusive("client: %v", err)
		return
	}
	defer closer()
	ctx := context.Background()
	n := 40
	var toks, notes []string
	for i := 0; i < n; i++ {
		t := Tok("e")
		v, err := cl.Echo(ctx, t, "")
		if err != nil || v != svc.Reply(t) {
			r.Violate("plain-call-failed", "%s Echo(%s) = %q, %v", tr, t, v, err)
		}
		toks = append(toks, t)
		t = Tok("f")
		_, err = cl.Fail(ctx, t)
		if err == nil || !strings.Contains(err.Error(), svc.ErrText(t)) {
			r.Violate("plain-call-failed", "%s Fail(%s) err=%v", tr, t, err)
		}
		toks = append(toks, t)
		t = Tok("n")
		if err := cl.Note(ctx, t); err != nil {
			r.Violate("plain-notify-failed", "%s Note(%s) err=%v", tr, t, err)
		}
		notes = append(notes, t)
	}
	// notifications whose handler fails: still no id, still no reply
	var failNotes []string
	for i := 0; i < 10; i++ {
		t := Tok("n")
		if err := cl.NoteFail(ctx, t); err != nil {
			r.Violate("plain-notify-failed", "%s NoteFail(%s) err=%v (a notification returns no handler error to the caller)", tr, t, err)
		}
		failNotes = append(failNotes, t)
	}
	notes = append(notes, failNotes...)
	// what went over the wire for notification-tagged calls (http / custom: bodies are recorded)
	rec.mu.Lock()
	for i, rq := range rec.reqs {
		if !strings.Contains(rq, `"method":"S.Note`) {
			continue
		}
		r.Obs("notification_exchanges_inspected", 1)
		if strings.Contains(rq, `"id"`) {
			r.Violate("notify-with-id", "%s: a notification-tagged call was sent with an id: %s", tr, core.Trunc(rq, 160))
		}
		if strings.TrimSpace(rec.resp[i]) != "" {
			r.Violate("notification-answered", "%s: a notification-tagged call yielded a response body: request %s -> reply %s", tr, core.Trunc(rq, 120), core.Trunc(rec.resp[i], 160))
		}
	}
	rec.mu.Unlock()
	// a final id-bearing call on ws flushes earlier notifications through the sequential executor
	last := Tok("z")
	cl.Echo(ctx, last, "")
	toks = append(toks, last)
	for _, t := range toks {
		if e := env.Svc.Enters(t); e != 1 {
			r.Violate("exec-count", "%s: call %s executed %d times on a healthy link", tr, t, e)
		}
	}
	for _, t := range notes {
		t := t
		if !core.Eventually(core.Grace, func() bool { return env.Svc.Enters(t) >= 1 }) {
			r.Violate("notify-lost", "%s: notification %s never executed on a healthy link", tr, t)
		}
	}
	time.Sleep(20 * time.Millisecond)
	for _, t := range notes {
		if e := env.Svc.Enters(t); e > 1 {
			r.Violate("notify-multi", "%s: notification %s executed %d times", tr, t, e)
		}
	}
	if env.Px != nil && tr == "ws" {
		ids, resp, noteIDs := 0, 0, 0
		for _, f := range env.Px.Frames() {
			if f.Msg == nil || !f.Msg.Valid {
				continue
			}
			if f.Dir == wsproxy.C2S && f.Msg.Method != "" {
				if f.Msg.ID != "" && f.Msg.ID != "null" {
					ids++
					if f.Msg.Method == "S.Note" {
						noteIDs++
					}
				}
			}
			if f.Dir == wsproxy.S2C && f.Msg.Method == "" {
				resp++
			}
		}
		if noteIDs > 0 {
			r.Violate("notify-with-id", "%d notification frames carried an id", noteIDs)
		}
		if resp != ids {
			r.Violate("response-count", "ws: %d id-bearing requests but %d response frames (a notification must never yield a response)", ids, resp)
		}
		r.Obs("ws_requests_with_id", int64(ids))
		r.Obs("ws_response_frames", int64(resp))
	}
	r.Key("plain "+tr+fmt.Sprint(sc.I("i")), true)
	r.Obs("calls", int64(3*n+1))
	r.Obs("handler_entries", env.Svc.Total())
	r.Obs("retry_resends_seen", 0)
	r.Sample(map[string]interface{}{"transport": tr, "calls": 3*n + 1, "handler_entries": env.Svc.Total()})
}

// runHTTPCut04: plain HTTP transport, the TCP stream is cut after N bytes in one direction.
func runHTTPCut04(sc core.Scenario, r *core.R) {
	env := NewEnv(EnvOpt{})
	defer env.Shutdown()
	c, err := env.NewClient(ClientOpt{Transport: "http"})
	if err != nil {
		r.Inconclusive("client: %v", err)
		return
	}
	kind := []string{wsproxy.FIN, wsproxy.RST, wsproxy.FIN}[sc.I("fk")]
	rf := &wsproxy.RawFault{Dir: wsproxy.Dir(sc.I("dir")), After: int64(sc.I("after")), Kind: kind}
	env.Px.ArmRaw(rf)
	ctx, cancel := context.WithTimeout(context.Background(), 2*core.Grace)
	defer cancel()
	affected := 0
	for i := 0; i < 4; i++ {
		t := Tok("c")
		o := Go(t, func() (string, error) { return c.Echo(ctx, t, strings.Repeat("q", 100)) })
		if !o.Wait(3 * core.Grace) {
			r.Violate("http-hang", "http call %s never returned after %s cut at byte %d dir %d", t, kind, sc.I("after"), sc.I("dir"))
			break
		}
		n := env.Svc.Enters(t)
		if o.Err != nil {
			affected++
		}
		if n > 1 {
			r.Violate("multi-exec:http", "http call %s executed %d times (cut %s after %d bytes dir %d, err=%v)", t, n, kind, sc.I("after"), sc.I("dir"), o.Err)
		}
		if o.Err == nil && (o.Val != svc.Reply(t) || n != 1) {
			r.Violate("answer-without-exec", "http call %s returned %q with %d executions", t, o.Val, n)
		}
	}
	r.Key(fmt.Sprintf("httpcut %s dir%d fired=%v", kind, sc.I("dir"), rf.Fired()), rf.Fired() && affected > 0)
	if rf.Fired() {
		r.AddKey(fmt.Sprintf("httpcut after=%d dir=%d %s", sc.I("after"), sc.I("dir"), kind))
	}
	r.Obs("calls", 4)
	r.Obs("http_calls_failed_by_cut", int64(affected))
	r.Obs("handler_entries", env.Svc.Total())
	r.Sample(map[string]interface{}{"transport": "http", "cut": kind, "after_bytes": sc.I("after"), "dir": sc.I("dir"), "failed_calls": affected})
}

// runCancelledBig04: exactly-once-on-answer for calls that are cancelled around the moment they are issued.
// The oracle works on the wire: if the proxy saw a response frame for the request that carried the call's
// token, the handler for that token ran exactly once; no response frame, then at most once.
func runCancelledBig04(sc core.Scenario, r *core.R) {
	env := NewEnv(EnvOpt{})
	defer env.Shutdown()
	env.Px.KeepFrames, env.Px.MaxKeep = true, 4000
	pol := noisePolicy(sc)
	defer pol.Install()()
	cl, err := env.NewClient(ClientOpt{})
	if err != nil {
		r.Inconclusive("client: %v", err)
		return
	}
	bg := context.Background()
	pad := strings.Repeat("c", sc.I("mb")<<20)
	type call struct {
		tok     string
		variant int
		o       *Outcome
	}
	var calls []call
	for i := 0; i < 8; i++ {
		t := Tok("c")
		ctx, cancel := context.WithCancel(bg)
		v := i % 4
		switch v {
		case 0:
			cancel()
		case 1:
			go cancel()
		case 2:
			go func() { time.Sleep(200 * time.Microsecond); cancel() }()
		case 3:
			go func() { time.Sleep(3 * time.Millisecond); cancel() }()
		}
		o := Go(t, func() (string, error) { return cl.Mirror(ctx, t, pad) })
		if !o.Wait(2 * core.Grace) {
			r.Violate("lost-call:cancelled-big", "a call cancelled around its start (variant %d) with a %d MiB argument never returned", v, sc.I("mb"))
			cancel()
			break
		}
		cancel()
		calls = append(calls, call{t, v, o})
	}
	probeUntilHealthy(cl, r, core.Grace) // everything the server sent before the probe's answer has passed the proxy
	frames := env.Px.Frames()
	answeredN := 0
	for _, c := range calls {
		id, conn := "", 0
		for _, f := range frames {
			if f.Dir == wsproxy.C2S && f.Msg != nil && f.Msg.Token == c.tok && f.Msg.Method == "S.Mirror" {
				id, conn = f.Msg.ID, f.ConnN
			}
		}
		answered := ""
		if id != "" {
			for _, f := range frames {
				if f.Dir == wsproxy.S2C && f.ConnN == conn && f.Msg != nil && f.Msg.Method == "" && f.Msg.ID == id {
					answered = fmt.Sprintf("result=%v error=%v %s", f.Msg.HasResult, f.Msg.HasError, core.Trunc(f.Msg.Result, 40))
				}
			}
		}
		n := env.Svc.Enters(c.tok)
		r.Obs("cancelled_calls", 1)
		if answered != "" {
			answeredN++
			if n != 1 {
				r.Violate("answered-not-executed", "call %s (cancel variant %d, request id %s) was answered by the server (%s; caller saw (%q, %v)) but its handler ran %d times", c.tok, c.variant, id, answered, core.Trunc(c.o.Val, 30), c.o.Err, n)
			}
		} else if n > 1 {
			r.Violate("executed-twice", "call %s ran %d times", c.tok, n)
		}
		if c.o.Err == nil && c.o.Val != svc.MirrorOf(c.tok, pad) {
			r.Violate("foreign-result", "call %s returned a value that is not the mirror of its argument (len %d)", c.tok, len(c.o.Val))
		}
	}
	r.Key(fmt.Sprintf("cancelled-big mb=%d", sc.I("mb")), answeredN > 0)
	r.Obs("cancelled_calls_answered", int64(answeredN))
	r.Sig(core.Log.Signature())
	r.Sample(map[string]interface{}{"scenario": "calls cancelled around their start, multi-MiB arguments", "calls": len(calls), "answered_on_the_wire": answeredN})
}

// runNoPingBlackhole: pings are switched off, a timeout is configured; the peer falls silent with calls in
// flight. The calls must come back and calls issued later must work again (or fail promptly).
func runNoPingBlackhole(sc core.Scenario, r *core.R) {
	env := NewEnv(EnvOpt{ServerOpts: []jsonrpc.ServerOption{jsonrpc.WithServerPingInterval(0)}})
	defer env.Shutdown()
	pol := noisePolicy(sc)
	defer pol.Install()()
	cl, err := env.NewClient(ClientOpt{Opts: []jsonrpc.Option{jsonrpc.WithPingInterval(0), jsonrpc.WithTimeout(500 * time.Millisecond), jsonrpc.WithReconnectBackoff(5*time.Millisecond, 20*time.Millisecond)}})
	if err != nil {
		r.Inconclusive("client: %v", err)
		return
	}
	bg := context.Background()
	var held []*Outcome
	for i := 0; i < sc.I("inflight"); i++ {
		t := Tok("h")
		env.Svc.Hold(t)
		held = append(held, Go(t, func() (string, error) { return cl.Echo(bg, t, "") }))
		if !env.Svc.WaitEntered(t, core.Grace) {
			r.Inconclusive("held call never reached its handler (the ping-less link may just have been re-dialled)")
			return
		}
	}
	env.Px.KillAll(wsproxy.BLACKHOLE)
	for _, o := range held {
		if !o.Wait(core.Grace) {
			r.Violate("lost-call:noping", "pings off, timeout 500 ms: a call in flight when the peer fell silent is still blocked after %v", core.Grace)
		} else if o.Err == nil {
			r.Violate("foreign-result", "call across a black hole returned %q", o.Val)
		}
	}
	env.Svc.ReleaseAll()
	if !probeUntilHealthy(cl, r, 2*core.Grace) {
		r.Violate("lost-call:probe", "pings off, timeout 500 ms: the client never became usable again after the peer fell silent")
	}
	r.Key(fmt.Sprintf("noping-blackhole inflight=%d", sc.I("inflight")), true)
	r.Obs("calls", int64(len(held)))
	r.Sig(core.Log.Signature())
	r.Sample(map[string]interface{}{"scenario": "black hole on a client without pings", "calls_in_flight": len(held)})
}

// runHealingStall: the path from client to server stalls for a while (shorter than the timeout) while a request
// larger than the socket buffers is being written, then heals. Nothing was lost, so the big call returns its
// result and the connection keeps working.
func runHealingStall(sc core.Scenario, r *core.R) {
	env := NewEnv(EnvOpt{})
	defer env.Shutdown()
	cl, err := env.NewClient(ClientOpt{})
	if err != nil {
		r.Inconclusive("client: %v", err)
		return
	}
	bg := context.Background()
	w := Tok("w")
	if v, err := cl.Echo(bg, w, ""); err != nil || v != svc.Reply(w) {
		r.Inconclusive("warm-up: %v", err)
		return
	}
	env.Px.SetPause(wsproxy.C2S, true)
	t := Tok("b")
	big := Go(t, func() (string, error) { return cl.Echo(bg, t, strings.Repeat("p", sc.I("mb")<<20)) })
	time.Sleep(time.Duration(sc.I("secs")) * time.Second)
	accBefore := env.Px.Accepts()
	env.Px.SetPause(wsproxy.C2S, false)
	where := fmt.Sprintf("client-to-server path stalled for %d s (pings 5 s, timeout 30 s) while a %d MiB request was being written, then healed", sc.I("secs"), sc.I("mb"))
	if !big.Wait(5 * core.Grace) {
		r.Violate("lost-call:healed-stall", "%s: the big call is still blocked %v after the path healed; events: %s", where, 5*core.Grace, core.Log.TailFiltered(20, "px.frame"))
	} else if big.Err != nil && env.Px.Accepts() == accBefore {
		r.Violate("lost-call:healed-stall", "%s: the big call failed (%v) although the connection was never lost", where, big.Err)
	}
	t2 := Tok("s")
	small := Go(t2, func() (string, error) { return cl.Echo(bg, t2, "") })
	if !small.Wait(2 * core.Grace) {
		r.Violate("lost-call:healed-stall", "%s: a later small call blocks on the healed link", where)
	}
	if !probeUntilHealthy(cl, r, 2*core.Grace) {
		r.Violate("lost-call:probe", "%s: the client is not usable afterwards", where)
	}
	r.Key("healing-stall", true)
	r.Obs("calls", 3)
	r.Sample(map[string]interface{}{"scenario": where, "big_call_error": errStr(big.Err), "redials": env.Px.Accepts() - accBefore})
}

// runNoteThenCancel04: every notification is made with its own context, which the caller cancels the moment
// the call has returned (the usual defer cancel()). On a healthy connection each notification that returned
// nil must have executed exactly once.
func runNoteThenCancel04(sc core.Scenario, r *core.R) {
	tr := sc.Str("transport")
	env := NewEnv(EnvOpt{NoProxy: true})
	defer env.Shutdown()
	defer noisePolicy(sc).Install()()
	var cl *Client
	var err error
	if tr == "custom" {
		cl = &Client{}
		var closer jsonrpc.ClientCloser
		closer, err = jsonrpc.NewCustomClient("S", []interface{}{&cl.Client}, customDo(env.RPC))
		if err == nil {
			defer closer()
		}
	} else {
		cl, err = env.NewClient(ClientOpt{Transport: tr})
	}
	if err != nil {
		r.Inconclusive("client: %v", err)
		return
	}
	n := sc.I("n")
	var toks []string
	sent := 0
	for i := 0; i < n; i++ {
		t := Tok("n")
		ctx, cancel := context.WithCancel(context.Background())
		err := cl.Note(ctx, t)
		cancel()
		if err != nil {
			r.Violate("notification-failed", "%s: notification %s on a healthy connection returned %v", tr, t, err)
			continue
		}
		sent++
		toks = append(toks, t)
	}
	// a round trip behind the notifications, then a bounded wait for stragglers
	p := Tok("p")
	cl.Echo(context.Background(), p, "")
	lost, multi := 0, 0
	deadline := time.Now().Add(core.Grace)
	for _, t := range toks {
		for env.Svc.Enters(t) == 0 && time.Now().Before(deadline) {
			time.Sleep(time.Millisecond)
		}
		switch k := env.Svc.Enters(t); {
		case k == 0:
			lost++
			if lost <= 2 {
				r.Violate("notification-not-executed", "%s: notification %s returned nil to its caller (who then released the context) but its handler never ran", tr, t)
			}
		case k > 1:
			multi++
			r.Violate("multi-exec:note", "%s: notification %s executed %d times", tr, t, k)
		}
	}
	r.Key(fmt.Sprintf("note-then-cancel %s", tr), sent > 0)
	r.Obs("notifications", int64(sent))
	r.Obs("notifications_lost", int64(lost))
	r.Sample(map[string]interface{}{"scenario": "notification whose context is released right after the call returned", "transport": tr, "sent": sent, "executed_once": sent - lost - multi})
}

// runDoneCtxOutage: the link goes down and redials are refused for a while; meanwhile calls are made with
// contexts that are already cancelled or expire within a few milliseconds, next to ordinary calls. Every
// call returns, the client heals once the peer is reachable again, later calls work and the closer returns.
func runDoneCtxOutage(sc core.Scenario, r *core.R) {
	kind := []string{wsproxy.RST, wsproxy.FIN}[sc.I("fk")]
	env := NewEnv(EnvOpt{})
	defer env.Shutdown()
	defer noisePolicy(sc).Install()()
	cl, err := env.NewClient(ClientOpt{Opts: []jsonrpc.Option{jsonrpc.WithReconnectBackoff(5*time.Millisecond, 20*time.Millisecond)}})
	if err != nil {
		r.Inconclusive("client: %v", err)
		return
	}
	bg := context.Background()
	w := Tok("w")
	cl.Echo(bg, w, "")
	env.Px.SetRefuse(true)
	env.Px.KillAll(kind)
	time.Sleep(10 * time.Millisecond)
	var outs []*Outcome
	for i := 0; i < sc.I("n"); i++ {
		t := Tok("d")
		var ctx context.Context
		var cancel context.CancelFunc
		switch i % 3 {
		case 0:
			ctx, cancel = context.WithCancel(bg)
			cancel()
		case 1:
			ctx, cancel = context.WithTimeout(bg, time.Duration(1+i)*time.Millisecond)
		default:
			ctx, cancel = context.WithCancel(bg)
		}
		defer cancel()
		outs = append(outs, Go(t, func() (string, error) { return cl.Echo(ctx, t, "") }))
		time.Sleep(2 * time.Millisecond)
	}
	time.Sleep(150 * time.Millisecond)
	env.Px.SetRefuse(false)
	where := fmt.Sprintf("%s, redials refused for 150 ms, %d calls with done / expiring / live contexts issued meanwhile", kind, len(outs))
	healthy := probeUntilHealthy(cl, r, 2*core.Grace)
	if !healthy {
		r.Violate("lost-call:probe", "%s: the client did not become usable again; events: %s", where, core.Log.Tail(30))
	}
	blocked := 0
	for _, o := range outs {
		if blocked >= 2 && !o.Returned() {
			continue
		}
		if !o.Wait(core.Grace) {
			blocked++
			r.Violate("lost-call:done-ctx", "%s: call %s never returned; events: %s", where, o.Tok, core.Log.Tail(30))
			continue
		}
		if o.Err == nil && o.Val != svc.Reply(o.Tok) {
			r.Violate("foreign-result", "%s: call %s returned %q", where, o.Tok, core.Trunc(o.Val, 80))
		}
		if n := env.Svc.Enters(o.Tok); n > 1 {
			r.Violate("executed-twice", "%s: the handler of call %s ran %d times", where, o.Tok, n)
		}
	}
	done := make(chan struct{})
	go func() { cl.Close(); close(done) }()
	if !core.WaitCh(done, core.Grace) {
		r.Violate("lost-call:closer", "%s: the closer did not return", where)
	}
	r.Key(fmt.Sprintf("done-ctx-outage %s", kind), true)
	r.Obs("calls", int64(len(outs)))
	r.Sig(core.Log.Signature())
	r.Sample(map[string]interface{}{"scenario": "calls with done or expiring contexts during an outage", "kind": kind, "calls": len(outs)})
}

// runGatewayError04: the http client talks to the server through an intermediary which forwards every
// request, lets the server execute it, and then answers the client with an error status of its own (the
// response was lost behind a gateway: 502/503/504, or 500/429). The library must not send the request
// again on its own: plain calls, notifications and failing calls execute exactly once.
func runGatewayError04(sc core.Scenario, r *core.R) {
	code := sc.I("code")
	env := NewEnv(EnvOpt{NoProxy: true})
	defer env.Shutdown()
	backend := "http://" + env.TS.Listener.Addr().String()
	var forwarded int64
	gw := httptest.NewServer(http.HandlerFunc(func(w http.ResponseWriter, q *http.Request) {
		body, _ := io.ReadAll(q.Body)
		resp, err := http.Post(backend, "application/json", bytes.NewReader(body))
		if err == nil {
			io.Copy(io.Discard, resp.Body)
			resp.Body.Close()
		}
		atomic.AddInt64(&forwarded, 1)
		http.Error(w, "upstream response lost", code)
	}))
	defer gw.Close()
	var cl Client
	closer, err := jsonrpc.NewMergeClient(context.Background(), gw.URL, "S", []interface{}{&cl.Client}, nil)
	if err != nil {
		r.Inconclusive("client: %v", err)
		return
	}
	defer closer()
	bg := context.Background()
	type one struct {
		tok  string
		kind string
		o    *Outcome
	}
	var all []one
	for i := 0; i < 4; i++ {
		t := Tok("g")
		all = append(all, one{t, "echo", Go(t, func() (string, error) { return cl.Echo(bg, t, "") })})
		t2 := Tok("g")
		all = append(all, one{t2, "note", Go(t2, func() (string, error) { return "", cl.Note(bg, t2) })})
		t3 := Tok("g")
		all = append(all, one{t3, "fail", Go(t3, func() (string, error) { return cl.Fail(bg, t3) })})
		t4 := Tok("g")
		all = append(all, one{t4, "echoNR", Go(t4, func() (string, error) { return cl.EchoNR(bg, t4, "") })})
	}
	for _, x := range all {
		if !x.o.Wait(2 * core.Grace) {
			r.Violate("call-hang:gateway", "%s call %s through a gateway answering %d never returned", x.kind, x.tok, code)
			continue
		}
		if x.kind != "note" && x.o.Err == nil {
			r.Violate("answer-without-exec", "%s call %s returned %q without error although the gateway answered %d", x.kind, x.tok, core.Trunc(x.o.Val, 40), code)
		}
	}
	time.Sleep(50 * time.Millisecond)
	for _, x := range all {
		if n := env.Svc.Enters(x.tok); n > 1 {
			r.Violate("multi-exec:"+x.kind, "untagged %s call %s executed %d times behind a gateway that answered %d after forwarding the request: the library re-sent it", x.kind, x.tok, n, code)
		}
	}
	if f := atomic.LoadInt64(&forwarded); f > int64(len(all)) {
		r.Violate("resend:gateway", "the gateway saw %d requests for %d calls (status %d)", f, len(all), code)
	}
	r.Key(fmt.Sprintf("gateway-error %d", code), true)
	r.Obs("gateway_calls", int64(len(all)))
	r.Sample(map[string]interface{}{"scenario": "intermediary answers with an error status after forwarding", "status": code, "calls": len(all), "requests_seen_by_gateway": atomic.LoadInt64(&forwarded)})
}
