package props

import (
	"context"
	"fmt"
	"strconv"
	"sync"
	"sync/atomic"
	"time"

	jsonrpc "github.com/filecoin-project/go-jsonrpc"

	"vharness/core"
	"vharness/svc"
	"vharness/wsproxy"
)

// C08 – every client channel terminates: closed once, nothing after close, prefix only.

type c08 struct{}

func init() { core.Register(c08{}) }

func (c08) ID() string    { return "C08" }
func (c08) Level() string { return "fault_enumeration" }
func (c08) Race() bool    { return true }
func (c08) Rule() string {
	return "termination causes {handler closes, subscription context cancelled, FIN/RST/BLACKHOLE at the k-th server->client data frame x 5 byte-position classes, client closed} x instants {before the channel-id response, after k received values for k in 0..40, with values buffered behind a slow consumer} x pairwise races {cancel ∥ loss, loss ∥ server close, client close ∥ cancel} x windows W1 (subscription response looked up, then the loss closes all sinks, then the sink registers) and W5 (close notification ∥ close-all). Distinct = (cause, instant class, consumer, race, signature class); non-trivial = at least one value was in flight or buffered when the cause struck. Oracles: once the cause is established (close frame seen + probe round trip / cancel returned / probe round trip after heal / closer returned) the drained channel must report closed within the scheduling grace; the received sequence must be a prefix of (stream, 0..sent-1); a double close or send-on-closed kills the child and is attributed to the scenario."
}
func (c08) Assumptions() []string {
	return []string{"a Go channel cannot deliver after close, so 'nothing after close' reduces to 'no double close / send on closed' (process survival) and the prefix check", "8 s scheduling grace after establishment"}
}

var c08Causes = []string{"hclose", "cancel", "FIN", "RST", "BLACKHOLE", "cclose"}

func (c08) Plan(tier string, seed int64) []core.Scenario {
	var out []core.Scenario
	rng := core.Scenario{Seed: seed}.Rand()
	ks := []int{0, 1, 2, 5, 31, 32, 33, 40}
	for _, cause := range c08Causes {
		for ki, k := range ks {
			for cons := 0; cons < 2; cons++ {
				if tier != "thorough" && (ki+cons)%2 == 1 && k > 2 {
					continue
				}
				s := core.Sc("term").WithS("cause", cause).WithN("k", k).WithN("cons", cons)
				if cause == "FIN" || cause == "RST" || cause == "BLACKHOLE" {
					for pos := 0; pos < 5; pos++ {
						if tier != "thorough" && (pos+ki)%3 != 0 {
							continue
						}
						out = append(out, s.WithN("pos", pos).WithN("ord", 1+k+rng.Intn(3)))
						if (pos+ki)%2 == 0 {
							// the same on a client that does not reconnect: the loss ends its connection loop
							out = append(out, s.WithN("pos", pos).WithN("ord", 1+k+rng.Intn(3)).WithN("noreconn", 1))
						}
					}
				} else {
					out = append(out, s)
					if cause == "cclose" {
						out = append(out, s.WithN("noreconn", 1))
					}
				}
			}
		}
	}
	races := []string{"cancel+loss", "loss+hclose", "cclose+cancel", "cancel+hclose"}
	nr := 5
	nw := 8
	if tier == "thorough" {
		nr, nw = 100, 150
	}
	for _, rc := range races {
		for i := 0; i < nr; i++ {
			out = append(out, core.Sc("race").WithS("race", rc).WithN("k", rng.Intn(20)).WithN("skew", i%5))
		}
	}
	nm := 16
	if tier == "thorough" {
		nm = 300
	}
	for i := 0; i < nm; i++ {
		n := 3 + rng.Intn(4)
		lens := make([]int, n)
		for j := range lens {
			lens[j] = []int{0, 1, 3, 10, 40, 120}[rng.Intn(6)]
		}
		out = append(out, core.Sc("multiclose").WithN("end", i%4).WithN("conc", (i/4)%2).WithL(lens))
	}
	ns := 4
	if tier == "thorough" {
		ns = 60
	}
	for i := 0; i < ns; i++ {
		out = append(out, core.Sc("stale-cancel").WithN("variant", i%4))
	}
	for i := 0; i < nw; i++ {
		out = append(out, core.Sc("w1").WithN("variant", i%4))
		out = append(out, core.Sc("w5").WithN("variant", i%3))
		out = append(out, core.Sc("w5").WithN("variant", 3))
	}
	for i := 0; i < 3; i++ {
		out = append(out, core.Sc("typeskew").WithN("end", i))
	}
	// thousands of subscriptions cancelled while their handlers are streaming at full speed, several per connection
	ncs := 2
	if tier == "thorough" {
		ncs = 16
	}
	for i := 0; i < ncs; i++ {
		out = append(out, core.Sc("cancel-storm").WithN("workers", 6+2*(i%2)).WithN("cancels", 2500).WithN("plain", 1))
	}
	for i := range out {
		out[i].Seed = seed*49979687 + int64(i)
		out[i] = out[i].WithN("noise", i%3)
	}
	return out
}

func (p c08) Run(sc core.Scenario) core.Result {
	r := core.NewR(sc)
	switch sc.Kind {
	case "term", "race":
		p.term(sc, r)
	case "multiclose":
		p.multiClose(sc, r)
	case "stale-cancel":
		p.staleCancel(sc, r)
	case "w1":
		p.w1(sc, r)
	case "w5":
		p.w5(sc, r)
	case "typeskew":
		p.typeSkew(sc, r)
	case "cancel-storm":
		p.cancelStorm(sc, r)
	}
	return r.Result()
}

// drain consumes ch, calling at(k) once after k values were received.
func drainItems(ch <-chan svc.Item, delay time.Duration, k int, at func()) *got {
	g := newGot()
	go func() {
		fired := false
		if k == 0 && at != nil {
			fired = true
			at()
		}
		for v := range ch {
			g.add(v.Tok + ":" + strconv.Itoa(v.Seq))
			if !fired && at != nil && g.n() >= k {
				fired = true
				at()
			}
			if delay > 0 {
				time.Sleep(delay)
			}
		}
		g.mu.Lock()
		g.closed = true
		g.mu.Unlock()
		close(g.done)
	}()
	return g
}

func probeUntilHealthy(cl *Client, r *core.R, d time.Duration) bool {
	deadline := time.Now().Add(d)
	for time.Now().Before(deadline) {
		t := Tok("p")
		o := Go(t, func() (string, error) { return cl.Echo(context.Background(), t, "") })
		if !o.Wait(d) {
			return false
		}
		if o.Err == nil && o.Val == svc.Reply(t) {
			return true
		}
		time.Sleep(5 * time.Millisecond)
	}
	return false
}

func (c08) term(sc core.Scenario, r *core.R) {
	cause := sc.Str("cause")
	race := sc.Str("race")
	k := sc.I("k")
	env := NewEnv(EnvOpt{ServerOpts: []jsonrpc.ServerOption{jsonrpc.WithServerPingInterval(50 * time.Millisecond)}})
	defer env.Shutdown()
	pol := noisePolicy(sc)
	defer pol.Install()()
	opts := []jsonrpc.Option{jsonrpc.WithReconnectBackoff(5*time.Millisecond, 20*time.Millisecond)}
	if cause == "BLACKHOLE" {
		opts = append(opts, jsonrpc.WithPingInterval(50*time.Millisecond), jsonrpc.WithTimeout(400*time.Millisecond))
	}
	noReconn := sc.I("noreconn") == 1
	if noReconn {
		opts = append(opts, jsonrpc.WithNoReconnect())
	}
	cl, err := env.NewClient(ClientOpt{Opts: opts})
	if err != nil {
		r.Inconclusive("client: %v", err)
		return
	}
	bg := context.Background()
	sctx, cancel := context.WithCancel(bg)
	defer cancel()
	tokA, tokB := Tok("a"), Tok("b")
	// sibling stream B: finite, must not be disturbed by a cancel of A
	chB, errB := cl.Sub(bg, tokB, 20, svc.SGoroutine)
	var gB *got
	if errB == nil {
		gB = drainItems(chB, 0, -1, nil)
	}
	isFault := cause == "FIN" || cause == "RST" || cause == "BLACKHOLE"
	established := make(chan struct{})
	var estOnce sync.Once
	est := func() { estOnce.Do(func() { close(established) }) }
	skew := time.Duration(sc.I("skew")) * 200 * time.Microsecond

	mode, n := svc.SInfinite, 0
	if cause == "hclose" || race == "loss+hclose" || race == "cancel+hclose" {
		mode, n = svc.SGoroutine, k+10
	}
	if isFault {
		// strike at the k-th value frame of stream A (k=0: at the response announcing A's channel)
		seen := 0
		env.Px.Arm(&wsproxy.Fault{Kind: cause, Dir: wsproxy.S2C, Pos: sc.I("pos"), Match: func(fi wsproxy.FrameInfo) bool {
			if fi.Msg == nil {
				return false
			}
			if k == 0 {
				return fi.Msg.Method == ""
			}
			if fi.Msg.Token == tokA {
				seen++
			}
			return seen >= k
		}})
	}
	chA, errA := cl.Sub(sctx, tokA, n, mode)
	if errA != nil && chA == nil {
		// the subscription itself was hit before the channel id arrived: nothing handed to the caller
		r.Key(fmt.Sprintf("%s%s before-response", cause, race), false)
		r.Obs("subs_failed_before_channel", 1)
		r.Sample(map[string]interface{}{"cause": cause, "instant": "before the channel-id response", "caller_got": "error, nil channel"})
		return
	}
	if errA != nil {
		r.Obs("channel_returned_with_error", 1)
	}
	delay := time.Duration(0)
	if sc.I("cons") == 1 {
		delay = 100 * time.Microsecond
	}
	fire := func() {
		go func() {
			switch {
			case race == "cancel+loss":
				go func() { time.Sleep(skew); env.Px.KillAll(wsproxy.RST) }()
				cancel()
				est()
			case race == "loss+hclose":
				env.Px.KillAll(wsproxy.FIN)
			case race == "cclose+cancel":
				go func() { time.Sleep(skew); cancel() }()
				cl.Close()
				est()
			case race == "cancel+hclose":
				time.Sleep(skew)
				cancel()
				est()
			case cause == "cancel":
				cancel()
				est()
			case cause == "cclose":
				cl.Close()
				est()
			}
		}()
	}
	var at func()
	kk := k
	if !isFault && cause != "hclose" {
		at = fire
	}
	if race == "loss+hclose" || race == "cancel+hclose" {
		at = fire
	}
	gA := drainItems(chA, delay, kk, at)

	// ---- establish the cause
	switch {
	case cause == "hclose" && race == "":
		if !core.Eventually(2*core.Grace, func() bool { return env.Svc.Get(tokA).Closed }) {
			r.Inconclusive("handler did not close its channel")
			return
		}
		if !probeUntilHealthy(cl, r, core.Grace) {
			r.Inconclusive("probe after handler close failed")
			return
		}
		// the probe's response was queued after the close notification on the same connection
		est()
	case isFault || race == "loss+hclose":
		// wait until the fault fired (or the stream ended without reaching that frame)
		core.Eventually(2*core.Grace, func() bool { return env.Px.LiveConns() == 0 || env.Px.Accepts() > 1 || gA.isClosed() })
		if isFault && env.Px.Accepts() == 1 && cause != "BLACKHOLE" && env.Px.LiveConns() > 0 {
			// ordinal beyond the stream: strike now
			env.Px.KillAll(cause)
		}
		if noReconn {
			// no healing: the cause is established once the client has noticed the loss, i.e. a new call fails
			if !core.Eventually(2*core.Grace, func() bool {
				t := Tok("p")
				o := Go(t, func() (string, error) { return cl.Echo(context.Background(), t, "") })
				return o.Wait(core.Grace) && o.Err != nil
			}) {
				r.Inconclusive("a client without reconnect never reported the loss (%s)", cause)
				return
			}
		} else if !probeUntilHealthy(cl, r, 2*core.Grace) {
			r.Inconclusive("link never healthy again after %s", cause)
			return
		}
		est()
	}
	if !core.WaitCh(established, 3*core.Grace) {
		r.Inconclusive("cause %s%s never established (consumer received %d)", cause, race, gA.n())
		return
	}
	// ---- the channel must now close (consumer keeps draining)
	if !core.WaitCh(gA.done, core.Grace+time.Duration(gA.n())*delay) {
		r.Violate("channel-not-closed:"+cause+race, "client channel of %s still open %v after its termination cause (%s%s at k=%d) was established; received %d, handler sent %d; events: %s",
			tokA, core.Grace, cause, race, k, gA.n(), env.Svc.Get(tokA).Sent, core.Log.Tail(40))
	}
	env.Svc.ReleaseAll()
	time.Sleep(2 * time.Millisecond)
	sent := int(env.Svc.Get(tokA).Sent)
	keys := gA.snapshot()
	checkSeq(r, "terminated("+cause+race+")", tokA, keys, sent+1, false) // +1: a value may be in the handler's hand-off when counted
	if cause == "hclose" && race == "" && len(keys) != n {
		r.Violate("stream-truncated", "handler closed after sending %d values on a healthy link but the client channel closed after %d", n, len(keys))
	}
	// sibling: a cancel of A or a handler close of A must not disturb B
	if gB != nil && !isFault && cause != "cclose" && race == "" || race == "cancel+hclose" {
		if gB != nil {
			if !core.WaitCh(gB.done, 2*core.Grace) {
				r.Violate("sibling-stream-stuck", "sibling stream did not complete after %s of another stream", cause)
			} else {
				checkSeq(r, "sibling", tokB, gB.snapshot(), 20, true)
			}
		}
	} else if gB != nil {
		// under loss/close the sibling must terminate too, with a prefix
		if !core.WaitCh(gB.done, core.Grace) {
			r.Violate("channel-not-closed:sibling", "sibling channel still open after %s%s was established", cause, race)
		}
		checkSeq(r, "sibling", tokB, gB.snapshot(), 20, false)
	}
	inst := "k0"
	switch {
	case k > 32:
		inst = "k>32"
	case k > 2:
		inst = "k3..32"
	case k > 0:
		inst = "k1..2"
	}
	r.Key(fmt.Sprintf("%s%s %s pos=%d cons=%d noreconn=%d", cause, race, inst, sc.I("pos"), sc.I("cons"), sc.I("noreconn")), len(keys) > 0 || sent > 0)
	r.Obs("values_received", int64(len(keys)))
	r.Obs("terminations", 1)
	r.Sig(core.Log.Signature())
	r.Sample(map[string]interface{}{"cause": cause + race, "after_values": k, "consumer": []string{"attentive", "slow"}[sc.I("cons")], "received": len(keys), "handler_sent": sent, "closed": gA.isClosed()})
}

// staleCancel: subscription A dies with its connection; after the reconnect subscription B is opened
// (the server numbers channels per connection, so B reuses A's channel id); then A's context is
// cancelled. B must be unaffected: it delivers everything and closes when its handler closes.
func (c08) staleCancel(sc core.Scenario, r *core.R) {
	env := NewEnv(EnvOpt{})
	defer env.Shutdown()
	pol := noisePolicy(sc)
	defer pol.Install()()
	cl, err := env.NewClient(ClientOpt{Opts: []jsonrpc.Option{jsonrpc.WithReconnectBackoff(5*time.Millisecond, 20*time.Millisecond)}})
	if err != nil {
		r.Inconclusive("client: %v", err)
		return
	}
	bg := context.Background()
	v := sc.I("variant")
	actx, acancel := context.WithCancel(bg)
	defer acancel()
	tokA, tokB := Tok("a"), Tok("b")
	chA, err := cl.Sub(actx, tokA, 0, svc.SInfinite)
	if err != nil {
		r.Inconclusive("sub A: %v", err)
		return
	}
	gA := drainItems(chA, 0, -1, nil)
	core.Eventually(core.Grace, func() bool { return gA.n() > 3 })
	if v%2 == 0 {
		env.Px.KillAll(wsproxy.RST)
	} else {
		env.Px.KillAll(wsproxy.FIN)
	}
	if !probeUntilHealthy(cl, r, 2*core.Grace) {
		r.Inconclusive("link never healthy again")
		return
	}
	if !core.WaitCh(gA.done, core.Grace) {
		r.Violate("channel-not-closed:loss", "stream A still open after its connection was lost and the link is healthy again")
	}
	env.Svc.Hold(tokB)
	chB, err := cl.Sub(bg, tokB, 30, svc.SGoroutine)
	if err != nil {
		r.Violate("subscribe-failed", "subscription B after the reconnect failed: %v", err)
		return
	}
	gB := drainItems(chB, 0, -1, nil)
	if v >= 2 {
		env.Svc.Release(tokB)
		core.Eventually(core.Grace, func() bool { return gB.n() > 0 })
	}
	acancel() // the stale subscription's context is cancelled only now
	time.Sleep(5 * time.Millisecond)
	p := Tok("p")
	cl.Echo(bg, p, "")
	env.Svc.Release(tokB)
	if !core.WaitCh(gB.done, core.Grace) {
		r.Violate("channel-not-closed:stale-cancel", "subscription B (opened after a reconnect) never closed although its handler sent 30 values and closed; cancelling the context of an older, already dead subscription disturbed it (received %d); events: %s", gB.n(), core.Log.Tail(30))
	}
	checkSeq(r, "stale-cancel", tokB, gB.snapshot(), 30, true)
	checkSeq(r, "stale-cancel(A)", tokA, gA.snapshot(), int(env.Svc.Get(tokA).Sent)+1, false)
	r.Key(fmt.Sprintf("stale-cancel v%d", v), true)
	r.Obs("terminations", 2)
	r.Sig(core.Log.Signature())
	r.Sample(map[string]interface{}{"scenario": "cancel of a dead subscription after a reconnect, new subscription open", "variant": v, "B_received": gB.n()})
}

// multiClose: several channels open at once on one connection are closed by their handlers at
// different times (so the forwarder's bookkeeping is compacted in every position), optionally
// followed by a loss / cancel / client close for the survivors. Every channel must terminate with
// exactly (handler close) or a prefix of (other causes) its own values.
func (c08) multiClose(sc core.Scenario, r *core.R) {
	env := NewEnv(EnvOpt{})
	defer env.Shutdown()
	pol := noisePolicy(sc)
	defer pol.Install()()
	cl, err := env.NewClient(ClientOpt{Opts: []jsonrpc.Option{jsonrpc.WithReconnectBackoff(5*time.Millisecond, 20*time.Millisecond)}})
	if err != nil {
		r.Inconclusive("client: %v", err)
		return
	}
	bg := context.Background()
	sctx, cancel := context.WithCancel(bg)
	defer cancel()
	n := len(sc.L)
	toks := make([]string, n)
	gots := make([]*got, n)
	// survivors: two infinite streams that outlive the finite ones
	if sc.I("conc") == 1 {
		// the subscribing calls are handled at the same time: their handlers are held until all of them have
		// been entered and then return their channels together
		var wg sync.WaitGroup
		errs := make([]error, n)
		for i := 0; i < n; i++ {
			toks[i] = Tok("a")
			mode, ln := svc.SHoldBefore, sc.L[i]
			if i >= n-2 && sc.I("end") != 0 {
				mode, ln = svc.SInfinite, 0
			} else {
				env.Svc.Hold(toks[i])
			}
			wg.Add(1)
			go func(i, ln, mode int) {
				defer wg.Done()
				ch, err := cl.Sub(sctx, toks[i], ln, mode)
				if err != nil {
					errs[i] = err
					return
				}
				gots[i] = drainItems(ch, 0, -1, nil)
			}(i, ln, mode)
		}
		for i := 0; i < n; i++ {
			env.Svc.WaitEntered(toks[i], core.Grace)
		}
		env.Svc.ReleaseAll()
		done := make(chan struct{})
		go func() { wg.Wait(); close(done) }()
		if !core.WaitCh(done, 2*core.Grace) {
			r.Violate("subscribe-failed", "%d subscribing calls handled at the same time did not all return on a healthy link", n)
			return
		}
		for i, e := range errs {
			if e != nil || gots[i] == nil {
				r.Violate("subscribe-failed", "subscription %d of %d (handled concurrently) failed on a healthy link: %v", i, n, e)
				return
			}
		}
	} else {
		for i := 0; i < n; i++ {
			toks[i] = Tok("a")
			mode, ln := svc.SGoroutine, sc.L[i]
			if i >= n-2 && sc.I("end") != 0 {
				mode, ln = svc.SInfinite, 0
			}
			ch, err := cl.Sub(sctx, toks[i], ln, mode)
			if err != nil {
				r.Violate("subscribe-failed", "subscription %d of %d failed on a healthy link: %v", i, n, err)
				return
			}
			gots[i] = drainItems(ch, 0, -1, nil)
		}
	}
	finite := n
	if sc.I("end") != 0 {
		finite = n - 2
	}
	for i := 0; i < finite; i++ {
		if !core.WaitCh(gots[i].done, 2*core.Grace) {
			r.Violate("channel-not-closed:hclose", "stream %d of %d (len %d) closed by its handler is still open on the client (received %d); events: %s", i, n, sc.L[i], gots[i].n(), core.Log.Tail(30))
		}
		checkSeq(r, "multi(handler close)", toks[i], gots[i].snapshot(), sc.L[i], true)
	}
	switch sc.I("end") {
	case 1:
		cancel()
	case 2:
		env.Px.KillAll(wsproxy.RST)
		probeUntilHealthy(cl, r, 2*core.Grace)
	case 3:
		cl.Close()
	}
	for i := finite; i < n; i++ {
		if !core.WaitCh(gots[i].done, core.Grace) {
			r.Violate("channel-not-closed:multi", "surviving stream %d of %d still open after end cause %d", i, n, sc.I("end"))
		}
		checkSeq(r, "multi(survivor)", toks[i], gots[i].snapshot(), int(env.Svc.Get(toks[i]).Sent)+1, false)
	}
	r.Key(fmt.Sprintf("multiclose n=%d end=%d conc=%d lens=%v", n, sc.I("end"), sc.I("conc"), sc.L), true)
	r.Obs("terminations", int64(n))
	r.Sig(core.Log.Signature())
	r.Sample(map[string]interface{}{"streams": n, "lengths": sc.L, "then": []string{"nothing", "cancel survivors", "connection reset", "client close"}[sc.I("end")]})
}

// w1: the subscription's response has been looked up, then the loss closes all
// sinks, then the sink registers. Whatever the caller is handed must terminate.
func (c08) w1(sc core.Scenario, r *core.R) {
	env := NewEnv(EnvOpt{})
	defer env.Shutdown()
	pol := noisePolicy(sc)
	v := sc.I("variant")
	pol.Rules = append(pol.Rules, &core.Rule{Point: "ws.resp.lookup", Side: 1, Occ: 2, Do: func(jsonrpc.VerifEvent) {
		env.Px.KillAll(wsproxy.RST)
		switch v {
		case 0:
			pol.WaitPoint("ws.reconn.chansClosed", 1, 0, 300*time.Millisecond)
		case 1:
			pol.WaitPoint("ws.reconn.inflightClosed", 1, 0, 300*time.Millisecond)
		case 2:
			pol.WaitPoint("ws.reconn.begin", 1, 0, 300*time.Millisecond)
		case 3:
			pol.WaitPoint("ws.reconn.swap.after", 1, 0, 300*time.Millisecond)
		}
	}})
	defer pol.Install()()
	cl, err := env.NewClient(ClientOpt{Opts: []jsonrpc.Option{jsonrpc.WithReconnectBackoff(5*time.Millisecond, 20*time.Millisecond)}})
	if err != nil {
		r.Inconclusive("client: %v", err)
		return
	}
	bg := context.Background()
	w := Tok("w")
	cl.Echo(bg, w, "") // lookup #1
	tok := Tok("a")
	type subRes struct {
		ch  <-chan svc.Item
		err error
	}
	resCh := make(chan subRes, 1)
	go func() {
		ch, err := cl.Sub(bg, tok, 0, svc.SInfinite)
		resCh <- subRes{ch, err}
	}()
	var sr subRes
	select {
	case sr = <-resCh:
	case <-time.After(2 * core.Grace):
		r.Violate("w1-sub-hang", "subscription call never returned in window W1; events: %s", core.Log.Tail(40))
		return
	}
	formed := pol.Count("ws.reconn.begin", 1) > 0
	r.Key(fmt.Sprintf("w1 v%d formed=%v chan=%v err=%v", v, formed, sr.ch != nil, sr.err != nil), formed)
	r.Obs("w1_formed", b2i(formed))
	r.Sig(core.Log.Signature())
	r.Sample(map[string]interface{}{"window": "subscription response looked up ∥ loss closes all sinks ∥ sink registered", "variant": v, "caller_got_channel": sr.ch != nil, "caller_got_error": errStr(sr.err)})
	if sr.ch == nil {
		return
	}
	g := drainItems(sr.ch, 0, -1, nil)
	if !probeUntilHealthy(cl, r, 2*core.Grace) {
		r.Inconclusive("link never healthy again")
		return
	}
	// the connection the stream belonged to is gone and a later probe round-tripped on the new one
	if !core.WaitCh(g.done, core.Grace) {
		r.Violate("channel-not-closed:w1", "window W1: the caller was handed a channel (err=%v) for a subscription whose connection broke while its response was being processed; the channel is still open after the link is healthy again (received %d); events: %s", sr.err, g.n(), core.Log.Tail(40))
	}
	checkSeq(r, "w1", tok, g.snapshot(), int(env.Svc.Get(tok).Sent)+1, false)
}

// w5: the server's close notification is executed while close-all runs.
func (c08) w5(sc core.Scenario, r *core.R) {
	env := NewEnv(EnvOpt{})
	defer env.Shutdown()
	pol := noisePolicy(sc)
	v := sc.I("variant")
	pol.Rules = append(pol.Rules, &core.Rule{Point: "ws.closechans.each", Side: 1, Occ: 1, Do: func(jsonrpc.VerifEvent) {
		if v < 2 {
			pol.WaitPoint("ws.exec.frame", 1, pol.Count("ws.exec.frame", 1), 20*time.Millisecond)
		}
	}})
	nStreams := 4
	if v == 3 {
		// precise form: the executor holds the first close notification back, cuts the connection, and lets the
		// queued close notifications run only once the close-all sweep has passed its first sink; the sweep is
		// slowed down per sink so that both alternate on the table lock
		nStreams = 8
		var cut sync.Once
		pol.Rules = append(pol.Rules,
			&core.Rule{Point: "ws.exec.frame", Side: 1, Arg: "xrpc.ch.close", Do: func(jsonrpc.VerifEvent) {
				cut.Do(func() { env.Px.KillAll(wsproxy.RST) })
				pol.WaitPoint("ws.closechans.each", 1, 1, 500*time.Millisecond)
			}},
			&core.Rule{Point: "ws.closechans.each", Side: 1, Do: func(jsonrpc.VerifEvent) { time.Sleep(2 * time.Millisecond) }})
	}
	defer pol.Install()()
	cl, err := env.NewClient(ClientOpt{Opts: []jsonrpc.Option{jsonrpc.WithReconnectBackoff(5*time.Millisecond, 20*time.Millisecond)}})
	if err != nil {
		r.Inconclusive("client: %v", err)
		return
	}
	bg := context.Background()
	var gs []*got
	var toks []string
	for i := 0; i < nStreams; i++ {
		t := Tok("a")
		env.Svc.Hold(t)
		ch, err := cl.Sub(bg, t, 3, svc.SGoroutine)
		if err != nil {
			r.Inconclusive("sub: %v", err)
			return
		}
		toks = append(toks, t)
		gs = append(gs, drainItems(ch, 0, -1, nil))
	}
	// let the handlers send and close (close notifications on the wire) and cut at the same time
	go func() {
		if v == 3 {
			return // the executor rule cuts the connection
		}
		if v == 2 {
			time.Sleep(300 * time.Microsecond)
		}
		env.Px.KillAll(wsproxy.FIN)
	}()
	env.Svc.ReleaseAll()
	if v == 1 {
		go cl.Close()
	}
	if v != 1 && !probeUntilHealthy(cl, r, 2*core.Grace) {
		r.Inconclusive("link never healthy again")
		return
	}
	for i, g := range gs {
		if !core.WaitCh(g.done, core.Grace) {
			r.Violate("channel-not-closed:w5", "window W5: channel %d still open after loss ∥ close notification; events: %s", i, core.Log.Tail(40))
		}
		checkSeq(r, "w5", toks[i], g.snapshot(), 3, false)
	}
	r.Key(fmt.Sprintf("w5 v%d sig=%s", v, core.Log.Signature()[:6]), true)
	r.Obs("w5_runs", 1)
	r.Sig(core.Log.Signature())
	r.Obs("w5_precise_formed", b2i(v == 3 && pol.Count("ws.closechans.each", 1) > 1))
	r.Sample(map[string]interface{}{"window": "close notification ∥ close-all", "variant": v, "streams": nStreams, "sweep_steps": pol.Count("ws.closechans.each", 1)})
}

// typeSkew: the server streams values the client's channel type cannot hold (strings into a chan int, as
// with mismatched API versions). The values are undeliverable, but the channel is still closed exactly once
// when the stream ends - by the handler closing, by the client being closed, or by connection loss - and a
// well-typed sibling stream is unaffected.
func (c08) typeSkew(sc core.Scenario, r *core.R) {
	end := []string{"hclose", "cclose", "RST"}[sc.I("end")]
	env := NewEnv(EnvOpt{})
	defer env.Shutdown()
	pol := noisePolicy(sc)
	defer pol.Install()()
	cl, err := env.NewClient(ClientOpt{Opts: []jsonrpc.Option{jsonrpc.WithReconnectBackoff(5*time.Millisecond, 20*time.Millisecond)}})
	if err != nil {
		r.Inconclusive("client: %v", err)
		return
	}
	bg := context.Background()
	ts, tb := Tok("k"), Tok("b")
	mode, n := svc.SGoroutine, 5
	if end != "hclose" {
		mode, n = svc.SUntilCtx, 3
	}
	ch, err := cl.SubStrAsInt(bg, ts, n, mode)
	if err != nil || ch == nil {
		r.Inconclusive("subscribe: %v", err)
		return
	}
	closedCh := make(chan struct{})
	delivered := 0
	go func() {
		for range ch {
			delivered++
		}
		close(closedCh)
	}()
	chB, errB := cl.Sub(bg, tb, 20, svc.SGoroutine)
	var gB *got
	if errB == nil {
		gB = drainItems(chB, 0, -1, nil)
	}
	if !core.Eventually(core.Grace, func() bool { return int(env.Svc.Get(ts).Sent) >= n }) {
		r.Inconclusive("the handler did not send its values")
		return
	}
	time.Sleep(20 * time.Millisecond)
	switch end {
	case "cclose":
		go cl.Close()
	case "RST":
		env.Px.KillAll(wsproxy.RST)
		probeUntilHealthy(cl, r, 2*core.Grace)
	}
	if !core.WaitCh(closedCh, core.Grace) {
		r.Violate("channel-not-closed:typeskew", "a channel whose values could not be decoded (strings into chan int) is still open %v after the stream ended by %s", core.Grace, end)
	}
	if gB != nil && end == "hclose" {
		if !core.WaitCh(gB.done, core.Grace) {
			r.Violate("sibling-stream-stuck", "a well-typed sibling of a stream with undecodable values did not complete")
		} else {
			checkSeq(r, "sibling-of-typeskew", tb, gB.snapshot(), 20, true)
		}
	}
	if end != "cclose" {
		t := Tok("p")
		if v, err := cl.Echo(bg, t, ""); err != nil || v != svc.Reply(t) {
			r.Violate("client-broken", "after a stream with undecodable values ended (%s) a plain call returned (%q, %v)", end, v, err)
		}
	}
	r.Key("typeskew "+end, true)
	r.Obs("terminations", 1)
	r.Sig(core.Log.Signature())
	r.Sample(map[string]interface{}{"scenario": "stream of values the client's channel type cannot hold", "ended_by": end, "values_delivered": delivered})
}

// cancelStorm: several callers share one ws client; each subscribes to an endless stream, reads a few
// values, cancels the subscription while the handler is still streaming, and keeps draining until the
// channel is closed. Whatever was delivered must be a gap-free prefix of what the handler sent, and the
// channel must be closed.
func (c08) cancelStorm(sc core.Scenario, r *core.R) {
	env := NewEnv(EnvOpt{NoProxy: true})
	defer env.Shutdown()
	cl, err := env.NewClient(ClientOpt{})
	if err != nil {
		r.Inconclusive("client: %v", err)
		return
	}
	bg := context.Background()
	var wg sync.WaitGroup
	var cancels, holes, open int64
	var mu sync.Mutex
	reported := 0
	for w := 0; w < sc.I("workers"); w++ {
		wg.Add(1)
		go func(w int) {
			defer wg.Done()
			rng := core.Scenario{Seed: sc.Seed + int64(w)}.Rand()
			for i := 0; i < sc.I("cancels"); i++ {
				t := Tok("z")
				ctx, cancel := context.WithCancel(bg)
				ch, err := cl.Sub(ctx, t, 0, svc.SInfinite)
				if err != nil || ch == nil {
					cancel()
					continue
				}
				k := 1 + rng.Intn(20)
				next, bad := 0, ""
				closed := false
				timeout := time.After(core.Grace)
			loop:
				for {
					select {
					case v, ok := <-ch:
						if !ok {
							closed = true
							break loop
						}
						if bad == "" && (v.Tok != t || v.Seq != next) {
							bad = fmt.Sprintf("value #%d is %s:%d, expected %s:%d", next, v.Tok, v.Seq, t, next)
						}
						next++
						if next == k {
							cancel()
						}
					case <-timeout:
						break loop
					}
				}
				cancel()
				atomic.AddInt64(&cancels, 1)
				mu.Lock()
				if !closed {
					atomic.AddInt64(&open, 1)
					if reported < 3 {
						reported++
						r.Violate("channel-not-closed:cancel-storm", "subscription %s cancelled after %d values while its handler was streaming: the channel is still open %v later", t, k, core.Grace)
					}
				} else if bad != "" {
					atomic.AddInt64(&holes, 1)
					if reported < 3 {
						reported++
						r.Violate("stream-reordered-or-lost", "subscription %s cancelled after %d values while its handler was streaming: what was delivered before the close is not a prefix of the stream: %s (%d values delivered)", t, k, bad, next)
					}
				}
				mu.Unlock()
				if atomic.LoadInt64(&open) > 2 {
					return
				}
			}
		}(w)
	}
	wg.Wait()
	r.Key(fmt.Sprintf("cancel-storm workers=%d", sc.I("workers")), cancels > 0)
	r.Obs("terminations", cancels)
	r.Obs("cancels_mid_stream", cancels)
	r.Sample(map[string]interface{}{"scenario": "subscriptions cancelled while streaming, several callers on one client", "cancels": cancels, "not_a_prefix": holes, "left_open": open})
}
