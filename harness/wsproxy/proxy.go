// Package wsproxy is a frame-aware, fault-injecting TCP proxy: the hostile
// network between a go-jsonrpc client and server. It observes every WebSocket
// frame in both directions (validating frame discipline and JSON-RPC shape of
// every data message) and injects FIN / RST / blackhole faults at frame and
// byte positions chosen by the harness.
package wsproxy

import (
	"bufio"
	"bytes"
	"encoding/json"
	"fmt"
	"io"
	"net"
	"regexp"
	"strings"
	"sync"
	"sync/atomic"
	"time"

	"vharness/core"
)

type Dir int

const (
	C2S Dir = 0
	S2C Dir = 1
)

func (d Dir) String() string {
	if d == C2S {
		return "c2s"
	}
	return "s2c"
}

const (
	FIN       = "FIN"
	RST       = "RST"
	BLACKHOLE = "BLACKHOLE" // keep reading, discard everything, forward nothing
	STALL     = "STALL"     // stop reading altogether (peer's writes eventually block)
	CLOSE1000 = "CLOSE1000" // the client receives a close frame (1000 normal closure), then the connection ends
	CLOSE1001 = "CLOSE1001" // the client receives a close frame (1001 going away: restart / draining proxy), then the connection ends
	CLOSE1012 = "CLOSE1012" // close frame 1012 service restart
	CLOSE1013 = "CLOSE1013" // close frame 1013 try again later
)

// MsgInfo summarises one complete data message.
type MsgInfo struct {
	Valid     bool
	ID        string // raw JSON of "id", "" when absent
	Method    string
	HasResult bool
	HasError  bool
	ErrCode   int
	Result    string // raw, truncated
	Params    string // raw, truncated
	Token     string // first harness token found in the payload
	Len       int
}

type FrameInfo struct {
	Seq    int64
	ConnN  int
	Dir    Dir
	Opcode int
	Fin    bool
	Len    int
	DataN  int      // ordinal of this data frame in its direction (1-based, all connections), 0 for control frames
	Msg    *MsgInfo // set on the frame that completes a data message
}

// Fault is a one-shot injection.
type Fault struct {
	Kind    string
	Dir     Dir
	Ordinal int                     // fire on the k-th data frame in Dir counted since Arm (1-based); 0 = use Match
	Match   func(fi FrameInfo) bool // alternative trigger (evaluated on every frame in Dir)
	Pos     int                     // 0 before first byte, 1 inside header, 2 mid-payload, 3 before last byte, 4 after last byte
	OnFire  func()
	fired   int32
	seen    int32
}

func (f *Fault) Fired() bool { return atomic.LoadInt32(&f.fired) == 1 }

type pconn struct {
	n        int
	c, s     net.Conn
	black    int32 // 1 discard, 2 stall
	dead     int32
	stallCh  chan struct{}
	ws       bool
	fragOpen [2]bool
	fragBuf  [2][]byte
	srvEOF   int32 // the server side ended its stream (FIN seen) after a FIN kill
}

type Proxy struct {
	ln     net.Listener
	target string

	mu         sync.Mutex
	conns      map[int]*pconn
	accepts    int
	refuse     bool
	failNext   int
	blackNext  int // the next n websocket connections fall silent right after their handshake
	swallow    int // the next n connections are accepted but their upgrade request is never answered
	paused     [2]int32 // relays of this direction stop reading until resumed (a stall that heals)
	faults     []*Fault
	frames     []FrameInfo
	protoErrs  []string
	dataN      [2]int
	hold       func(fi FrameInfo) <-chan struct{}
	observe    func(fi FrameInfo, payload []byte)
	throttle   [2]int // bytes per second, 0 = off
	readThr    [2]int // slow reader: payload bytes per second consumed from the sender, 0 = off
	torn       []string
	resets     int
	DrainFor   time.Duration // how long a FIN-killed connection is still read before it is closed (default 2 s)
	rawCut     *RawFault
	rawBytes   [2]int64
	closed     bool
	KeepFrames bool
	MaxKeep    int
}

// RawFault cuts a non-websocket (plain HTTP) connection after N bytes in Dir.
type RawFault struct {
	Dir   Dir
	After int64
	Kind  string
	fired int32
}

func (f *RawFault) Fired() bool { return atomic.LoadInt32(&f.fired) == 1 }

func New(target string) *Proxy {
	ln, err := net.Listen("tcp", "127.0.0.1:0")
	if err != nil {
		panic(err)
	}
	p := &Proxy{ln: ln, target: strings.TrimPrefix(strings.TrimPrefix(target, "http://"), "ws://"), conns: map[int]*pconn{}, KeepFrames: true, MaxKeep: 200000}
	go p.acceptLoop()
	return p
}

func (p *Proxy) Addr() string    { return p.ln.Addr().String() }
func (p *Proxy) WSURL() string   { return "ws://" + p.Addr() }
func (p *Proxy) HTTPURL() string { return "http://" + p.Addr() }

func (p *Proxy) Accepts() int {
	p.mu.Lock()
	defer p.mu.Unlock()
	return p.accepts
}
func (p *Proxy) SetRefuse(b bool) {
	p.mu.Lock()
	p.refuse = b
	p.mu.Unlock()
}
func (p *Proxy) FailNext(n int) {
	p.mu.Lock()
	p.failNext = n
	p.mu.Unlock()
}
// BlackholeNext makes the next n websocket connections fall silent (both directions discarded) as soon
// as their handshake has completed.
func (p *Proxy) BlackholeNext(n int) {
	p.mu.Lock()
	p.blackNext = n
	p.mu.Unlock()
}

// SetPause stops (on=true) or resumes the relays in direction d of all connections: nothing is read from the
// sender while paused, so its writes block once the socket buffers are full; unlike STALL it can be undone.
func (p *Proxy) SetPause(d Dir, on bool) {
	v := int32(0)
	if on {
		v = 1
	}
	atomic.StoreInt32(&p.paused[d], v)
	core.Log.Note("px.pause", fmt.Sprintf("%s on=%v", d, on))
}

// SwallowNext: the next n connections are accepted at the TCP level, their HTTP upgrade request is read and
// never answered (a black hole in the middle of the handshake).
func (p *Proxy) SwallowNext(n int) {
	p.mu.Lock()
	p.swallow = n
	p.mu.Unlock()
}

func (p *Proxy) FailNextLeft() int {
	p.mu.Lock()
	defer p.mu.Unlock()
	return p.failNext
}
func (p *Proxy) Arm(f *Fault) {
	p.mu.Lock()
	p.faults = append(p.faults, f)
	p.mu.Unlock()
}
func (p *Proxy) ArmRaw(f *RawFault) {
	p.mu.Lock()
	p.rawCut = f
	p.rawBytes = [2]int64{}
	p.mu.Unlock()
}
func (p *Proxy) SetHold(h func(fi FrameInfo) <-chan struct{}) {
	p.mu.Lock()
	p.hold = h
	p.mu.Unlock()
}
func (p *Proxy) SetObserver(h func(fi FrameInfo, payload []byte)) {
	p.mu.Lock()
	p.observe = h
	p.mu.Unlock()
}
func (p *Proxy) SetThrottle(d Dir, bps int) {
	p.mu.Lock()
	p.throttle[d] = bps
	p.mu.Unlock()
}
// SetReadThrottle makes the proxy a slow reader in direction d: frame payloads are consumed from the
// sender at about bps bytes per second, so a sender whose message exceeds the socket buffers stays
// blocked in write(2) for a while (and completes - unlike STALL).
func (p *Proxy) SetReadThrottle(d Dir, bps int) {
	p.mu.Lock()
	p.readThr[d] = bps
	var cs []*pconn
	for _, c := range p.conns {
		cs = append(cs, c)
	}
	p.mu.Unlock()
	// small receive buffers on the throttled side, so that the kernel absorbs as little as possible
	for _, c := range cs {
		src := c.s
		if d == C2S {
			src = c.c
		}
		if t, ok := src.(*net.TCPConn); ok && bps > 0 {
			t.SetReadBuffer(64 << 10)
		}
	}
}

// TornFrames lists connections whose sender ended the stream in the middle of a frame although the
// proxy had injected nothing on that connection.
func (p *Proxy) TornFrames() []string {
	p.mu.Lock()
	defer p.mu.Unlock()
	return append([]string(nil), p.torn...)
}

// Resets counts streams that ended inside a frame or message with a connection reset (not an orderly end).
func (p *Proxy) Resets() int {
	p.mu.Lock()
	defer p.mu.Unlock()
	return p.resets
}

// ServerEOFs counts FIN-killed connections on which the server has closed its side too.
func (p *Proxy) ServerEOFs() int {
	p.mu.Lock()
	defer p.mu.Unlock()
	n := 0
	for _, c := range p.conns {
		if atomic.LoadInt32(&c.srvEOF) == 1 {
			n++
		}
	}
	return n
}

func (p *Proxy) Frames() []FrameInfo {
	p.mu.Lock()
	defer p.mu.Unlock()
	return append([]FrameInfo(nil), p.frames...)
}
func (p *Proxy) ProtoErrors() []string {
	p.mu.Lock()
	defer p.mu.Unlock()
	return append([]string(nil), p.protoErrs...)
}
func (p *Proxy) DataFrames(d Dir) int {
	p.mu.Lock()
	defer p.mu.Unlock()
	return p.dataN[d]
}
func (p *Proxy) LiveConns() int {
	p.mu.Lock()
	defer p.mu.Unlock()
	n := 0
	for _, c := range p.conns {
		if atomic.LoadInt32(&c.dead) == 0 {
			n++
		}
	}
	return n
}

// StalledInject acts on connections that are in STALL mode (nothing is read from either side any more):
// "closeframe" writes a WebSocket close frame to the server side, "fin" half-closes the server side.
// The proxy keeps not reading, like a peer that stopped consuming but still says goodbye.
func (p *Proxy) StalledInject(what string) int {
	p.mu.Lock()
	var cs []*pconn
	for _, c := range p.conns {
		if atomic.LoadInt32(&c.black) == 2 && atomic.LoadInt32(&c.dead) == 0 {
			cs = append(cs, c)
		}
	}
	p.mu.Unlock()
	for _, c := range cs {
		switch what {
		case "closeframe":
			c.s.SetWriteDeadline(time.Now().Add(time.Second))
			// masked client->server close frame, status 1000 (mask 1,2,3,4)
			c.s.Write([]byte{0x88, 0x82, 1, 2, 3, 4, 0x03 ^ 1, 0xe8 ^ 2})
		case "fin":
			if t, ok := c.s.(*net.TCPConn); ok {
				t.CloseWrite()
			}
		}
	}
	return len(cs)
}

// KillAll applies kind to every live connection.
func (p *Proxy) KillAll(kind string) {
	p.mu.Lock()
	var cs []*pconn
	for _, c := range p.conns {
		cs = append(cs, c)
	}
	p.mu.Unlock()
	for _, c := range cs {
		p.kill(c, kind)
	}
}

func (p *Proxy) Close() {
	p.mu.Lock()
	p.closed = true
	p.mu.Unlock()
	p.ln.Close()
	p.KillAll(RST)
}

func (p *Proxy) protoErr(format string, a ...interface{}) {
	p.mu.Lock()
	if len(p.protoErrs) < 50 {
		p.protoErrs = append(p.protoErrs, fmt.Sprintf(format, a...))
	}
	p.mu.Unlock()
}

func (p *Proxy) acceptLoop() {
	for {
		c, err := p.ln.Accept()
		if err != nil {
			return
		}
		p.mu.Lock()
		p.accepts++
		n := p.accepts
		refuse := p.refuse
		if p.failNext > 0 {
			p.failNext--
			refuse = true
		}
		closed := p.closed
		p.mu.Unlock()
		core.Log.Note("px.accept", fmt.Sprintf("n=%d refuse=%v", n, refuse))
		if refuse || closed {
			rst(c)
			continue
		}
		s, err := net.DialTimeout("tcp", p.target, 5*time.Second)
		if err != nil {
			rst(c)
			continue
		}
		pc := &pconn{n: n, c: c, s: s, stallCh: make(chan struct{})}
		p.mu.Lock()
		p.conns[n] = pc
		p.mu.Unlock()
		go p.serve(pc)
	}
}

func rst(c net.Conn) {
	if t, ok := c.(*net.TCPConn); ok {
		t.SetLinger(0)
	}
	c.Close()
}

func (p *Proxy) kill(pc *pconn, kind string) {
	switch kind {
	case BLACKHOLE:
		atomic.CompareAndSwapInt32(&pc.black, 0, 1)
		return
	case STALL:
		if atomic.CompareAndSwapInt32(&pc.black, 0, 2) {
			// interrupt reads that are already pending: from now on nothing is consumed from either side
			pc.c.SetReadDeadline(time.Unix(1, 0))
			pc.s.SetReadDeadline(time.Unix(1, 0))
		}
		return
	}
	if !atomic.CompareAndSwapInt32(&pc.dead, 0, 1) {
		return
	}
	close(pc.stallCh)
	switch kind {
	case CLOSE1000, CLOSE1001, CLOSE1012, CLOSE1013:
		code := byte(0xe8) // 1000 = 0x03e8
		switch kind {
		case CLOSE1001:
			code = 0xe9
		case CLOSE1012:
			code = 0xf4
		case CLOSE1013:
			code = 0xf5
		}
		if pc.ws {
			// unmasked server->client close frame with a 2-byte status code
			pc.c.SetWriteDeadline(time.Now().Add(time.Second))
			pc.c.Write([]byte{0x88, 0x02, 0x03, code})
		}
		for _, c := range []net.Conn{pc.c, pc.s} {
			c := c
			if t, ok := c.(*net.TCPConn); ok {
				t.CloseWrite()
			}
			go func() {
				c.SetReadDeadline(time.Now().Add(2 * time.Second))
				io.Copy(io.Discard, c)
				c.Close()
			}()
		}
	case RST:
		rst(pc.c)
		rst(pc.s)
	default: // FIN
		drain := p.DrainFor
		if drain == 0 {
			drain = 2 * time.Second
		}
		for _, c := range []net.Conn{pc.c, pc.s} {
			c := c
			if t, ok := c.(*net.TCPConn); ok {
				t.CloseWrite()
			}
			go func() {
				c.SetReadDeadline(time.Now().Add(drain))
				if _, err := io.Copy(io.Discard, c); err == nil && c == pc.s {
					atomic.StoreInt32(&pc.srvEOF, 1) // the server closed its side as well
				}
				c.Close()
			}()
		}
	}
}

func readHeaderBlock(br *bufio.Reader) ([]byte, error) {
	var buf bytes.Buffer
	for {
		line, err := br.ReadBytes('\n')
		buf.Write(line)
		if err != nil {
			return buf.Bytes(), err
		}
		if len(line) <= 2 && (string(line) == "\r\n" || string(line) == "\n") {
			return buf.Bytes(), nil
		}
		if buf.Len() > 1<<20 {
			return buf.Bytes(), fmt.Errorf("header too large")
		}
	}
}

func (p *Proxy) serve(pc *pconn) {
	cbr := bufio.NewReaderSize(pc.c, 64<<10)
	sbr := bufio.NewReaderSize(pc.s, 64<<10)
	defer func() {
		p.kill(pc, RST)
	}()
	// The first request decides whether this is a websocket connection.
	peek, err := cbr.Peek(1)
	if err != nil || len(peek) == 0 {
		return
	}
	hdr, err := readHeaderBlock(cbr)
	if err != nil {
		return
	}
	isUpgrade := bytes.Contains(bytes.ToLower(hdr), []byte("upgrade: websocket"))
	p.mu.Lock()
	sw := false
	if isUpgrade && p.swallow > 0 {
		p.swallow--
		sw = true
	}
	p.mu.Unlock()
	if sw {
		core.Log.Note("px.swallow", fmt.Sprintf("c%d upgrade request swallowed", pc.n))
		pc.c.SetReadDeadline(time.Now().Add(110 * time.Second))
		io.Copy(io.Discard, cbr) // until the client gives up
		return
	}
	if !isUpgrade {
		// plain HTTP: raw relay with byte-position faults
		done := make(chan struct{}, 2)
		go func() {
			p.rawRelay(pc, C2S, io.MultiReader(bytes.NewReader(hdr), cbr), pc.s)
			done <- struct{}{}
		}()
		go func() {
			p.rawRelay(pc, S2C, sbr, pc.c)
			done <- struct{}{}
		}()
		<-done
		// let the other direction finish what is in flight
		select {
		case <-done:
		case <-time.After(200 * time.Millisecond):
		}
		return
	}
	if _, err := pc.s.Write(hdr); err != nil {
		return
	}
	rh, err := readHeaderBlock(sbr)
	if err != nil {
		return
	}
	if _, err := pc.c.Write(rh); err != nil {
		return
	}
	if !bytes.HasPrefix(rh, []byte("HTTP/1.1 101")) {
		return
	}
	pc.ws = true
	p.mu.Lock()
	if p.blackNext > 0 {
		p.blackNext--
		atomic.StoreInt32(&pc.black, 1)
		core.Log.Note("px.blackhole", fmt.Sprintf("c%d silent from the handshake on", pc.n))
	}
	p.mu.Unlock()
	done := make(chan struct{}, 2)
	go func() { p.frameRelay(pc, C2S, cbr, pc.s); done <- struct{}{} }()
	go func() { p.frameRelay(pc, S2C, sbr, pc.c); done <- struct{}{} }()
	<-done
	if atomic.LoadInt32(&pc.dead) == 0 {
		// one side ended by itself (EOF / reset): propagate as the same kind of ending
		p.kill(pc, FIN)
	}
	select {
	case <-done:
	case <-time.After(3 * time.Second):
	}
}

func (p *Proxy) rawRelay(pc *pconn, d Dir, src io.Reader, dst net.Conn) {
	buf := make([]byte, 32<<10)
	for {
		n, err := src.Read(buf)
		if n > 0 {
			if b := atomic.LoadInt32(&pc.black); b == 1 {
				continue
			} else if b == 2 {
				<-pc.stallCh
				return
			}
			chunk := buf[:n]
			p.mu.Lock()
			rf := p.rawCut
			before := p.rawBytes[d]
			p.rawBytes[d] += int64(n)
			p.mu.Unlock()
			if rf != nil && rf.Dir == d && atomic.LoadInt32(&rf.fired) == 0 && before+int64(n) >= rf.After {
				if atomic.CompareAndSwapInt32(&rf.fired, 0, 1) {
					k := rf.After - before
					if k < 0 {
						k = 0
					}
					if k > 0 {
						dst.Write(chunk[:k])
					}
					core.Log.Note("px.rawfault", fmt.Sprintf("%s %s after=%d", rf.Kind, d, rf.After))
					p.kill(pc, rf.Kind)
					if rf.Kind == BLACKHOLE || rf.Kind == STALL {
						continue
					}
					return
				}
			}
			if _, werr := dst.Write(chunk); werr != nil {
				return
			}
		}
		if err != nil {
			if t, ok := dst.(*net.TCPConn); ok && err == io.EOF {
				t.CloseWrite()
			}
			return
		}
	}
}

var tokenRe = regexp.MustCompile(`T[a-z0-9]+x[0-9]+`)

func summarise(payload []byte) *MsgInfo {
	mi := &MsgInfo{Len: len(payload)}
	var m map[string]json.RawMessage
	dec := json.NewDecoder(bytes.NewReader(payload))
	if err := dec.Decode(&m); err != nil {
		return mi
	}
	// exactly one JSON value
	if dec.More() {
		return mi
	}
	mi.Valid = true
	if id, ok := m["id"]; ok {
		mi.ID = string(id)
	}
	if me, ok := m["method"]; ok {
		json.Unmarshal(me, &mi.Method)
	}
	if r, ok := m["result"]; ok {
		mi.HasResult = true
		mi.Result = core.Trunc(string(r), 200)
	}
	if e, ok := m["error"]; ok {
		mi.HasError = true
		var ec struct {
			Code int `json:"code"`
		}
		json.Unmarshal(e, &ec)
		mi.ErrCode = ec.Code
	}
	if pr, ok := m["params"]; ok {
		mi.Params = core.Trunc(string(pr), 200)
	}
	mi.Token = tokenRe.FindString(string(payload))
	return mi
}

func (p *Proxy) frameRelay(pc *pconn, d Dir, src *bufio.Reader, dst net.Conn) {
	defer func() {
		// a relay that was kicked out of a read because the connection went into STALL mode parks here
		if atomic.LoadInt32(&pc.black) == 2 && atomic.LoadInt32(&pc.dead) == 0 {
			<-pc.stallCh
		}
	}()
	for {
		if atomic.LoadInt32(&pc.black) == 2 {
			return
		}
		for atomic.LoadInt32(&p.paused[d]) == 1 && atomic.LoadInt32(&pc.dead) == 0 {
			time.Sleep(2 * time.Millisecond)
		}
		var hdr [14]byte
		if _, err := io.ReadFull(src, hdr[:2]); err != nil {
			if pc.fragOpen[d] && atomic.LoadInt32(&pc.dead) == 0 && atomic.LoadInt32(&pc.black) == 0 && err != io.EOF && err != io.ErrUnexpectedEOF {
				p.mu.Lock()
				p.resets++
				p.mu.Unlock()
				core.Log.Note("px.reset", fmt.Sprintf("c%d %s inside a fragmented message: %v", pc.n, d, err))
			} else if pc.fragOpen[d] && atomic.LoadInt32(&pc.dead) == 0 && atomic.LoadInt32(&pc.black) == 0 {
				p.mu.Lock()
				p.torn = append(p.torn, fmt.Sprintf("%s conn %d: the sender ended the stream inside a fragmented message (%d bytes of it sent, final fragment missing): %v", d, pc.n, len(pc.fragBuf[d]), err))
				p.mu.Unlock()
				core.Log.Note("px.torn", fmt.Sprintf("c%d %s message open at end of stream", pc.n, d))
			}
			return
		}
		hl := 2
		fin := hdr[0]&0x80 != 0
		rsv := hdr[0] & 0x70
		opcode := int(hdr[0] & 0x0f)
		masked := hdr[1]&0x80 != 0
		plen := int64(hdr[1] & 0x7f)
		switch plen {
		case 126:
			if _, err := io.ReadFull(src, hdr[2:4]); err != nil {
				return
			}
			plen = int64(hdr[2])<<8 | int64(hdr[3])
			hl = 4
		case 127:
			if _, err := io.ReadFull(src, hdr[2:10]); err != nil {
				return
			}
			plen = 0
			for i := 2; i < 10; i++ {
				plen = plen<<8 | int64(hdr[i])
			}
			hl = 10
		}
		var mask [4]byte
		if masked {
			if _, err := io.ReadFull(src, hdr[hl:hl+4]); err != nil {
				return
			}
			copy(mask[:], hdr[hl:hl+4])
			hl += 4
		}
		if plen > 256<<20 {
			if atomic.LoadInt32(&pc.dead) == 0 {
				p.protoErr("%s conn %d: absurd frame length %d", d, pc.n, plen)
			}
			return
		}
		payload := make([]byte, plen)
		p.mu.Lock()
		rthr := p.readThr[d]
		p.mu.Unlock()
		var rerr error
		got := 0
		if rthr > 0 {
			const slice = 1 << 16
			for got < len(payload) && rerr == nil {
				end := got + slice
				if end > len(payload) {
					end = len(payload)
				}
				var n int
				n, rerr = io.ReadFull(src, payload[got:end])
				got += n
				time.Sleep(time.Duration(float64(n) / float64(rthr) * float64(time.Second)))
			}
		} else {
			got, rerr = io.ReadFull(src, payload)
		}
		if rerr != nil {
			if got > 0 && atomic.LoadInt32(&pc.dead) == 0 && atomic.LoadInt32(&pc.black) == 0 && rerr != io.ErrUnexpectedEOF {
				// a reset, not an orderly end of stream: the kernel may have discarded data the sender had written
				p.mu.Lock()
				p.resets++
				p.mu.Unlock()
				core.Log.Note("px.reset", fmt.Sprintf("c%d %s inside a frame: %v", pc.n, d, rerr))
			} else if got > 0 && atomic.LoadInt32(&pc.dead) == 0 && atomic.LoadInt32(&pc.black) == 0 {
				p.mu.Lock()
				p.torn = append(p.torn, fmt.Sprintf("%s conn %d: the sender ended the stream inside a frame (op=%d, %d of %d payload bytes): %v", d, pc.n, opcode, got, plen, rerr))
				p.mu.Unlock()
				core.Log.Note("px.torn", fmt.Sprintf("c%d %s op=%d %d/%d", pc.n, d, opcode, got, plen))
			}
			return
		}
		if atomic.LoadInt32(&pc.dead) != 0 {
			// the proxy has ended this connection itself (FIN/RST/close-frame fault): its drain goroutine reads the
			// same socket from now on, so what this relay still sees is no longer a contiguous stream - nothing
			// to validate or forward
			return
		}
		if b := atomic.LoadInt32(&pc.black); b == 1 {
			continue // discard silently
		} else if b == 2 {
			<-pc.stallCh
			return
		}

		// ---- observe
		fi := FrameInfo{ConnN: pc.n, Dir: d, Opcode: opcode, Fin: fin, Len: int(plen)}
		if rsv != 0 {
			p.protoErr("%s conn %d: reserved bits set (%#x)", d, pc.n, rsv)
		}
		if d == C2S && !masked {
			p.protoErr("c2s conn %d: unmasked client frame", pc.n)
		}
		if d == S2C && masked {
			p.protoErr("s2c conn %d: masked server frame", pc.n)
		}
		plain := payload
		if masked {
			plain = make([]byte, len(payload))
			for i := range payload {
				plain[i] = payload[i] ^ mask[i&3]
			}
		}
		switch {
		case opcode >= 8:
			if !fin {
				p.protoErr("%s conn %d: fragmented control frame op=%d", d, pc.n, opcode)
			}
			if plen > 125 {
				p.protoErr("%s conn %d: control frame too long (%d)", d, pc.n, plen)
			}
			if opcode != 8 && opcode != 9 && opcode != 10 {
				p.protoErr("%s conn %d: unknown control opcode %d", d, pc.n, opcode)
			}
		case opcode == 0:
			if !pc.fragOpen[d] {
				p.protoErr("%s conn %d: continuation frame without a started message", d, pc.n)
			} else {
				pc.fragBuf[d] = append(pc.fragBuf[d], plain...)
				if fin {
					fi.Msg = summarise(pc.fragBuf[d])
					pc.fragOpen[d] = false
					pc.fragBuf[d] = nil
				}
			}
		case opcode == 1 || opcode == 2:
			if pc.fragOpen[d] {
				p.protoErr("%s conn %d: new data frame while a fragmented message is open", d, pc.n)
				pc.fragBuf[d] = nil
			}
			if fin {
				fi.Msg = summarise(plain)
				pc.fragOpen[d] = false
			} else {
				pc.fragOpen[d] = true
				pc.fragBuf[d] = append([]byte(nil), plain...)
			}
		default:
			p.protoErr("%s conn %d: unknown opcode %d", d, pc.n, opcode)
		}
		if fi.Msg != nil {
			m := fi.Msg
			if !m.Valid {
				p.protoErr("%s conn %d: data message is not exactly one JSON object: %q", d, pc.n, core.Trunc(string(plain), 120))
			} else if m.Method == "" && m.HasResult == m.HasError {
				p.protoErr("%s conn %d: data message is neither request nor response (result=%v error=%v)", d, pc.n, m.HasResult, m.HasError)
			}
		}

		p.mu.Lock()
		if opcode < 8 {
			p.dataN[d]++
			fi.DataN = p.dataN[d]
		}
		var fire *Fault
		for _, f := range p.faults {
			if f.Dir != d || atomic.LoadInt32(&f.fired) != 0 {
				continue
			}
			hit := false
			if f.Ordinal > 0 {
				if opcode < 8 {
					if int(atomic.AddInt32(&f.seen, 1)) == f.Ordinal {
						hit = true
					}
				}
			} else if f.Match != nil && f.Match(fi) {
				hit = true
			}
			if hit {
				atomic.StoreInt32(&f.fired, 1)
				fire = f
				break
			}
		}
		hold := p.hold
		obs := p.observe
		thr := p.throttle[d]
		p.mu.Unlock()

		arg := fmt.Sprintf("c%d %s op=%d fin=%v len=%d", pc.n, d, opcode, fin, plen)
		if fi.Msg != nil {
			arg += fmt.Sprintf(" id=%s m=%s res=%v err=%v tok=%s", fi.Msg.ID, fi.Msg.Method, fi.Msg.HasResult, fi.Msg.HasError, fi.Msg.Token)
		}
		fi.Seq = core.Log.Note("px.frame", arg)
		p.mu.Lock()
		if p.KeepFrames && len(p.frames) < p.MaxKeep {
			p.frames = append(p.frames, fi)
		}
		p.mu.Unlock()
		if obs != nil {
			obs(fi, plain)
		}

		whole := append(append([]byte(nil), hdr[:hl]...), payload...)
		if fire != nil {
			var k int
			switch fire.Pos {
			case 0:
				k = 0
			case 1:
				k = 1
			case 2:
				k = hl + len(payload)/2
			case 3:
				k = len(whole) - 1
			default:
				k = len(whole)
			}
			if k > 0 {
				dst.Write(whole[:k])
			}
			core.Log.Note("px.fault", fmt.Sprintf("%s %s pos=%d frame#%d op=%d len=%d", fire.Kind, d, fire.Pos, fi.DataN, opcode, plen))
			p.kill(pc, fire.Kind)
			if fire.OnFire != nil {
				fire.OnFire()
			}
			if fire.Kind == BLACKHOLE || fire.Kind == STALL {
				continue
			}
			return
		}
		if hold != nil {
			if ch := hold(fi); ch != nil {
				select {
				case <-ch:
				case <-pc.stallCh:
					return
				case <-time.After(20 * time.Second):
				}
			}
		}
		if thr > 0 {
			// forward in slices to emulate a slow link
			const slice = 1024
			for off := 0; off < len(whole); off += slice {
				end := off + slice
				if end > len(whole) {
					end = len(whole)
				}
				if _, err := dst.Write(whole[off:end]); err != nil {
					return
				}
				time.Sleep(time.Duration(float64(end-off) / float64(thr) * float64(time.Second)))
			}
			continue
		}
		if _, err := dst.Write(whole); err != nil {
			return
		}
	}
}
