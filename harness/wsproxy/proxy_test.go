package wsproxy

import (
	"bufio"
	"fmt"
	"net"
	"net/http"
	"net/http/httptest"
	"strings"
	"testing"
	"time"

	"github.com/gorilla/websocket"
)

// Self-tests of the frame validator: illegal frame sequences and torn JSON must
// be reported, a clean conversation must not.

func echoServer(t *testing.T) *httptest.Server {
	up := websocket.Upgrader{CheckOrigin: func(*http.Request) bool { return true }}
	return httptest.NewServer(http.HandlerFunc(func(w http.ResponseWriter, r *http.Request) {
		c, err := up.Upgrade(w, r, nil)
		if err != nil {
			return
		}
		defer c.Close()
		for {
			mt, msg, err := c.ReadMessage()
			if err != nil {
				return
			}
			c.WriteMessage(mt, msg)
		}
	}))
}

func TestCleanConversationIsSilent(t *testing.T) {
	ts := echoServer(t)
	defer ts.Close()
	px := New(ts.Listener.Addr().String())
	defer px.Close()
	c, _, err := websocket.DefaultDialer.Dial(px.WSURL(), nil)
	if err != nil {
		t.Fatal(err)
	}
	big := `{"jsonrpc":"2.0","id":1,"method":"m","params":["` + strings.Repeat("x", 20000) + `"]}`
	for _, m := range []string{`{"jsonrpc":"2.0","id":1,"method":"m","params":[]}`, big, `{"jsonrpc":"2.0","id":1,"result":5}`} {
		c.WriteMessage(websocket.TextMessage, []byte(m))
		c.ReadMessage()
	}
	c.WriteMessage(websocket.PingMessage, nil)
	c.Close()
	time.Sleep(50 * time.Millisecond)
	if errs := px.ProtoErrors(); len(errs) != 0 {
		t.Fatalf("clean conversation flagged: %v", errs)
	}
	if px.DataFrames(C2S) < 3 {
		t.Fatalf("frames not observed: %d", px.DataFrames(C2S))
	}
	var sawToken bool
	for _, f := range px.Frames() {
		if f.Msg != nil && f.Msg.Method == "m" {
			sawToken = true
		}
	}
	if !sawToken {
		t.Fatalf("message summaries missing")
	}
}

// rawClient performs the upgrade by hand so that arbitrary frames can be written.
func rawClient(t *testing.T, addr string) net.Conn {
	c, err := net.Dial("tcp", addr)
	if err != nil {
		t.Fatal(err)
	}
	fmt.Fprintf(c, "GET / HTTP/1.1\r\nHost: x\r\nUpgrade: websocket\r\nConnection: Upgrade\r\nSec-WebSocket-Key: dGhlIHNhbXBsZSBub25jZQ==\r\nSec-WebSocket-Version: 13\r\n\r\n")
	br := bufio.NewReader(c)
	for {
		l, err := br.ReadString('\n')
		if err != nil {
			t.Fatal(err)
		}
		if l == "\r\n" {
			break
		}
	}
	return c
}

func frame(fin bool, op byte, masked bool, payload string) []byte {
	b0 := op
	if fin {
		b0 |= 0x80
	}
	b := []byte{b0}
	l := byte(len(payload))
	if masked {
		b = append(b, 0x80|l, 1, 2, 3, 4)
		for i := 0; i < len(payload); i++ {
			b = append(b, payload[i]^byte(1+i%4))
		}
	} else {
		b = append(b, l)
		b = append(b, payload...)
	}
	return b
}

func TestValidatorFlagsIllegalFrames(t *testing.T) {
	cases := []struct {
		name   string
		frames [][]byte
		want   string
	}{
		{"continuation without start", [][]byte{frame(true, 0, true, `{}`)}, "continuation frame without a started message"},
		{"unmasked client frame", [][]byte{frame(true, 1, false, `{"jsonrpc":"2.0","id":1,"method":"m"}`)}, "unmasked client frame"},
		{"fragmented control frame", [][]byte{frame(false, 9, true, "")}, "fragmented control frame"},
		{"interleaved data frames", [][]byte{frame(false, 1, true, `{"jsonrpc":"2.0",`), frame(true, 1, true, `{"jsonrpc":"2.0","id":1,"method":"m"}`)}, "new data frame while a fragmented message is open"},
		{"torn JSON", [][]byte{frame(true, 1, true, `{"jsonrpc":"2.0","id":1,"meth`)}, "not exactly one JSON object"},
		{"two objects in one message", [][]byte{frame(true, 1, true, `{"jsonrpc":"2.0","id":1,"method":"m"}{"jsonrpc":"2.0","id":2,"method":"m"}`)}, "not exactly one JSON object"},
		{"neither request nor response", [][]byte{frame(true, 1, true, `{"jsonrpc":"2.0","id":1}`)}, "neither request nor response"},
		{"reserved bits", [][]byte{append([]byte{0x80 | 0x40 | 1}, frame(true, 1, true, `{"jsonrpc":"2.0","id":1,"method":"m"}`)[1:]...)}, "reserved bits"},
	}
	for _, c := range cases {
		ts := echoServer(t)
		px := New(ts.Listener.Addr().String())
		conn := rawClient(t, px.Addr())
		for _, f := range c.frames {
			conn.Write(f)
		}
		time.Sleep(60 * time.Millisecond)
		found := false
		for _, e := range px.ProtoErrors() {
			if strings.Contains(e, c.want) {
				found = true
			}
		}
		if !found {
			t.Errorf("%s: validator did not report %q (got %v)", c.name, c.want, px.ProtoErrors())
		}
		conn.Close()
		px.Close()
		ts.Close()
	}
}

func TestFaultInjectionPositions(t *testing.T) {
	for pos := 0; pos < 5; pos++ {
		ts := echoServer(t)
		px := New(ts.Listener.Addr().String())
		c, _, err := websocket.DefaultDialer.Dial(px.WSURL(), nil)
		if err != nil {
			t.Fatal(err)
		}
		f := &Fault{Kind: RST, Dir: C2S, Ordinal: 2, Pos: pos}
		px.Arm(f)
		c.WriteMessage(websocket.TextMessage, []byte(`{"jsonrpc":"2.0","id":1,"method":"a"}`))
		if _, _, err := c.ReadMessage(); err != nil {
			t.Fatalf("pos %d: first message must pass: %v", pos, err)
		}
		c.WriteMessage(websocket.TextMessage, []byte(`{"jsonrpc":"2.0","id":2,"method":"b"}`))
		c.SetReadDeadline(time.Now().Add(2 * time.Second))
		if _, _, err := c.ReadMessage(); err == nil {
			t.Errorf("pos %d: connection survived the fault", pos)
		}
		if !f.Fired() {
			t.Errorf("pos %d: fault did not fire", pos)
		}
		c.Close()
		px.Close()
		ts.Close()
	}
}
