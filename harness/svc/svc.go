// Package svc holds the instrumented handler objects used by the fault,
// schedule and stream properties. Every call carries a unique token; handlers
// record entries/exits/contexts per token and can be held on per-token gates.
package svc

import (
	"context"
	"encoding/json"
	"errors"
	"fmt"
	"math"
	"net/http"
	"reflect"
	"strings"
	"sync"
	"sync/atomic"
	"time"

	jsonrpc "github.com/filecoin-project/go-jsonrpc"
)

type Item struct {
	Tok string `json:"t"`
	Seq int    `json:"s"`
	Pad string `json:"p,omitempty"`
}

type Rec struct {
	Tok          string
	Enters       int
	Exits        int
	Ctx          context.Context
	CtxErrAtExit error
	Method       string
	Note         string // free-form observation recorded by the handler (e.g. outcome of a reverse call)
	Sent         int64  // stream values handed to the channel
	Closed       bool   // stream channel closed by handler
	entered      chan struct{}
	exited       chan struct{}
}

type Svc struct {
	mu    sync.Mutex
	recs  map[string]*Rec
	gates map[string]chan struct{}
	held  map[string]bool
	Name  string
	total int64
}

func New() *Svc {
	return &Svc{recs: map[string]*Rec{}, gates: map[string]chan struct{}{}, held: map[string]bool{}}
}

func (s *Svc) rec(tok string) *Rec {
	r, ok := s.recs[tok]
	if !ok {
		r = &Rec{Tok: tok, entered: make(chan struct{}), exited: make(chan struct{})}
		s.recs[tok] = r
	}
	return r
}

// Hold makes the handler for tok block until Release(tok) or ctx done.
func (s *Svc) Hold(tok string) {
	s.mu.Lock()
	defer s.mu.Unlock()
	if _, ok := s.gates[tok]; !ok {
		s.gates[tok] = make(chan struct{})
	}
	s.held[tok] = true
}
func (s *Svc) Release(tok string) {
	s.mu.Lock()
	defer s.mu.Unlock()
	if g, ok := s.gates[tok]; ok && s.held[tok] {
		close(g)
		s.held[tok] = false
	}
}
func (s *Svc) ReleaseAll() {
	s.mu.Lock()
	defer s.mu.Unlock()
	for tok, g := range s.gates {
		if s.held[tok] {
			close(g)
			s.held[tok] = false
		}
	}
}
func (s *Svc) Get(tok string) Rec {
	s.mu.Lock()
	defer s.mu.Unlock()
	r := s.rec(tok)
	return Rec{Tok: r.Tok, Note: r.Note, Enters: r.Enters, Exits: r.Exits, Ctx: r.Ctx, CtxErrAtExit: r.CtxErrAtExit, Method: r.Method,
		Sent: atomic.LoadInt64(&r.Sent), Closed: r.Closed, entered: r.entered, exited: r.exited}
}
func (s *Svc) Enters(tok string) int { return s.Get(tok).Enters }
func (s *Svc) Total() int64          { return atomic.LoadInt64(&s.total) }
func (s *Svc) Running() []string {
	s.mu.Lock()
	defer s.mu.Unlock()
	var out []string
	for t, r := range s.recs {
		if r.Enters > r.Exits {
			out = append(out, t)
		}
	}
	return out
}
func (s *Svc) EnteredCh(tok string) <-chan struct{} {
	s.mu.Lock()
	defer s.mu.Unlock()
	return s.rec(tok).entered
}
func (s *Svc) ExitedCh(tok string) <-chan struct{} {
	s.mu.Lock()
	defer s.mu.Unlock()
	return s.rec(tok).exited
}
func (s *Svc) WaitEntered(tok string, d time.Duration) bool {
	select {
	case <-s.EnteredCh(tok):
		return true
	case <-time.After(d):
		return false
	}
}
func (s *Svc) Tokens() []string {
	s.mu.Lock()
	defer s.mu.Unlock()
	var out []string
	for t := range s.recs {
		out = append(out, t)
	}
	return out
}

func (s *Svc) enter(ctx context.Context, method, tok string) (*Rec, chan struct{}) {
	atomic.AddInt64(&s.total, 1)
	s.mu.Lock()
	r := s.rec(tok)
	r.Enters++
	r.Ctx = ctx
	r.Method = method
	if r.Enters == 1 {
		close(r.entered)
	}
	g := s.gates[tok]
	if !s.held[tok] {
		g = nil
	}
	s.mu.Unlock()
	return r, g
}
func (s *Svc) exit(ctx context.Context, r *Rec) {
	s.mu.Lock()
	r.Exits++
	if ctx != nil {
		r.CtxErrAtExit = ctx.Err()
	}
	if r.Exits == 1 {
		close(r.exited)
	}
	s.mu.Unlock()
}
func wait(ctx context.Context, g chan struct{}) {
	if g == nil {
		return
	}
	select {
	case <-g:
	case <-ctx.Done():
	}
}

// ---- RPC methods -----------------------------------------------------------

func Reply(tok string) string   { return "R:" + tok }
func ErrText(tok string) string { return "E:" + tok + ":handler-made" }

func (s *Svc) Echo(ctx context.Context, tok string, pad string) (string, error) {
	r, g := s.enter(ctx, "Echo", tok)
	defer s.exit(ctx, r)
	wait(ctx, g)
	return Reply(tok), nil
}

// Mirror returns a value that depends on every byte of its (possibly large) argument: the reply for tok,
// the length of pad and pad itself, reversed in 7-byte blocks.
func (s *Svc) Mirror(ctx context.Context, tok string, pad string) (string, error) {
	r, g := s.enter(ctx, "Mirror", tok)
	defer s.exit(ctx, r)
	wait(ctx, g)
	return MirrorOf(tok, pad), nil
}

func MirrorOf(tok, pad string) string {
	b := []byte(pad)
	for i := 0; i+7 <= len(b); i += 7 {
		b[i], b[i+6] = b[i+6], b[i]
	}
	return fmt.Sprintf("%s:%d:%s", Reply(tok), len(pad), b)
}

// HoldHard ignores ctx while held (used where the handler must outlive the connection).
func (s *Svc) HoldHard(ctx context.Context, tok string, pad string) (string, error) {
	r, g := s.enter(ctx, "HoldHard", tok)
	defer s.exit(ctx, r)
	if g != nil {
		<-g
	}
	return Reply(tok), nil
}

// NoCtx has no context parameter at all.
func (s *Svc) NoCtx(tok string) (string, error) {
	r, g := s.enter(context.Background(), "NoCtx", tok)
	defer s.exit(nil, r)
	if g != nil {
		select {
		case <-g:
		case <-time.After(3 * time.Second):
		}
	}
	return Reply(tok), nil
}

func (s *Svc) Big(ctx context.Context, tok string, n int) (string, error) {
	r, g := s.enter(ctx, "Big", tok)
	defer s.exit(ctx, r)
	wait(ctx, g)
	return Reply(tok) + ":" + strings.Repeat("x", n), nil
}

// Handle is decoded by a custom parameter decoder (HandleDecoder), which rejects what it does not like
// the way the repository's own test decoder does: with an invalid reflect.Value and an error.
// Num returns a float the caller chooses: kind 0 a finite value derived from tok, 1 NaN, 2 +Inf (values
// encoding/json cannot encode).
func (s *Svc) Num(ctx context.Context, tok string, kind int) (float64, error) {
	r, g := s.enter(ctx, "Num", tok)
	defer s.exit(ctx, r)
	wait(ctx, g)
	switch kind {
	case 1:
		return math.NaN(), nil
	case 2:
		return math.Inf(1), nil
	}
	return float64(len(tok)) + 0.5, nil
}

type Handle struct{ N int }

func HandleDecoder(ctx context.Context, b []byte) (reflect.Value, error) {
	var n int
	if err := json.Unmarshal(b, &n); err != nil {
		return reflect.Value{}, fmt.Errorf("bad handle: %w", err)
	}
	if n < 0 {
		return reflect.Value{}, errors.New("unknown handle")
	}
	return reflect.ValueOf(Handle{n}), nil
}

func (s *Svc) UseHandle(ctx context.Context, tok string, h Handle) (string, error) {
	r, g := s.enter(ctx, "UseHandle", tok)
	defer s.exit(ctx, r)
	wait(ctx, g)
	return fmt.Sprintf("%s:h%d", Reply(tok), h.N), nil
}

func (s *Svc) Fail(ctx context.Context, tok string) (string, error) {
	r, g := s.enter(ctx, "Fail", tok)
	defer s.exit(ctx, r)
	wait(ctx, g)
	return "", errors.New(ErrText(tok))
}

func (s *Svc) Void(ctx context.Context, tok string) {
	r, g := s.enter(ctx, "Void", tok)
	defer s.exit(ctx, r)
	wait(ctx, g)
}

func (s *Svc) Note(ctx context.Context, tok string) error {
	r, g := s.enter(ctx, "Note", tok)
	defer s.exit(ctx, r)
	wait(ctx, g)
	return nil
}

// BoomV panics in a method whose Go signature has no error result; BoomVoid in one with no results at all.
func (s *Svc) BoomV(ctx context.Context, tok string, kind int) string {
	r, _ := s.enter(ctx, "BoomV", tok)
	defer s.exit(ctx, r)
	DoPanic(kind, tok)
	return "survived:" + tok
}
func (s *Svc) BoomVoid(ctx context.Context, tok string, kind int) {
	r, _ := s.enter(ctx, "BoomVoid", tok)
	defer s.exit(ctx, r)
	DoPanic(kind, tok)
}

func (s *Svc) Boom(ctx context.Context, tok string, kind int) (string, error) {
	r, _ := s.enter(ctx, "Boom", tok)
	defer s.exit(ctx, r)
	DoPanic(kind, tok)
	return Reply(tok), nil
}

var barrierMu sync.Mutex
var barriers = map[string]*barrier{}

type barrier struct {
	n  int
	ch chan struct{}
}

// BoomBarrier waits until n handlers of the same group have arrived (or 2 s), then all panic together.
func (s *Svc) BoomBarrier(ctx context.Context, tok string, kind int, group string, n int) (string, error) {
	r, _ := s.enter(ctx, "BoomBarrier", tok)
	defer s.exit(ctx, r)
	barrierMu.Lock()
	b := barriers[group]
	if b == nil {
		b = &barrier{ch: make(chan struct{})}
		barriers[group] = b
	}
	b.n++
	if b.n == n {
		close(b.ch)
	}
	barrierMu.Unlock()
	select {
	case <-b.ch:
	case <-time.After(2 * time.Second):
	}
	DoPanic(kind, tok)
	return Reply(tok), nil
}

// BoomAfterCancel panics only once its context has been cancelled (the caller is still waiting).
func (s *Svc) BoomAfterCancel(ctx context.Context, tok string, kind int) (string, error) {
	r, _ := s.enter(ctx, "BoomAfterCancel", tok)
	defer s.exit(ctx, r)
	select {
	case <-ctx.Done():
	case <-time.After(5 * time.Second):
	}
	DoPanic(kind, tok)
	return Reply(tok), nil
}

// BoomPtr dereferences its pointer argument; called with JSON null it panics with a nil dereference.
func (s *Svc) BoomPtr(ctx context.Context, tok string, p *Custom) (string, error) {
	r, _ := s.enter(ctx, "BoomPtr", tok)
	defer s.exit(ctx, r)
	return fmt.Sprintf("%s:%d", Reply(tok), p.A), nil
}

func (s *Svc) BoomNote(ctx context.Context, tok string, kind int) error {
	r, _ := s.enter(ctx, "BoomNote", tok)
	defer s.exit(ctx, r)
	DoPanic(kind, tok)
	return nil
}

func (s *Svc) BoomSub(ctx context.Context, tok string, kind int) (<-chan Item, error) {
	r, _ := s.enter(ctx, "BoomSub", tok)
	defer s.exit(ctx, r)
	DoPanic(kind, tok)
	return nil, nil
}

type Stringer struct{ tok string }

func (s Stringer) String() string { panic("nested:" + s.tok) }

type Custom struct {
	A int
	B string
}

// APIErr is a codec-style error of the application.
type APIErr struct{ Msg string }

func (e *APIErr) Error() string { return e.Msg }
func (e *APIErr) ToJSONRPCError() (jsonrpc.JSONRPCError, error) {
	return jsonrpc.JSONRPCError{Code: 4242, Message: e.Msg}, nil
}
func (e *APIErr) FromJSONRPCError(j jsonrpc.JSONRPCError) error { e.Msg = j.Message; return nil }

// DoPanic raises one of the payload kinds.
func DoPanic(kind int, tok string) {
	switch kind {
	case 0:
		panic("boom:" + tok)
	case 1:
		panic(fmt.Errorf("boomerr:%s", tok))
	case 2:
		var m map[string]int
		m[tok] = 1
	case 3:
		var p *Custom
		_ = p.A
	case 4:
		var a []int
		_ = a[len(tok)]
	case 5:
		panic(Custom{A: 7, B: tok})
	case 6:
		panic(nil)
	case 7:
		panic(strings.Repeat("L", 1<<20) + tok)
	case 8:
		panic(&Custom{A: 1, B: tok})
	case 9:
		panic(Stringer{tok})
	case 10:
		panic(http.ErrAbortHandler) // the sentinel net/http uses to abort a handler silently
	case 11:
		panic(&APIErr{Msg: "apierr:" + tok}) // a typed API error (codec-style) used as the panic payload
	case 12:
		panic(fmt.Errorf("while handling %s: %w", tok, &APIErr{Msg: "apierr:" + tok}))
	}
}

// Stream modes.
const (
	SPrefilled  = 0 // buffered channel filled and closed before the call returns
	SGoroutine  = 1 // unbuffered, producer goroutine started before return
	SBursty     = 2
	SSlow       = 3
	SUntilCtx   = 4 // sends n values, then waits for ctx.Done, then closes
	SInfinite   = 5 // sends until ctx done
	SNeverClose = 6 // sends n values, never closes (until ctx done, then just returns without closing)
	SHoldBefore = 7 // the handler waits on its gate (or ctx) BEFORE returning the channel; then behaves like SGoroutine
)

func (s *Svc) Sub(ctx context.Context, tok string, n int, mode int) (<-chan Item, error) {
	r, g := s.enter(ctx, "Sub", tok)
	defer s.exit(ctx, r)
	if mode == SHoldBefore {
		wait(ctx, g)
		g = nil
		mode = SGoroutine
	}
	if mode == SPrefilled {
		ch := make(chan Item, n+1)
		for i := 0; i < n; i++ {
			ch <- Item{Tok: tok, Seq: i}
			atomic.AddInt64(&r.Sent, 1)
		}
		close(ch)
		s.mu.Lock()
		r.Closed = true
		s.mu.Unlock()
		return ch, nil
	}
	ch := make(chan Item)
	go func() {
		wait(ctx, g)
		send := func(i int) bool {
			select {
			case ch <- Item{Tok: tok, Seq: i}:
				atomic.AddInt64(&r.Sent, 1)
				return true
			case <-ctx.Done():
				return false
			}
		}
		closeIt := func() {
			s.mu.Lock()
			r.Closed = true
			s.mu.Unlock()
			close(ch)
		}
		switch mode {
		case SInfinite:
			for i := 0; ; i++ {
				if !send(i) {
					closeIt()
					return
				}
			}
		default:
			for i := 0; i < n; i++ {
				if mode == SBursty && i%17 == 16 {
					time.Sleep(2 * time.Millisecond)
				}
				if mode == SSlow {
					time.Sleep(300 * time.Microsecond)
				}
				if !send(i) {
					closeIt()
					return
				}
			}
			if mode == SUntilCtx {
				<-ctx.Done()
			}
			if mode == SNeverClose {
				<-ctx.Done()
				return
			}
			closeIt()
		}
	}()
	return ch, nil
}

// SubNE returns only a channel (no error value).
func (s *Svc) SubNE(ctx context.Context, tok string, n int, mode int) <-chan Item {
	ch, _ := s.Sub(ctx, tok, n, mode)
	return ch
}

// NoteFail is meant to be called as a notification; its handler fails.
func (s *Svc) NoteFail(ctx context.Context, tok string) error {
	r, _ := s.enter(ctx, "NoteFail", tok)
	defer s.exit(ctx, r)
	return errors.New(ErrText(tok))
}

// RevSub makes a reverse channel-returning call and reports how it ended.
func (s *Svc) RevSub(ctx context.Context, tok string) (string, error) {
	r, _ := s.enter(ctx, "RevSub", tok)
	defer s.exit(ctx, r)
	rc, ok := jsonrpc.ExtractReverseClient[RevAPI](ctx)
	if !ok {
		return "NOREV", nil
	}
	ch, err := rc.RSub(ctx, tok)
	if err != nil {
		return "", err
	}
	n := 0
	for range ch {
		n++
	}
	return fmt.Sprintf("got %d", n), nil
}

// RevSubN subscribes to the calling client's RSubN stream and reports how many values arrived and whether
// they were 0,1,2,... in order: "got <k> ordered=<bool>".
func (s *Svc) RevSubN(ctx context.Context, tok string, n int, everyMs int, lingerMs int) (string, error) {
	r, _ := s.enter(ctx, "RevSubN", tok)
	defer s.exit(ctx, r)
	rc, ok := jsonrpc.ExtractReverseClient[RevAPI](ctx)
	if !ok {
		return "NOREV", nil
	}
	ch, err := rc.RSubN(ctx, tok, n, everyMs, lingerMs)
	if err != nil {
		return "", err
	}
	k, ordered := 0, true
	for v := range ch {
		if v != k {
			ordered = false
		}
		k++
		atomic.AddInt64(&r.Sent, 1) // values received so far, readable through Get(tok).Sent
	}
	return fmt.Sprintf("got %d ordered=%v", k, ordered), nil
}

// RevN is a notification whose handler makes k reverse calls (outcome recorded in Note).
func (s *Svc) RevN(ctx context.Context, tok string, k int) error {
	r, _ := s.enter(ctx, "RevN", tok)
	defer s.exit(ctx, r)
	rc, ok := jsonrpc.ExtractReverseClient[RevAPI](ctx)
	if !ok {
		return nil
	}
	for i := 0; i < k; i++ {
		t := fmt.Sprintf("%s.r%d", tok, i)
		v, err := rc.Ident(ctx, t)
		s.mu.Lock()
		r.Note += fmt.Sprintf("[%s -> %q err=%v]", t, v, err)
		s.mu.Unlock()
	}
	return nil
}

// RevSpam keeps sending reverse notifications until one fails (or 20 000 were sent).
func (s *Svc) RevSpam(ctx context.Context, tok string, how int) (int, error) {
	r, _ := s.enter(ctx, "RevSpam", tok)
	defer s.exit(ctx, r)
	rc, ok := jsonrpc.ExtractReverseClient[RevAPI](ctx)
	if !ok {
		return 0, nil
	}
	n := 0
	for ; n < 20000; n++ {
		var err error
		switch how {
		case 1:
			err = rc.NotePingNC(tok) // no context at all: only the library's own failure path can end it
		case 2:
			err = rc.NotePing(context.Background(), tok)
		default:
			err = rc.NotePing(ctx, tok)
		}
		if err != nil {
			s.mu.Lock()
			r.Note = fmt.Sprintf("stopped after %d: %v", n, err)
			s.mu.Unlock()
			return n, nil
		}
	}
	return n, nil
}

// RevNoteBack sends one reverse notification whose client-side handler calls forward again.
func (s *Svc) RevNoteBack(ctx context.Context, tok string) (string, error) {
	r, _ := s.enter(ctx, "RevNoteBack", tok)
	defer s.exit(ctx, r)
	rc, ok := jsonrpc.ExtractReverseClient[RevAPI](ctx)
	if !ok {
		return "NOREV", nil
	}
	return "sent", rc.NoteBack(ctx, tok)
}

// RevAPI is the reverse-client proxy struct the server uses to call back.
type RevAPI struct {
	Ident  func(ctx context.Context, tok string) (string, error)
	IdentA func(ctx context.Context, tok string) (string, error) `rpc_method:"R.AliasIdent"`
	IdentT func(ctx context.Context, tok string) (string, error) `rpc_method:"R.Ident"`
	RFail  func(ctx context.Context, tok string) (string, error)
	RHold  func(ctx context.Context, tok string) (string, error)
	RBoom  func(ctx context.Context, tok string, kind int) (string, error)
	// notification-tagged reverse methods
	NotePing func(ctx context.Context, tok string) error `notify:"true"`
	NoteBack func(ctx context.Context, tok string) error `notify:"true"`
	// the same notification through a proxy field without a context parameter
	NotePingNC func(tok string) error `notify:"true" rpc_method:"R.NotePing"`
	RSub       func(ctx context.Context, tok string) (<-chan int, error)
	RBig       func(ctx context.Context, tok string, n int) (string, error)
	RSubN      func(ctx context.Context, tok string, n int, everyMs int, lingerMs int) (<-chan int, error)
	// retry-tagged reverse methods
	IdentR func(ctx context.Context, tok string) (string, error) `retry:"true" rpc_method:"R.Ident"`
	RHoldR func(ctx context.Context, tok string) (string, error) `retry:"true" rpc_method:"R.RHold"`
}

// Rev calls back k times into the client that issued this call.
// which: 0 Ident, 1 IdentA (client-side alias), 2 IdentT (method tag), 3 RFail, 4 RHold, 5 RBoom
func (s *Svc) Rev(ctx context.Context, tok string, k int, which int) (string, error) {
	r, g := s.enter(ctx, "Rev", tok)
	defer s.exit(ctx, r)
	rc, ok := jsonrpc.ExtractReverseClient[RevAPI](ctx)
	if !ok {
		return "NOREV", nil
	}
	wait(ctx, g)
	var last string
	for i := 0; i < k; i++ {
		var err error
		t := fmt.Sprintf("%s.r%d", tok, i)
		switch which {
		case 0:
			last, err = rc.Ident(ctx, t)
		case 1:
			last, err = rc.IdentA(ctx, t)
		case 2:
			last, err = rc.IdentT(ctx, t)
		case 3:
			last, err = rc.RFail(ctx, t)
		case 4:
			last, err = rc.RHold(ctx, t)
		case 5:
			last, err = rc.RBoom(ctx, t, 0)
		case 6: // detached context: only the library's own failure path can end this call
			last, err = rc.RHold(context.Background(), t)
		case 9: // a large answer from the client-side handler
			last, err = rc.RBig(ctx, t, 24<<20)
			last = fmt.Sprintf("rbig:%d:%s", len(last), Trunc40(last))
		case 10: // an answer of a few hundred KiB from the client-side handler
			last, err = rc.RBig(ctx, t, 300<<10)
			last = fmt.Sprintf("rbig:%d:%s", len(last), Trunc40(last))
		case 7: // retry-tagged, detached context
			last, err = rc.IdentR(context.Background(), t)
		case 8:
			last, err = rc.RHoldR(context.Background(), t)
		}
		s.mu.Lock()
		r.Note += fmt.Sprintf("[%s -> %q err=%v]", t, last, err)
		s.mu.Unlock()
		if err != nil {
			return "", fmt.Errorf("REVERR[%s]:%s", t, err.Error())
		}
	}
	return last, nil
}

// ---- client-side proxy struct ----------------------------------------------

type Client struct {
	Echo            func(ctx context.Context, tok string, pad string) (string, error)
	EchoR           func(ctx context.Context, tok string, pad string) (string, error) `retry:"true" rpc_method:"S.Echo"`
	EchoNR          func(ctx context.Context, tok string, pad string) (string, error) `retry:"false" rpc_method:"S.Echo"` // explicitly not retried
	NoCtx           func(tok string) (string, error)
	NoCtxR          func(tok string) (string, error) `retry:"true" rpc_method:"S.NoCtx"`
	HoldHard        func(ctx context.Context, tok string, pad string) (string, error)
	Big             func(ctx context.Context, tok string, n int) (string, error)
	Num             func(ctx context.Context, tok string, kind int) (float64, error)
	Mirror          func(ctx context.Context, tok string, pad string) (string, error)
	BigR            func(ctx context.Context, tok string, n int) (string, error) `retry:"true" rpc_method:"S.Big"`
	Fail            func(ctx context.Context, tok string) (string, error)
	Void            func(ctx context.Context, tok string)
	Note            func(ctx context.Context, tok string) error `notify:"true"`
	NoteR           func(ctx context.Context, tok string) error `notify:"true" retry:"true" rpc_method:"S.Note"`
	Boom            func(ctx context.Context, tok string, kind int) (string, error)
	BoomR           func(ctx context.Context, tok string, kind int) (string, error) `retry:"true" rpc_method:"S.Boom"`
	BoomV           func(ctx context.Context, tok string, kind int) (string, error) // the handler method itself returns only a string
	BoomVoid        func(ctx context.Context, tok string, kind int) error           // the handler method itself returns nothing
	BoomPtr         func(ctx context.Context, tok string, p *Custom) (string, error)
	BoomNote        func(ctx context.Context, tok string, kind int) error `notify:"true"`
	BoomAfterCancel func(ctx context.Context, tok string, kind int) (string, error)
	BoomBarrier     func(ctx context.Context, tok string, kind int, group string, n int) (string, error)
	BoomSub         func(ctx context.Context, tok string, kind int) (<-chan Item, error)
	Sub             func(ctx context.Context, tok string, n int, mode int) (<-chan Item, error)
	Rev             func(ctx context.Context, tok string, k int, which int) (string, error)
	RevN            func(ctx context.Context, tok string, k int) error `notify:"true"`
	RevSpam         func(ctx context.Context, tok string, how int) (int, error)
	RevNoteBack     func(ctx context.Context, tok string) (string, error)
	RevSub          func(ctx context.Context, tok string) (string, error)
	SubNE           func(ctx context.Context, tok string, n int, mode int) (<-chan Item, error)
	NoteFail        func(ctx context.Context, tok string) error `notify:"true"`
	React           func(ctx context.Context, tok string, delayMs int, size int) (string, error)
	ReactN          func(ctx context.Context, tok string, delayMs int) error `notify:"true"`
	SubInt          func(ctx context.Context, tok string, n int, mode int) (<-chan int, error)
	SubFloat        func(ctx context.Context, tok string, n int, nanAt int) (<-chan float64, error)
	SubMixed        func(ctx context.Context, tok string, n int, bigBytes int) (<-chan string, error)
	SubStrAsInt     func(ctx context.Context, tok string, n int, mode int) (<-chan int, error) `rpc_method:"S.SubStr"`
	RevSubN         func(ctx context.Context, tok string, n int, everyMs int, lingerMs int) (string, error)
	SubStr          func(ctx context.Context, tok string, n int, mode int) (<-chan string, error)
	SubBytes        func(ctx context.Context, tok string, n int, mode int) (<-chan []byte, error)
	SubPtr          func(ctx context.Context, tok string, n int, mode int) (<-chan *Item, error)
}

// RevHandler is the client-side handler object for reverse calls.
type RevHandler struct {
	Identity string
	S        *Svc    // records entries by token
	Fwd      *Client // the client's own forward proxy (for handlers that call forward again)
}

func (h *RevHandler) RSub(ctx context.Context, tok string) (<-chan int, error) {
	ch := make(chan int, 3)
	ch <- 1
	ch <- 2
	close(ch)
	return ch, nil
}

// RSubN is a client-side stream: n values, one every everyMs milliseconds; when its context is cancelled it
// lingers lingerMs before closing its channel (a handler that is slow to notice).
func (h *RevHandler) RSubN(ctx context.Context, tok string, n int, everyMs int, lingerMs int) (<-chan int, error) {
	r, _ := h.S.enter(ctx, "RSubN", tok)
	defer h.S.exit(ctx, r)
	ch := make(chan int)
	go func() {
		defer close(ch)
		for i := 0; i < n; i++ {
			select {
			case ch <- i:
				atomic.AddInt64(&r.Sent, 1)
			case <-ctx.Done():
				time.Sleep(time.Duration(lingerMs) * time.Millisecond)
				return
			}
			if everyMs > 0 {
				select {
				case <-time.After(time.Duration(everyMs) * time.Millisecond):
				case <-ctx.Done():
					time.Sleep(time.Duration(lingerMs) * time.Millisecond)
					return
				}
			}
		}
	}()
	return ch, nil
}

func (h *RevHandler) NotePing(ctx context.Context, tok string) error {
	atomic.AddInt64(&h.S.total, 1)
	return nil
}

// NoteBack: a reverse notification whose handler makes a forward call.
func (h *RevHandler) NoteBack(ctx context.Context, tok string) error {
	r, _ := h.S.enter(ctx, "NoteBack", tok)
	defer h.S.exit(ctx, r)
	if h.Fwd == nil {
		return nil
	}
	v, err := h.Fwd.Echo(context.Background(), tok+".f", "")
	h.S.mu.Lock()
	r.Note = fmt.Sprintf("forward -> %q err=%v", v, err)
	h.S.mu.Unlock()
	return nil
}

func (h *RevHandler) Ident(ctx context.Context, tok string) (string, error) {
	r, g := h.S.enter(ctx, "Ident", tok)
	defer h.S.exit(ctx, r)
	wait(ctx, g)
	return h.Identity + "/" + tok, nil
}
func (h *RevHandler) RBig(ctx context.Context, tok string, n int) (string, error) {
	r, g := h.S.enter(ctx, "RBig", tok)
	defer h.S.exit(ctx, r)
	wait(ctx, g)
	return h.Identity + "/" + tok + ":" + strings.Repeat("y", n), nil
}

// Trunc40 returns at most the first 40 bytes of s.
func Trunc40(s string) string {
	if len(s) > 40 {
		return s[:40]
	}
	return s
}

func (h *RevHandler) RFail(ctx context.Context, tok string) (string, error) {
	r, _ := h.S.enter(ctx, "RFail", tok)
	defer h.S.exit(ctx, r)
	return "", errors.New(ErrText(tok) + "@" + h.Identity)
}
func (h *RevHandler) RHold(ctx context.Context, tok string) (string, error) {
	r, g := h.S.enter(ctx, "RHold", tok)
	defer h.S.exit(ctx, r)
	if g != nil {
		<-g
	}
	return h.Identity + "/" + tok, nil
}
func (h *RevHandler) RBoom(ctx context.Context, tok string, kind int) (string, error) {
	r, _ := h.S.enter(ctx, "RBoom", tok)
	defer h.S.exit(ctx, r)
	DoPanic(kind, tok)
	return "", nil
}

// ---- typed streams (element types other than struct) ------------------------

func typed[T any](s *Svc, ctx context.Context, method, tok string, n, mode int, mk func(i int) T) (<-chan T, error) {
	r, g := s.enter(ctx, method, tok)
	defer s.exit(ctx, r)
	if mode == SPrefilled {
		ch := make(chan T, n+1)
		for i := 0; i < n; i++ {
			ch <- mk(i)
			atomic.AddInt64(&r.Sent, 1)
		}
		close(ch)
		return ch, nil
	}
	ch := make(chan T)
	go func() {
		wait(ctx, g)
		defer close(ch)
		for i := 0; i < n; i++ {
			select {
			case ch <- mk(i):
				atomic.AddInt64(&r.Sent, 1)
			case <-ctx.Done():
				return
			}
		}
	}()
	return ch, nil
}

func (s *Svc) SubInt(ctx context.Context, tok string, n int, mode int) (<-chan int, error) {
	return typed(s, ctx, "SubInt", tok, n, mode, func(i int) int { return i })
}

// SubFloat streams 0..n-1 as float64; the value at index nanAt is NaN, which encoding/json cannot encode.
func (s *Svc) SubFloat(ctx context.Context, tok string, n int, nanAt int) (<-chan float64, error) {
	return typed(s, ctx, "SubFloat", tok, n, SGoroutine, func(i int) float64 {
		if i == nanAt {
			return math.NaN()
		}
		return float64(i)
	})
}

// SubMixed streams n strings "<tok>:<i>"; every fourth one is padded to bigBytes.
func (s *Svc) SubMixed(ctx context.Context, tok string, n int, bigBytes int) (<-chan string, error) {
	return typed(s, ctx, "SubMixed", tok, n, SGoroutine, func(i int) string {
		v := fmt.Sprintf("%s:%d", tok, i)
		if i%4 == 3 {
			v += ":" + strings.Repeat("B", bigBytes)
		}
		return v
	})
}
func (s *Svc) SubStr(ctx context.Context, tok string, n int, mode int) (<-chan string, error) {
	return typed(s, ctx, "SubStr", tok, n, mode, func(i int) string { return fmt.Sprintf("%s:%d", tok, i) })
}
func (s *Svc) SubBytes(ctx context.Context, tok string, n int, mode int) (<-chan []byte, error) {
	return typed(s, ctx, "SubBytes", tok, n, mode, func(i int) []byte { return []byte(fmt.Sprintf("%s:%d", tok, i)) })
}
func (s *Svc) SubPtr(ctx context.Context, tok string, n int, mode int) (<-chan *Item, error) {
	return typed(s, ctx, "SubPtr", tok, n, mode, func(i int) *Item { return &Item{Tok: tok, Seq: i} })
}

// React blocks until released or ctx done, then waits delayMs and returns size bytes.
func (s *Svc) React(ctx context.Context, tok string, delayMs int, size int) (string, error) {
	r, g := s.enter(ctx, "React", tok)
	defer s.exit(ctx, r)
	wait(ctx, g)
	if delayMs > 0 {
		time.Sleep(time.Duration(delayMs) * time.Millisecond)
	}
	return Reply(tok) + ":" + strings.Repeat("z", size), nil
}

// ReactN is the notification flavour of React.
func (s *Svc) ReactN(ctx context.Context, tok string, delayMs int) error {
	r, g := s.enter(ctx, "ReactN", tok)
	defer s.exit(ctx, r)
	wait(ctx, g)
	if delayMs > 0 {
		time.Sleep(time.Duration(delayMs) * time.Millisecond)
	}
	return nil
}
