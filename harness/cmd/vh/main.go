// vh is both the driver (plans scenarios, shards them over child processes,
// aggregates verdicts, writes evidence) and the child (executes scenarios).
package main

import (
	"bufio"
	"encoding/json"
	"flag"
	"fmt"
	"os"
	"os/exec"
	"path/filepath"
	"regexp"
	"runtime"
	"runtime/pprof"
	"sort"
	"strconv"
	"strings"
	"sync"
	"time"

	"vharness/core"
	_ "vharness/props"
)

func main() {
	if len(os.Args) < 2 {
		fmt.Fprintln(os.Stderr, "usage: vh drive|child|host ...")
		os.Exit(2)
	}
	switch os.Args[1] {
	case "drive":
		os.Exit(drive(os.Args[2:]))
	case "child":
		os.Exit(child(os.Args[2:]))
	case "host":
		os.Exit(core.RunHost(os.Args[2:]))
	case "list":
		for _, id := range core.All() {
			p := core.Get(id)
			fmt.Printf("%s level=%s race=%v quick=%d thorough=%d\n", id, p.Level(), p.Race(), len(p.Plan("quick", 1)), len(p.Plan("thorough", 1)))
		}
	default:
		fmt.Fprintln(os.Stderr, "unknown mode", os.Args[1])
		os.Exit(2)
	}
}

// ---------------------------------------------------------------------------
// child

func child(args []string) int {
	fs := flag.NewFlagSet("child", flag.ExitOnError)
	prop := fs.String("prop", "", "")
	tier := fs.String("tier", "quick", "")
	seed := fs.Int64("seed", 1, "")
	shard := fs.Int("shard", 0, "")
	of := fs.Int("of", 1, "")
	from := fs.Int("from", 0, "skip scenarios with plan position < from (within the shard's own list)")
	out := fs.String("out", "", "")
	replay := fs.String("replay", "", "")
	reps := fs.Int("reps", 1, "")
	timeout := fs.Duration("scenario-timeout", 120*time.Second, "")
	fs.Parse(args)

	p := core.Get(*prop)
	if p == nil {
		fmt.Fprintln(os.Stderr, "unknown property", *prop)
		return 2
	}
	core.SelfExe, _ = os.Executable()
	var list []core.Scenario
	if *replay != "" {
		b, err := os.ReadFile(*replay)
		if err != nil {
			fmt.Fprintln(os.Stderr, err)
			return 2
		}
		var rf struct {
			Scenario core.Scenario `json:"scenario"`
		}
		if err := json.Unmarshal(b, &rf); err != nil {
			fmt.Fprintln(os.Stderr, err)
			return 2
		}
		for i := 0; i < *reps; i++ {
			list = append(list, rf.Scenario)
		}
	} else {
		plan := p.Plan(*tier, *seed)
		for i := range plan {
			plan[i].Idx = i
			plan[i].Prop = p.ID()
			if k := os.Getenv("VERIF_ONLY_KIND"); k != "" && plan[i].Kind != k {
				continue // debugging aid: run one scenario kind only
			}
			// scenarios marked plain=1 of a race-detector property run in a lane of their own with the plain
			// binary (windows of a few instructions that the race detector's slowdown closes)
			if plan[i].N["plain"] == 1 && p.Race() {
				if os.Getenv("VERIF_PLAIN_LANE") == "1" {
					list = append(list, plan[i])
				}
				continue
			}
			if os.Getenv("VERIF_PLAIN_LANE") == "1" {
				continue
			}
			if i%*of == *shard {
				list = append(list, plan[i])
			}
		}
	}
	w := os.Stdout
	if *out != "" {
		f, err := os.OpenFile(*out, os.O_CREATE|os.O_WRONLY|os.O_APPEND, 0644)
		if err != nil {
			fmt.Fprintln(os.Stderr, err)
			return 2
		}
		defer f.Close()
		w = f
	}
	for pos, sc := range list {
		if pos < *from {
			continue
		}
		fmt.Fprintf(w, "BEGIN %d %d %s\n", pos, sc.Idx, sc.String())
		t0 := time.Now()
		done := make(chan core.Result, 1)
		go func() {
			core.Log.Reset()
			core.ResetHangs()
			done <- p.Run(sc)
		}()
		var res core.Result
		select {
		case res = <-done:
		case <-time.After(*timeout):
			res = core.Result{Idx: sc.Idx, Kind: sc.Kind, Verdict: core.Inconclusive, Why: "watchdog: scenario exceeded " + timeout.String()}
			if part, ok := core.CurrentResult(); ok && part.Verdict == core.Violated {
				// violations established before the overrun stand
				res = part
				res.Why = "watchdog: scenario exceeded " + timeout.String() + " after these violations"
			}
			res.WallMs = time.Since(t0).Milliseconds()
			b, _ := json.Marshal(res)
			fmt.Fprintf(w, "END %d %s\n", pos, b)
			fmt.Fprintf(os.Stderr, "WATCHDOG scenario %s\nevents: %s\n", sc.String(), core.Log.Tail(60))
			pprof.Lookup("goroutine").WriteTo(os.Stderr, 1)
			return 3
		}
		res.Idx = sc.Idx
		res.Kind = sc.Kind
		res.WallMs = time.Since(t0).Milliseconds()
		b, _ := json.Marshal(res)
		fmt.Fprintf(w, "END %d %s\n", pos, b)
	}
	fmt.Fprintf(w, "DONE\n")
	return 0
}

// ---------------------------------------------------------------------------
// driver

type finding struct {
	prop, key, text string
	printed         bool
}

func loadFindings(path string) []*finding {
	var out []*finding
	f, err := os.Open(path)
	if err != nil {
		return nil
	}
	defer f.Close()
	sc := bufio.NewScanner(f)
	re := regexp.MustCompile(`^finding:\s+property=(\S+)\s+key=(\S+)\s+(.*)$`)
	for sc.Scan() {
		m := re.FindStringSubmatch(strings.TrimSpace(sc.Text()))
		if m != nil {
			out = append(out, &finding{prop: m[1], key: m[2], text: m[3]})
		}
	}
	return out
}

type shardState struct {
	id      int
	outFile string
	errFile string
	results []core.Result
	crashes []core.Result
}

func drive(args []string) int {
	fs := flag.NewFlagSet("drive", flag.ExitOnError)
	prop := fs.String("prop", "", "")
	tier := fs.String("tier", "quick", "")
	seed := fs.Int64("seed", 1, "")
	childBin := fs.String("child", "", "child binary")
	verif := fs.String("verif", "/verif", "")
	replay := fs.String("replay", "", "")
	maxChildren := fs.Int("children", 12, "")
	fs.Parse(args)

	p := core.Get(*prop)
	if p == nil {
		fmt.Fprintln(os.Stderr, "unknown property", *prop)
		return 2
	}
	if *childBin == "" {
		*childBin, _ = os.Executable()
	}
	t0 := time.Now()
	work := filepath.Join(*verif, ".build", "run-"+p.ID())
	os.RemoveAll(work)
	os.MkdirAll(work, 0755)
	evDir := filepath.Join(*verif, "evidence")
	if d := os.Getenv("VERIF_EVIDENCE_DIR"); d != "" {
		evDir = d // used when checks are run against seeded changes: keeps the committed evidence intact
	}
	os.MkdirAll(filepath.Join(evDir, "replays"), 0755)
	if *replay == "" {
		old, _ := filepath.Glob(filepath.Join(evDir, "replays", p.ID()+"-*"))
		for _, f := range old {
			os.Remove(f)
		}
	}

	env := append(os.Environ(),
		"GOLOG_LOG_LEVEL=fatal",
		"GORACE=halt_on_error=0 log_path="+filepath.Join(work, "race"),
		"VERIF_WORK="+work,
	)

	if *replay != "" {
		rbin, renv := *childBin, env
		if b, err := os.ReadFile(*replay); err == nil && strings.Contains(string(b), `"plain": 1`) || strings.Contains(string(b), `"plain":1`) {
			rbin, renv = strings.TrimSuffix(*childBin, "-race"), append(append([]string{}, env...), "VERIF_PLAIN_LANE=1")
		}
		cmd := exec.Command(rbin, "child", "-prop", p.ID(), "-replay", *replay, "-reps", "5")
		cmd.Env = renv
		outp, _ := cmd.CombinedOutput()
		viol := 0
		for _, line := range strings.Split(string(outp), "\n") {
			if strings.HasPrefix(line, "END ") {
				var r core.Result
				json.Unmarshal([]byte(line[strings.Index(line[4:], " ")+5:]), &r)
				fmt.Printf("replay verdict=%s %v %s\n", r.Verdict, r.Viol, r.Why)
				if r.Verdict == core.Violated {
					viol++
				}
			}
		}
		if viol > 0 || !strings.Contains(string(outp), "DONE") {
			fmt.Printf("VIOLATION property=%s replay=%s\n", p.ID(), *replay)
			return 1
		}
		return 0
	}

	plan := p.Plan(*tier, *seed)
	n := len(plan)
	if n == 0 {
		fmt.Println("empty plan")
		return 2
	}
	nch := *maxChildren
	if mc, ok := p.(core.Parallel); ok {
		if m := mc.MaxChildren(*tier); m < nch {
			nch = m
		}
	}
	if cpus := runtime.NumCPU(); nch > cpus {
		nch = cpus
	}
	if nch > n {
		nch = n
	}
	if nch < 1 {
		nch = 1
	}
	fmt.Printf("[%s] tier=%s seed=%d scenarios=%d children=%d race=%v\n", p.ID(), *tier, *seed, n, nch, p.Race())

	shards := make([]*shardState, nch)
	var wg sync.WaitGroup
	nPlain := 0
	for _, sc := range plan {
		if sc.N["plain"] == 1 {
			nPlain++
		}
	}
	if p.Race() && nPlain > 0 && strings.HasSuffix(*childBin, "-race") {
		sh := &shardState{id: 0, outFile: filepath.Join(work, "shardplain.out"), errFile: filepath.Join(work, "shardplain.err")}
		shards = append(shards, sh)
		wg.Add(1)
		go func() {
			defer wg.Done()
			runShard(p, sh, strings.TrimSuffix(*childBin, "-race"), *tier, *seed, 1, append(append([]string{}, env...), "VERIF_PLAIN_LANE=1"))
		}()
	}
	for i := 0; i < nch; i++ {
		sh := &shardState{id: i, outFile: filepath.Join(work, fmt.Sprintf("shard%d.out", i)), errFile: filepath.Join(work, fmt.Sprintf("shard%d.err", i))}
		shards[i] = sh
		wg.Add(1)
		go func() {
			defer wg.Done()
			runShard(p, sh, *childBin, *tier, *seed, nch, env)
		}()
	}
	wg.Wait()

	// ---- aggregate
	var all []core.Result
	for _, sh := range shards {
		all = append(all, sh.results...)
		all = append(all, sh.crashes...)
	}
	sort.Slice(all, func(i, j int) bool { return all[i].Idx < all[j].Idx })

	if rf, err := os.Create(filepath.Join(work, "results.jsonl")); err == nil {
		for _, r := range all {
			b, _ := json.Marshal(r)
			rf.Write(append(b, '\n'))
		}
		rf.Close()
	}
	for i := range plan {
		plan[i].Idx = i
		plan[i].Prop = p.ID()
	}
	findings := loadFindings(filepath.Join(*verif, "KNOWN_FINDINGS.txt"))
	distinct := map[string]bool{}
	sigs := map[string]bool{}
	obs := map[string]int64{}
	counts := map[string]int{}
	var samples []interface{}
	var unknownViol []string
	knownHits := 0
	violCount := 0
	kinds := map[string]int{}
	perFinger := map[string]int{}
	for _, r := range all {
		counts[r.Verdict]++
		kinds[r.Kind]++
		if r.Verdict != core.Inconclusive {
			if r.NonTrivial && r.Key != "" {
				distinct[r.Key] = true
			}
			for _, k := range r.Keys {
				distinct[k] = true
			}
		}
		if r.Sig != "" {
			sigs[r.Sig] = true
		}
		for k, v := range r.Obs {
			obs[k] += v
		}
		if r.Sample != nil && len(samples) < 6 && (r.Idx%(n/6+1) == 0 || len(samples) == 0) {
			samples = append(samples, map[string]interface{}{"scenario": plan[minInt(r.Idx, n-1)], "observed": r.Sample})
		}
		if r.Verdict == core.Violated {
			for _, v := range r.Viol {
				violCount++
				matched := false
				for _, f := range findings {
					if f.prop == p.ID() && f.key == v.Finger {
						matched = true
						knownHits++
						if !f.printed {
							f.printed = true
							fmt.Printf("KNOWN-FINDING: property=%s %s (key=%s; e.g. scenario %d: %s)\n", p.ID(), f.text, f.key, r.Idx, core.Trunc(v.Msg, 300))
						}
					}
				}
				if !matched {
					rp := filepath.Join(evDir, "replays", fmt.Sprintf("%s-%d.json", p.ID(), r.Idx))
					var sc core.Scenario
					if r.Idx >= 0 && r.Idx < n {
						sc = plan[r.Idx]
						sc.Idx = r.Idx
						sc.Prop = p.ID()
					}
					b, _ := json.MarshalIndent(map[string]interface{}{"property": p.ID(), "tier": *tier, "seed": *seed, "scenario": sc, "violations": r.Viol, "observed": r.Sample}, "", " ")
					os.WriteFile(rp, b, 0644)
					perFinger[v.Finger]++
					if perFinger[v.Finger] <= 3 && len(unknownViol) < 40 {
						unknownViol = append(unknownViol, fmt.Sprintf("VIOLATION property=%s replay=%s  [%s] %s", p.ID(), rp, v.Finger, core.Trunc(v.Msg, 600)))
					}
				}
			}
		}
	}
	if len(samples) == 0 {
		for _, r := range all {
			if len(samples) >= 3 {
				break
			}
			samples = append(samples, map[string]interface{}{"scenario": plan[minInt(r.Idx, n-1)], "verdict": r.Verdict})
		}
	}
	inconcl := []string{}
	for _, r := range all {
		if r.Verdict == core.Inconclusive && len(inconcl) < 10 {
			inconcl = append(inconcl, fmt.Sprintf("#%d %s: %s", r.Idx, r.Kind, core.Trunc(r.Why, 200)))
		}
	}

	// race reports
	raceBlocks, raceLib := scanRace(work)
	obs["race_reports_total"] = int64(raceBlocks)
	obs["race_reports_library"] = int64(len(raceLib))
	if rp, ok := p.(interface{ JudgeRaces() bool }); ok && rp.JudgeRaces() {
		for key, text := range raceLib {
			finger := "race:" + key
			matched := false
			for _, f := range findings {
				if f.prop == p.ID() && f.key == finger {
					matched = true
					knownHits++
					if !f.printed {
						f.printed = true
						fmt.Printf("KNOWN-FINDING: property=%s %s (key=%s)\n", p.ID(), f.text, f.key)
					}
				}
			}
			if !matched {
				violCount++
				rpth := filepath.Join(evDir, "replays", fmt.Sprintf("%s-race-%s.txt", p.ID(), core.Hash(key)[:8]))
				os.WriteFile(rpth, []byte(text), 0644)
				unknownViol = append(unknownViol, fmt.Sprintf("VIOLATION property=%s replay=%s  [%s] data race reported by the race detector in library code", p.ID(), rpth, finger))
			}
		}
	}

	cov := map[string]interface{}{
		"evaluations":                      len(all),
		"distinct_nontrivial":              len(distinct),
		"rule":                             p.Rule(),
		"samples":                          samples,
		"verdicts":                         counts,
		"scenario_kinds":                   kinds,
		"observed":                         obs,
		"distinct_interleaving_signatures": len(sigs),
		"inconclusive_examples":            inconcl,
		"known_finding_hits":               knownHits,
		"planned":                          n,
	}
	if ex, ok := p.(core.Exhaustive); ok && ex.Exhaustive(*tier) && len(all) == n && counts[core.Inconclusive] == 0 {
		cov["exhaustive"] = true
	}
	ev := map[string]interface{}{
		"property_id": p.ID(),
		"tier":        *tier,
		"seed":        *seed,
		"level":       p.Level(),
		"coverage":    cov,
		"assumptions": p.Assumptions(),
		"wall_s":      time.Since(t0).Seconds(),
		"violations":  violCount,
	}
	b, _ := json.MarshalIndent(ev, "", " ")
	os.WriteFile(filepath.Join(evDir, p.ID()+".json"), b, 0644)

	fmt.Printf("[%s] ran=%d/%d held=%d violated=%d inconclusive=%d distinct_nontrivial=%d signatures=%d races(lib)=%d wall=%.1fs\n",
		p.ID(), len(all), n, counts[core.Held], counts[core.Violated], counts[core.Inconclusive], len(distinct), len(sigs), len(raceLib), time.Since(t0).Seconds())
	keys := make([]string, 0, len(obs))
	for k := range obs {
		keys = append(keys, k)
	}
	sort.Strings(keys)
	var sb strings.Builder
	for _, k := range keys {
		fmt.Fprintf(&sb, "%s=%d ", k, obs[k])
	}
	fmt.Printf("[%s] observed: %s\n", p.ID(), sb.String())
	for _, s := range inconcl {
		fmt.Printf("[%s] inconclusive: %s\n", p.ID(), s)
	}
	for _, v := range unknownViol {
		fmt.Println(v)
	}
	for f, c := range perFinger {
		if c > 3 {
			fmt.Printf("[%s] ... %d violations in total with fingerprint %s\n", p.ID(), c, f)
		}
	}
	if len(unknownViol) > 0 {
		return 1
	}
	if f, ok := p.(interface{ Finalize(map[string]int64) string }); ok {
		if msg := f.Finalize(obs); msg != "" {
			fmt.Printf("[%s] BROKEN CHECK (inconclusive run): %s\n", p.ID(), msg)
			return 2
		}
	}
	if counts[core.Held]+counts[core.Violated] == 0 || len(distinct) < 2 {
		fmt.Printf("[%s] BROKEN CHECK: nothing conclusive was observed\n", p.ID())
		return 2
	}
	return 0
}

func minInt(a, b int) int {
	if a < b {
		return a
	}
	return b
}

func runShard(p core.Prop, sh *shardState, bin, tier string, seed int64, of int, env []string) {
	from := 0
	for attempt := 0; attempt < 200; attempt++ {
		os.Remove(sh.outFile)
		ef, _ := os.OpenFile(sh.errFile, os.O_CREATE|os.O_WRONLY|os.O_TRUNC, 0644)
		cmd := exec.Command(bin, "child", "-prop", p.ID(), "-tier", tier, "-seed", strconv.FormatInt(seed, 10),
			"-shard", strconv.Itoa(sh.id), "-of", strconv.Itoa(of), "-from", strconv.Itoa(from), "-out", sh.outFile)
		cmd.Env = env
		cmd.Stdout = ef
		cmd.Stderr = ef
		err := cmd.Run()
		ef.Close()
		done, lastBegin, lastBeginIdx, lastBeginSc, ended := parseOut(sh)
		if done {
			return
		}
		// child died: attribute to the scenario that was running
		if lastBegin >= 0 && !ended[lastBegin] {
			stderrTail := tailFile(sh.errFile, 6000)
			exit := fmt.Sprint(err)
			if strings.Contains(stderrTail, "WATCHDOG") {
				// the END line with inconclusive was written already in that case
			} else {
				site := crashSite(stderrTail)
				sh.crashes = append(sh.crashes, core.Result{Idx: lastBeginIdx, Kind: "crash", Verdict: core.Violated, Key: "crash", Viol: []core.Violation{{
					Finger: "crash:" + site,
					Msg:    fmt.Sprintf("child process died (%s) while running scenario %s; stderr tail: %s", exit, lastBeginSc, stderrTail),
				}}})
			}
			from = lastBegin + 1
		} else if lastBegin >= 0 {
			from = lastBegin + 1
		} else {
			// died before any scenario: harness/start-up problem
			sh.crashes = append(sh.crashes, core.Result{Idx: -1, Kind: "crash", Verdict: core.Inconclusive, Why: "child failed to start: " + fmt.Sprint(err) + " " + tailFile(sh.errFile, 1000)})
			return
		}
	}
}

var crashRe = regexp.MustCompile(`(?m)^(panic: [^\n]{0,120}|fatal error: [^\n]{0,120})`)
var frameRe = regexp.MustCompile(`(?m)^(github\.com/filecoin-project/go-jsonrpc[\w./]*(?:\(\*?\w+\))?[\w.]*)\(`)

func crashSite(stderr string) string {
	m := crashRe.FindString(stderr)
	if m == "" {
		m = "unknown"
	}
	// keep it stable: strip addresses/numbers
	m = regexp.MustCompile(`0x[0-9a-f]+|\d+`).ReplaceAllString(m, "N")
	m = strings.ReplaceAll(m, " ", "_")
	if len(m) > 80 {
		m = m[:80]
	}
	if f := frameRe.FindStringSubmatch(stderr); f != nil {
		parts := strings.Split(f[1], "/")
		m += "@" + parts[len(parts)-1]
	}
	return m
}

func parseOut(sh *shardState) (done bool, lastBegin int, lastBeginIdx int, lastBeginSc string, ended map[int]bool) {
	lastBegin = -1
	ended = map[int]bool{}
	f, err := os.Open(sh.outFile)
	if err != nil {
		return
	}
	defer f.Close()
	br := bufio.NewReaderSize(f, 1<<20)
	for {
		line, err := br.ReadString('\n')
		line = strings.TrimRight(line, "\n")
		if strings.HasPrefix(line, "BEGIN ") {
			parts := strings.SplitN(line, " ", 4)
			if len(parts) == 4 {
				lastBegin, _ = strconv.Atoi(parts[1])
				lastBeginIdx, _ = strconv.Atoi(parts[2])
				lastBeginSc = parts[3]
			}
		} else if strings.HasPrefix(line, "END ") {
			parts := strings.SplitN(line, " ", 3)
			if len(parts) == 3 {
				pos, _ := strconv.Atoi(parts[1])
				var r core.Result
				if json.Unmarshal([]byte(parts[2]), &r) == nil {
					ended[pos] = true
					sh.results = append(sh.results, r)
				}
			}
		} else if line == "DONE" {
			done = true
		}
		if err != nil {
			break
		}
	}
	return
}

func tailFile(path string, n int) string {
	b, err := os.ReadFile(path)
	if err != nil {
		return ""
	}
	// prefer the region around the first panic/fatal line
	if loc := crashRe.FindIndex(b); loc != nil {
		end := loc[0] + n
		if end > len(b) {
			end = len(b)
		}
		return string(b[loc[0]:end])
	}
	if len(b) > n {
		b = b[len(b)-n:]
	}
	return string(b)
}

// scanRace parses race detector logs: returns the number of report blocks and
// the library-involving ones keyed by the (sorted) pair of top library frames.
func scanRace(dir string) (int, map[string]string) {
	lib := map[string]string{}
	total := 0
	files, _ := filepath.Glob(filepath.Join(dir, "race.*"))
	fnRe := regexp.MustCompile(`^\s+(github\.com/filecoin-project/go-jsonrpc[\w./]*(?:\(\*?\w+\))?[\w.]*)\(`)
	for _, f := range files {
		b, err := os.ReadFile(f)
		if err != nil {
			continue
		}
		blocks := strings.Split(string(b), "==================")
		for _, blk := range blocks {
			if !strings.Contains(blk, "WARNING: DATA RACE") {
				continue
			}
			total++
			// split into access sections; take the first library frame of the two access stacks
			secs := regexp.MustCompile(`(?m)^(Read at|Write at|Previous read at|Previous write at|Goroutine \d+)`).Split(blk, -1)
			var tops []string
			for i, s := range secs {
				if i == 0 || i > 2 {
					continue
				}
				for _, line := range strings.Split(s, "\n") {
					if m := fnRe.FindStringSubmatch(line); m != nil {
						parts := strings.Split(m[1], "/")
						tops = append(tops, parts[len(parts)-1])
						break
					}
				}
			}
			if len(tops) == 0 {
				continue
			}
			sort.Strings(tops)
			key := strings.Join(tops, "~")
			if _, ok := lib[key]; !ok {
				lib[key] = blk
			}
		}
	}
	return total, lib
}
