#!/bin/bash
# usage: tools/sweep.sh <tier> <seed> [props...]   - runs checks one after another, prints one line per check
TIER=$1; SEED=$2; shift; shift
PROPS=${@:-C01 C02 C03 C04 C05 C06 C07 C08 C09 C10 C11 C12 C13 C14 C15 C16 C17 C18 C19 C20}
cd "$(dirname "$0")/.."
export VERIF_EVIDENCE_DIR=${VERIF_EVIDENCE_DIR:-$PWD/.build/sweep-evidence}
for p in $PROPS; do
  out=$(VERIF_SEED=$SEED ./check $p $TIER 2>&1); e=$?
  echo "$p tier=$TIER seed=$SEED exit=$e $(echo "$out" | grep -E 'ran=' | cut -c7-200)"
  echo "$out" | grep -E 'VIOLATION|BROKEN|inconclusive:' | cut -c1-500 | head -6
done
