#!/opt/veriftools/pyvenv/bin/python
import json,jsonschema,sys,glob
jsonschema.validate(json.load(open('/verif/MANIFEST.json')),json.load(open('/root/.vp/MANIFEST.schema.json')))
s=json.load(open('/root/.vp/EVIDENCE.schema.json'))
for f in sorted(glob.glob('/verif/evidence/C*.json')):
    try:
        jsonschema.validate(json.load(open(f)),s)
    except Exception as e:
        print("INVALID",f,str(e)[:300]); sys.exit(1)
print("manifest + %d evidence files valid"%len(glob.glob('/verif/evidence/C*.json')))
