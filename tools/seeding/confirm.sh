#!/bin/bash
# confirms each seeded change: (a) suite passes with it, (b) demo fails with it, (c) demo passes without it
export GOFLAGS=-mod=mod GOPROXY=off GOSUMDB=off GOTOOLCHAIN=local GOLOG_LOG_LEVEL=fatal
WT=${WT:-/tmp/wt-confirm9}   # usage: WT=<scratch worktree> confirm.sh [<dir>...]   (several shards may run in parallel)
cd /repo && git worktree add -q $WT HEAD 2>/dev/null
cd $WT || exit 1
DIRS=("$@"); [ ${#DIRS[@]} -eq 0 ] && DIRS=(/tmp/seeded-out7/C*/M)
for d in "${DIRS[@]}"; do
  id=$(echo $d | sed 's#/tmp/seeded-out[0-9]*/##; s#/#-#')
  [ -f $d/patch.diff ] || continue
  demo=$(ls $d/*_test.go 2>/dev/null | head -1)
  [ -n "$demo" ] || { echo "$id NODEMO"; continue; }
  pkg=$(grep -m1 '^package ' $demo | awk '{print $2}')
  dir=.; case "$pkg" in auth|auth_test) dir=auth;; httpio|httpio_test) dir=httpio;; esac
  tags=""; grep -q 'VerifSetHook\|go:build verif' $demo && tags="-tags verif"
  names=$(grep -oE '^func (Test[A-Za-z0-9_]+)' $demo | awk '{print $2}' | paste -sd'|')
  git checkout -q -- . ; git clean -fdq
  cp $demo $dir/zz_seeded_demo_test.go
  # (c) demo on the clean tree
  timeout 600 go test $tags -vet=off -count=1 -timeout 500s -run "^($names)\$" ./$dir > $WT.log.c.log 2>&1; c=$?
  # apply
  git apply $d/patch.diff || { echo "$id APPLYFAIL"; continue; }
  timeout 900 go test $tags -vet=off -count=1 -timeout 800s -run "^($names)\$" ./$dir > $WT.log.b.log 2>&1; b=$?
  rm -f $dir/zz_seeded_demo_test.go
  # (a) existing suite with the change (retry once: TestChanClosing flake)
  timeout 300 go test -vet=off -count=1 -timeout 200s ./... > $WT.log.a.log 2>&1; a=$?
  if [ $a -ne 0 ]; then timeout 300 go test -vet=off -count=1 -timeout 200s ./... > $WT.log.a.log 2>&1; a=$?; fi
  echo "$id suite_with_change=$a demo_with_change=$b demo_clean=$c pkg=$dir tags='$tags' tests=$names"
  git checkout -q -- . ; git clean -fdq
done
cd /repo && git worktree remove --force $WT
echo ALLDONE
