import json,os,shutil,re
meta={
"C01-I":("a lone result whose type implements error is treated as the error output","method with exactly one result of a concrete type that has an Error method (status/errno style enum)",["C01"]),
"C01-J":("ws notifications handled inline on the frame executor","notify-tagged method whose handler waits for something on the same connection (reverse call, later request)",["C16"]),
"C02-I":("marshal error of a channel value ends the per-connection forwarding goroutine (same site as C07-G)","earlier stream emitting NaN, then any channel-returning call on that connection",["C07"]),
"C02-J":("doRequest captures c.exiting before it is assigned (nil for forward ws clients)","connection routine ended on its own (no-reconnect loss, client context cancelled), then a call",["C03"]),
"C03-I":("10 s write deadline armed before every write","request larger than the socket buffers + client-to-server stall of 10-30 s that heals",["C03"]),
"C03-J":("read deadline armed only when pings are enabled","WithPingInterval(0) + timeout + black hole",["C03","C17"]),
"C04-I":("every retry attempt gets a fresh id, also for notifications","field tagged notify and retry, first write failing in the reconnect window",["C05"]),
"C04-J":("argument slice built once per method at registration and shared by concurrent calls","concurrent calls of the same method with different arguments",["C04","C02"]),
"C05-I":("WithReconnectBackoff assigns a whole reconnect policy and resets 'disabled'","WithNoReconnect followed by WithReconnectBackoff + a connection loss",["C05"]),
"C05-J":("redials bounded by the connection timeout, 0 taken literally","WithTimeout(0) + a connection loss",["C05"]),
"C06-I":("in-flight cancel named through the client's method name formatter","non-default formatter (no namespace / custom separator) + cancelling an in-flight ws call",["C06"]),
"C06-J":("auth.Handler's 5 s verify timeout context flows on to the request","server behind auth.Handler, verified token, call or connection lasting longer than 5 s",["C06"]),
"C07-I":("response announcing a channel written asynchronously when the write lock is busy","subscription with a ready channel set up while a large response is being written",["C07"]),
"C07-J":("frames of 1 MiB or more executed on their own goroutine","stream element of at least 1 MiB followed at once by a small element or the close",["C07"]),
"C08-I":("sink reuses the decode cell of the previous value","element types with optional or reference parts, second value decoded after the first was consumed",["C07"]),
"C08-J":("undecodable value ends the stream but the sink stays registered: closed twice","server streams a value the client's channel type cannot hold, then any termination: crash",["C08"]),
"C09-I":("size limit checked after the whitespace trim","WithMaxRequestSize + oversize body with whitespace straddling the limit",["C09","C10"]),
"C09-J":("whole-number ids echoed through int64","integral numeric id of magnitude 2^63 or more",["C09"]),
"C10-I":("id normalisation skipped for response frames","response frame whose id is an array or object: unhashable map key, process dies",["C10"]),
"C10-J":("RWMutex around the method tables not released on method-not-found","unknown method requested, then AliasMethod/Register on the running server: everything blocks",["C12"]),
"C11-I":("all error tables share the maps of a package-level template","two tables with different contents built by separate NewErrors() calls in one process",["C11"]),
"C11-J":("client treats an error object with code 0 and empty message as no error","codec error that leaves the code at 0 and the message empty",["C11"]),
"C12-I":("pooled websocket frames keep the previous message's params","ws request without a params member after a message with params",["C12","C09"]),
"C12-J":("memoising formatter keyed by namespace+method without a separator","two (namespace, method) pairs whose concatenation coincides",["C12"]),
"C13-I":("panic log dereferences pointer arguments","pointer parameter sent as null + panicking method: second, unrecovered panic",["C13"]),
"C13-J":("error replies rendered under a package-level mutex held across the write","a peer that stopped reading gets panic replies larger than the socket buffers while another connection needs an error reply",["C13"]),
"C14-I":("channel registration reply written without writeLk","subscription set up while another writer is mid-message",["C14"]),
"C14-J":("server writes a close frame with an unlocked WriteMessage after the loop returned","connection context cancelled while a handler is mid-response",["C14","C15"]),
"C15-I":("frame-read error channel loses its buffer","server context cancelled while a request frame has only partly arrived",["C15"]),
"C15-J":("empty messages skipped in readFrame without re-arming the reader","peer sends an empty text frame, then the connection ends",["C10"]),
"C16-I":("WithReverseClient reads the formatter when the option is applied (same idea as C12-H)","WithReverseClient listed before WithServerMethodNameFormatter",["C16","C12"]),
"C16-J":("wsConn and reverse client built before the upgrade; non-websocket upgrade requests served as plain HTTP","HTTP POST with Connection: Upgrade and Upgrade: h2c to a server WithReverseClient",["C16"]),
"C17-I":("sink stops receiving after 8192 queued items: the frame executor blocks, pongs go unread","subscription whose consumer pauses longer than the timeout while > 8.5k values arrive",["C07","C18"]),
"C17-J":("closeInFlight moved into the reconnect goroutine right before the swap","silent peer, pending call, peer unreachable for redials too",["C17","C05"]),
"C18-I":("blocking drain of the idle timer (same idea as C17-E)","idle timeout fires once (pings off or peer stalled), then close",["C17"]),
"C18-J":("defer delete of the in-flight entry also on the undecodable-channel-id return","channel-returning call answered with a non-numeric result by a foreign server, then close",["C18"]),
"C19-I":("per-type cache of the proxy plan includes the decision taken from the defaults","two proxies of the same struct type with different defaults, nothing attached",["C19"]),
"C19-J":("ws notifications run on a context stripped of the attached permissions","ws + notification + attached permissions different from the defaults",["C19"]),
"C20-I":("io.Closer values from parameter decoders closed when handle returns","reader parameter on a channel-returning method that consumes it afterwards",["C20"]),
"C20-J":("default Config shared: paramEncoders map common to all clients","two clients with their own ReaderParamEncoder endpoints in one process",["C20"]),
}
thorough={"C03-I"}
conf={}
for l in open('/tmp/seeded-out/confirm8.log'):
    m=re.match(r'(C\d\d-[A-Z]) suite_with_change=(\d+) demo_with_change=(\d+) demo_clean=(\d+) pkg=(\S+) tags=\'(.*?)\' tests=(.*)',l)
    if m: conf[m.group(1)]=list(m.groups())
if os.path.exists('/tmp/seeded-out/confirm8-overrides.json'):
    for k,v in json.load(open('/tmp/seeded-out/confirm8-overrides.json')).items(): conf[k]=v
n=0
for sid,(change,needs,dets) in sorted(meta.items()):
    prop,x=sid.split('-')
    src='/tmp/seeded-out/%s/%s'%(prop,x)
    c=conf.get(sid)
    if not c or c[1]!='0' or c[2]=='0' or c[3]!='0':
        print("NOT CONFIRMED",sid,c); continue
    dst='/verif/seeded/%s'%sid
    os.makedirs(dst,exist_ok=True)
    shutil.copy(src+'/patch.diff',dst+'/patch.diff')
    for f in os.listdir(src):
        if f.endswith('_test.go'):
            shutil.copy(src+'/'+f,dst+'/demo_test.go.txt')
    if os.path.exists(src+'/notes.md'): shutil.copy(src+'/notes.md',dst+'/notes.md')
    pkgdir=c[4]; tags=c[5]; tests=c[6].strip()
    cmd="cp demo_test.go.txt <worktree>/%s/zz_seeded_demo_test.go && cd <worktree> && GOLOG_LOG_LEVEL=fatal go test %s -vet=off -count=1 -timeout 800s -run '^(%s)$' ./%s"%(pkgdir,tags,tests,pkgdir)
    m={"id":sid,"property":prop,"origin":"fresh sub-agent given only the property text and a scratch worktree (round 5; told which eight ideas were taken)",
      "change":change,"needs_to_manifest":needs,
      "confirmed_in_scratch_worktree":{"existing_suite_with_change":"pass (go test -vet=off -count=1 ./...)","demo_with_change":"fail","demo_without_change":"pass","demo_command":cmd},
      "detected_by":dets,"detected_in_tier":"thorough" if sid in thorough else "quick","how_run":"mutants/regress.sh out.tsv seeded/%s"%sid}
    json.dump(m,open(dst+'/meta.json','w'),indent=1)
    n+=1
print("kept",n,"total",len(os.listdir('/verif/seeded')))
