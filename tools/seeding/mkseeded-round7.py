# writes seeded/<id>/{patch.diff,demo_test.go.txt,notes.md,meta.json} for the confirmed round-7 changes
# (change / needs taken from the CHANGE: / NEEDS: lines each agent put at the top of its notes.md)
import json,os,shutil,re,glob
conf={}
for f in glob.glob('/tmp/seeded-out7/confirm-*.log'):
    for l in open(f):
        m=re.match(r'(C\d\d-[A-Z]) suite_with_change=(\d+) demo_with_change=(\d+) demo_clean=(\d+) pkg=(\S+) tags=\'(.*?)\' tests=(.*)',l)
        if m: conf[m.group(1)]=list(m.groups())
def short(s,n=260):
    s=re.sub(r'\s+',' ',s.strip()); s=s.replace('`','')
    return s if len(s)<=n else s[:n].rsplit(' ',1)[0]+' ...'
n=0
for src in sorted(glob.glob('/tmp/seeded-out7/C*/M')):
    prop,x=src.split('/')[-2:]
    sid=prop+'-'+x
    c=conf.get(sid)
    if not c or c[1]!='0' or c[2]=='0' or c[3]!='0':
        print("NOT CONFIRMED",sid,c); continue
    notes=open(src+'/notes.md').read()
    ch=re.search(r'^CHANGE:\s*(.*)$',notes,re.M).group(1); nd=re.search(r'^NEEDS:\s*(.*)$',notes,re.M).group(1)
    dst='/verif/seeded/%s'%sid
    os.makedirs(dst,exist_ok=True)
    shutil.copy(src+'/patch.diff',dst+'/patch.diff')
    demo=glob.glob(src+'/*_test.go')[0]
    shutil.copy(demo,dst+'/demo_test.go.txt')
    shutil.copy(src+'/notes.md',dst+'/notes.md')
    d=c[4]; tags=c[5]; tests=c[6].strip()
    meta={"id":sid,"property":prop,
      "origin":"fresh sub-agent given only the property text and a scratch worktree (round 7; told which twelve ideas were taken)",
      "change":short(ch),"needs_to_manifest":short(nd),
      "confirmed_in_scratch_worktree":{"existing_suite_with_change":"pass (go test -vet=off -count=1 ./...)","demo_with_change":"fail","demo_without_change":"pass",
        "demo_command":"cp demo_test.go.txt <worktree>/%s/zz_seeded_demo_test.go && cd <worktree> && GOLOG_LOG_LEVEL=fatal go test %s -vet=off -count=1 -timeout 800s -run '^(%s)$' ./%s"%(d,tags,tests,d),
        "base":"098959b"},
      "detected_by":[prop],"detected_in_tier":"quick","how_run":"mutants/regress.sh out.tsv seeded/%s"%sid}
    json.dump(meta,open(dst+'/meta.json','w'),indent=1)
    n+=1
print(n,"written")
