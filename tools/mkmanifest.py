#!/usr/bin/env python3
"""Regenerates /verif/MANIFEST.json from the table below (kept in one place so the
manifest stays valid while checks are added)."""
import json, subprocess, os
V=os.path.dirname(os.path.dirname(os.path.abspath(__file__)))
ENV="GOFLAGS=-mod=mod GOPROXY=off GOSUMDB=off GOTOOLCHAIN=local"
# id: (category, technique, text, note, design_ref)
CHECKS={
 "C19": ("exploration","exhaustive run-time enumeration + reference-model monitor",
   "Complete run-time enumeration of the 3-permission universe (caller set x default set x attachment mode x required permission x shape) against the real auth package, every header/query form x verifier outcome through auth.Handler, plus end-to-end ws/http clients; an independent model decides run/deny and an invocation counter observes the implementation.",
   "Permissions are compared only for equality, so the 3-element universe is representative; the HTTP handler is driven through httptest (no TLS, no proxies).","2/C19"),
}
CHECKS.update({
 "C03": ("fault_enumeration","fault-injecting frame proxy + clock-free lost-call oracle over hooked executions",
   "Enumerates fault kind x direction x frame ordinal x byte-position class through a frame-aware TCP proxy, with calls in flight, issued right after the injection, issued inside the reconnect window (client parked at the redial hook) and after recovery, plus double faults and the targeted windows 'read error inside a frame' and 'response ∥ cancel ∥ loss'; a call counts as lost only when it is outstanding, no handler runs for it and a later probe round-tripped on the same client. Runs under the race detector with seeded hook noise.",
   "Faults strike at the proxy's frame/byte granularity; executions are sampled, not all schedules; 8 s scheduling grace.","2/C03"),
 "C04": ("fault_enumeration","per-token execution counters + proxy frame log under enumerated faults",
   "Same fault enumeration as C03 plus fault-free ws/http/custom lanes and HTTP byte-position cuts; handler entry counters per unique call token and request frames per token seen by the proxy are compared with what each caller received (at-most-once, exactly-once on answer, notifications id-less/response-less, no library-initiated re-send). A retry-tagged contrast lane proves the re-send monitor can see re-sends.",
   "Tokens travel in params; execution = entry into the handler method.","2/C04"),
 "C05": ("fault_enumeration","outage scripts through the fault proxy + bounded-progress and spacing monitors on redial hook events",
   "Outage scripts (fault kind x number of refused redials up to 150 x backoff x reconnect/no-reconnect x error mapping x second fault right after the redial x idle-after-reconnect) with retry-tagged and untagged calls in flight and issued while the client is parked at the redial hook. Recovery is judged as bounded progress, retry-tagged calls must return their own token, untagged ones must surface an (optionally typed) error, consecutive redial hook events must be at least 0.9*minDelay apart (load cannot falsify a lower bound on sleeps), accepts at the proxy are bounded, and a no-reconnect client must never redial.",
   "Eventually = bounded progress (3*(k+2)*maxBackoff + 8 s); only the minimum spacing is asserted, not the growth curve.","2/C05"),
 "C02": ("exploration","forced completion orders + token-echo and frame-correlation monitors + porcupine linearizability of recorded histories",
   "N concurrent callers with unique tokens; the harness holds handlers and releases them in every permutation (N<=4 quick, N<=6 thorough) and seeded random orders up to N=64, over ws and http, with seeded hook noise and targeted stalls around registration/write/lookup/delivery; each caller's outcome must be what its own handler produced and must not arrive before that handler was released; the proxy checks response ids against request ids; confused-server replies with foreign ids must be rejected; KV histories recorded at the client boundary are checked for linearizability per key with porcupine. Plus a single-stall pair enumeration on a healthy connection: the k-th firing of hook point p is parked until point q fires, for every ordered pair of 23 (point, side) pairs (thorough: all pairs x 4 occurrences, 1 840 executions; quick: a seed-rotated sample covering every point), with a strict fault-free oracle over calls (own answer, exactly-once execution, cancel delivered to exactly its handler); late reverse answers across a reconnect and calls with done contexts during an outage.",
   "Interleavings are sampled (distinct hook-order signatures reported); completion orders exhaustive only for small N.","2/C02"),
 "C06": ("exploration","context-capturing handlers + logical delivery oracle (cancel frame seen at the proxy, later probe round trip)",
   "Populations of held unary calls and open subscriptions on one or two connections (same ids on both); every non-empty cancelled subset for K+S<=4, seeded beyond; instants: pre-cancelled, after entry, racing the release, after unrelated calls, window W3 (cancel overtaken by the response); ws and http. After the cancel is logically delivered ctx.Err() must be non-nil exactly for the cancelled tokens, nil for all others, and uncancelled handlers must finish with a live context.",
   "http abort detection is bounded by the 8 s grace; schedules are sampled.","2/C06"),
 "C07": ("exploration","unique-value stream monitor + wire-order check on the proxy frame log",
   "1..8 concurrent subscriptions on a healthy link with lengths around every internal buffer (0..5000, frame queue also shrunk to 4), five element types, four producer and three consumer behaviours incl. a stalled consumer, unary calls interleaved, seeded hook delays and window W6; received sequences must equal the sent ones exactly, channels close only after the last value, the response announcing a channel precedes its first value on the wire, no foreign values, and other streams/calls make progress while one consumer is stalled. Plus the single-stall pair enumeration of C02 judged on its streams (complete, ordered, closed; endless streams flow and close on cancel).",
   "Healthy link only; schedules sampled.","2/C07"),
 "C08": ("fault_enumeration","termination-cause enumeration through the fault proxy + prefix/closure monitor, child-process survival for double close",
   "Causes {handler close, subscription cancel, FIN/RST/BLACKHOLE at the k-th value frame x 5 byte positions, client close} x instants (before the channel-id response, after k values, values buffered behind a slow consumer) x pairwise races x windows W1 and W5; once the cause is logically established the drained channel must be closed within the grace, and what was received must be a prefix of what the handler sent; a double close kills the child and is attributed to the scenario. Plus a cancel storm (thousands of endless streams cancelled while their handlers stream at full speed, 6-8 callers on one client, drained to the close: gap-free prefix), run by an extra child built without the race detector because -race closes the few-instruction window it aims at.",
   "8 s grace after establishment; interleavings sampled plus two targeted windows.","2/C08"),
 "C18": ("fault_enumeration","closer fired from inside every hook point x occurrence of a mixed workload + completion monitor",
   "A mixed workload (concurrent calls, held call, multi-frame response, streams, a cancelled call and subscription, a cut with a refused redial, calls in the reconnect window, work after the reconnect) is run once per (client-side hook point, occurrence); the closer is fired asynchronously from inside that hook. Then: the closer returns, every outstanding call returned, 20 later calls return errors, every client channel is closed, and no redial hook event or proxy accept is sequenced after the closer's return; http/custom closers during calls in progress must not disturb them.",
   "Instants are the hook points (21 points x up to 12 occurrences); 8 s grace.","2/C18"),
 "C15": ("fault_enumeration","end-of-connection cause enumeration + captured-context monitor + labelled goroutine-profile leak oracle",
   "End causes {client closer, FIN, RST, server-side context cancel} x work in progress {held unary, held notification, streaming, handler blocked in a reverse call, all, none} x handler reaction {at once, after 50 ms, 10 B, 1 MiB result} x inbound traffic {idle, notification flood}, with hook delays at ws.exit.* / h.lazy.acquire. Every handler context captured for the connection must be done; after the handlers returned, the goroutine profile is filtered by the pprof labels the library attaches (jrpc-mode=wsserver, jrpc-uuid) and any goroutine of a connection created by the scenario that survives the grace is a leak (stack = witness).",
   "Relies on the library's own pprof labels (blind -> inconclusive, never 'held'); 8 s grace.","2/C15"),
 "C16": ("exploration","identity-echo monitor over multi-client reverse calls + fault proxy at each frame of the reverse exchange",
   "1..8 simultaneously connected clients with distinct identities; concurrent forward calls each trigger nested reverse calls through the plain method, a client-side alias, an rpc_method tag, a failing and a panicking client-side handler; the identity returned through the forward call must be the caller's own and reverse errors must carry token and identity; presence matrix {ws,http,custom} x {with,without option}; FIN/RST at each of the four frames of the reverse exchange x 5 byte positions with the reverse call on a detached context, plus reverse calls issued after / blocked across the end of the connection: the server-side handler must come back within the grace.",
   "Schedules sampled; 8 s grace.","2/C16"),
 "C17": ("exploration","timed workloads through the proxy (blackhole, throttling) with 3/3 doubled-scale confirmation",
   "Client (ping,timeout) x server ping {off, 50 ms, 5 s, 3x timeout}: held calls of 0.1x..6x timeout, idle gaps of 3x/8x, a silent subscription open for 5x, a 1 MiB response throttled to ~3x timeout must all survive with the proxy's accept count staying 1; BLACKHOLE while idle / call in flight / subscription open must fail pending calls and produce a redial within 5x timeout + 2 s. Wall-clock by nature: plain binary, <=4 children, and a failure counts only if reproduced 3/3 at doubled time scale.",
   "Bounds are generous multiples of the timeout; unreproduced observations are inconclusive; default 30 s/5 s settings are not exercised.","2/C17"),
 "C14": ("exploration","race detector + frame-validating proxy over all-writers stress repetitions and targeted windows",
   "Stress repetitions with every writer class active on one connection (requests/responses from 10 B to 3x the write buffer, both cancel paths, channel registrations/values/closes, 1-3 ms pings on both sides, reverse calls, periodic faults with reconnect incl. outages longer than the timeout, client close), one writer class's critical section widened per repetition, plus windows W1, W4 and W10; the proxy validates every frame in both directions (mask discipline, fragmentation, control frames, each data message exactly one JSON-RPC object); race-detector reports with a library frame are violations (deduplicated by top library frame pair); a gorilla concurrent-write panic kills the child and is attributed.",
   "The race detector only sees executed pairs; logging is silenced because its pools/mutexes add happens-before edges that hide races.","2/C14"),
 "C01": ("exploration","type-directed generated calls + independent JSON round-trip reference model, instrumented catalogue handlers",
   "A catalogue of ~45 method signatures (0-6 params, with/without context, all return shapes, RawParams, custom encoder/decoder pair) is called with seeded type-directed values incl. boundary pools over http, ws and custom transports under the four built-in formatters and a custom one (30 000 calls quick, 600 000 thorough); handlers record the canonical JSON and dynamic type of every received argument and return generated values/errors; the oracle RT(x)=Unmarshal(Marshal(x)) into the declared type is independent of library code.",
   "Finite catalogue (no 7+ parameter signatures); NaN/Inf and invalid UTF-8 are outside the property.","2/C01"),
 "C09": ("exploration","grammar-based and mutated request bodies + reference model of the JSON-RPC 2.0 reply rules, handler counters",
   "Bodies from a JSON-RPC grammar (single/batch/empty/padded; ten element kinds; ids of every JSON type incl. fractions and exponent spellings; params absent/null/[]/object), byte-level mutations, an exhaustive sub-run over all batches of length <=3 (quick) / <=4 (thorough) of six element kinds, and the same element stream as ws frames; strict structural checks (exactly one JSON value, jsonrpc 2.0, id present, result XOR error), id echo by JSON type and value, the four named codes, 'handler ran iff valid', one response per valid-id ws frame and none for notifications. The model is deliberately weaker than the library wherever the statement is silent.",
   "Grammar-built requests use canonical member names once; mutated bodies that stay valid JSON are judged structurally only; HTTP status is recorded, not judged.","2/C09"),
 "C10": ("exploration","attacker process vs host process: exhaustive hostile single-frame grid, seeded sequences, exit-status + probe oracle",
   "The endpoint under attack lives in its own process. Server: the complete single-frame grid (7 methods incl. the xrpc.* built-ins and responses x 186 params shapes x 8 id types = 10 416 frames), seeded 2-6 frame sequences (in-flight ids, live channels, binary/empty/mutated frames); after every hostile input a token-echo probe on the same connection and per chunk on a fresh one; host exit status and stderr are the crash oracle. Mirror: a fake server feeds the grid to a real client in a host process (crash only). HTTP: size limits L in {1..1 MiB} with bodies of exactly L-1, L, L+1 bytes and a handler counter; mutated bodies.",
   "No unbounded frame sizes; WebSocket-level protocol violations are not part of the alphabet.","2/C10"),
 "C11": ("exploration","generated error values x registration tables + reference model from the statement",
   "Eleven error kinds (nil, plain, wrapped, registered plain value/pointer, marshalable in pointer and value form, three codec types incl. a failing one) x messages from a valid-UTF-8 pool x six registration tables x {error, (value,error)} x {ws,http,custom}; the model decides nil/non-nil, zero value, generic vs exact registered type, message/code preservation and content equality for types that carry content by contract; a client panic is caught and reported.",
   "Plain struct errors are only required to arrive with the right type and code; same code/different client type accepts any non-nil error.","2/C11"),
 "C12": ("exploration","exhaustive run-time enumeration of a small naming universe + reference dispatch table, per-handler counters",
   "Every configuration (3 namespaces x 2 overlapping handler types x 5 formatters x 5 alias tables) is a real server and every candidate method string (all formatted names under all formatters, alias names, case variants, degenerate names) a real request; clients sharing the formatter and rpc_method-tagged fields call every method over http and ws; for every non-raw catalogue method all arities 0..k+1 and a 12-probe JSON-type mismatch matrix per parameter, with decodability decided by encoding/json itself. Counters show which (instance, method) ran; rejected requests must leave all counters unchanged.",
   "Colliding registrations under a namespace-less formatter: either instance accepted; alias-to-alias may resolve either way.","2/C12"),
 "C13": ("exploration","host-process survival + sibling token-echo monitor around injected panics",
   "The server (and, for reverse calls, the client) lives in a host process. Ten panic payloads x {unary ws/http, notification, channel-returning, reverse, custom} with healthy calls in flight and open streams on the same and on other connections across the panic; the panicking caller's error must mention the panic (and string/error payload text), siblings return their own tokens, streams are complete, 20 follow-up calls succeed, the host exits cleanly.",
   "Siblings are kept in flight by handler-side delays.","2/C13"),
 "C20": ("exploration","byte-exact digest monitor over generated payloads, forced arrival orders, io.Reader-contract probes",
   "Payload lengths around every buffer size up to 4 MiB+3 x 4 content classes x 7 handler read patterns (incl. reads past EOF, Close after EOF, Close half-way) x arrival order forced both ways by wrappers around the upload and RPC handlers x 1/4/16 concurrent calls x {http, ws}; handler-side SHA-256/length must equal the caller's, every read after the last byte returns (0, EOF), no error or recovered panic reaches the caller, each upload request completes with 200, and no call observes another call's bytes. Runs under the race detector.",
   "Orders are forced with a bounded escape; Close half-way is judged only for completion and absence of errors.","2/C20"),
})
NA={}
def main():
    props=[json.loads(l)["id"] for l in open(os.path.join(V,"properties.jsonl"))]
    checks=[]
    for pid in props:
        if pid in CHECKS:
            cat,tech,text,note,ref=CHECKS[pid]
            checks.append({
              "property_id":pid,
              "quick_cmd":"./check %s quick"%pid,
              "thorough_cmd":"./check %s thorough"%pid,
              "evidence_file":"/verif/evidence/%s.json"%pid,
              "replay_cmd_template":"./check %s quick --replay {path}"%pid,
              "engine":"vharness",
              "level_claimed":{"category":cat,"text":text,"design_ref":"DESIGN.md section "+ref},
              "level_note":note,
              "technique":tech})
    na=[{"property_id":p,"reason":NA.get(p,"check not built yet in this revision; see DESIGN.md section 2 for the planned monitor")} for p in props if p not in CHECKS]
    hooks=subprocess.run(["git","-C","/repo","log","--format=%H %s"],capture_output=True,text=True).stdout.splitlines()
    src=[l.split()[0] for l in hooks if " verif:" in l]
    m={"version":1,
       "setup_cmd":"cd /verif && ./setup.sh",
       "hooks":{"guard":"verif (Go build tag)","enable":"go build -tags verif (the harness module replaces github.com/filecoin-project/go-jsonrpc with /repo)",
                "baseline_off_cmd":"cd /repo && "+ENV+" go test -vet=off -count=1 -timeout 25m ./...",
                "source_commits":src,"add_only":True},
       "engines":[{"name":"vharness","path":"/verif/harness","serves_properties":sorted(CHECKS),"kind_free_text":"Go runtime-monitoring harness: instrumented handlers, frame-aware fault-injecting proxy, hook-driven schedule policies, offline oracles; driver shards scenarios over child processes (race-detector build where schedules matter)"}],
       "checks":checks,
       "notes":"All checks rebuild the harness against /repo's working tree with -tags verif on every invocation (./check). KNOWN_FINDINGS.txt lists recorded findings and fixed defects.",
       "not_applicable":na}
    json.dump(m,open(os.path.join(V,"MANIFEST.json"),"w"),indent=1)
    print("checks:",len(checks),"not_applicable:",len(na))
main()
