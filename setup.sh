#!/bin/bash
# Offline setup: builds both harness binaries (plain and -race) against /repo so
# that later ./check invocations hit a warm build cache, and runs the harness self-tests.
set -e
cd "$(dirname "$0")"
export GOFLAGS=-mod=mod GOPROXY=off GOSUMDB=off GOTOOLCHAIN=local
mkdir -p .build evidence/replays
(cd harness && go build -tags verif -o ../.build/vh ./cmd/vh && go build -tags verif -race -o ../.build/vh-race ./cmd/vh)
(cd harness && go test -tags verif -count=1 ./... 2>&1 | tail -8)
./.build/vh list
echo setup ok
